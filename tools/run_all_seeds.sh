#!/bin/bash
# run_all_seeds.sh [Cxx ...]: for every seeded change (or those of the given properties) run the property's quick
# check against a scratch worktree of /repo HEAD with the change applied; one line per seed in seeded/RESULTS.tsv.
# Uses the ./check beside this script (so it works from a `vp run` snapshot) and never touches /repo's working tree.
cd "$(dirname "$0")/.." || exit 2
V=$(pwd); OUT=$V/seeded/RESULTS.tsv; : > $OUT
PROPS=${@:-$(ls seeded | grep '^C')}
for P in $PROPS; do for SD in seeded/$P/seed*; do S=$(basename $SD)
  WT=$(mktemp -d /tmp/seedrun-XXXX); rmdir $WT
  git -C /repo worktree add -q --detach $WT HEAD || continue
  PATCH=$V/$SD/patch.diff; PORT=$V/docs/seed-ports/$P-$S-on-fixes.diff
  how=orig
  if ! (cd $WT && git apply $PATCH 2>/dev/null); then
     if [ -f $PORT ] && (cd $WT && git apply $PORT 2>/dev/null); then how=port
     elif (cd $WT && git apply -3 $PATCH 2>/dev/null); then how=3way
     else echo -e "$P\t$S\tNOAPPLY" >> $OUT; git -C /repo worktree remove --force $WT; continue; fi
  fi
  T0=$(date +%s)
  VERIF_REPO=$WT timeout 1500 ./check $P --tier quick > $V/$SD/check_$P.log 2>&1; RC=$?
  T1=$(date +%s)
  git -C /repo worktree remove --force $WT
  NV=$(grep -c '^VIOLATION' $V/$SD/check_$P.log); NF=$(grep -c 'no-failing-input-found' $V/$SD/check_$P.log)
  echo -e "$P\t$S\t$how\trc=$RC\tviolations=$NV\tno_input=$NF\t$((T1-T0))s\t$(grep -h '^VIOLATION' $V/$SD/check_$P.log | head -1 | cut -c1-160)" >> $OUT
done; done
cat $OUT
