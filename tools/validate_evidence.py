#!/usr/bin/env python3
"""validate_evidence.py [Cxx ...]: is every evidence/<id>.json a valid record of a QUIET run on /repo's tree?

Run before committing evidence (tools/full_pass.sh ends with it).  A file fails when it
  - does not validate against /root/.vp/EVIDENCE.schema.json (jsonschema, when importable: python3-vt has it),
  - is a proof-level record with discharged != obligations or discharged < 1,
  - records violations (a record of a seeded / broken tree was once committed this way),
  - was written for another tree than /repo (key "tree"), or for another property / level than MANIFEST.json claims,
  - has no samples, no evaluations, fewer than 2 distinct non-trivial cases.
Exit 1 and one line per problem; exit 0 and a one-line summary otherwise."""
import json
import os
import sys

V = os.path.dirname(os.path.dirname(os.path.abspath(__file__)))
SCHEMA = "/root/.vp/EVIDENCE.schema.json"
NOTES = []


def problems(pid, claimed_level):
    p = os.path.join(V, "evidence", pid + ".json")
    if not os.path.exists(p):
        return ["missing"]
    try:
        e = json.load(open(p))
    except Exception as ex:
        return ["unreadable: %r" % ex]
    out = []
    try:
        import jsonschema
        if os.path.exists(SCHEMA):
            for err in jsonschema.Draft202012Validator(json.load(open(SCHEMA))).iter_errors(e):
                out.append("schema: %s at /%s" % (err.message[:120], "/".join(map(str, err.path))))
    except ImportError:
        note = "jsonschema not importable: structural rules only"
        if note not in NOTES:
            NOTES.append(note)
    c = e.get("coverage", {})
    if e.get("property_id") != pid:
        out.append("property_id %r" % e.get("property_id"))
    if claimed_level and e.get("level") != claimed_level:
        out.append("level %r, MANIFEST claims %r" % (e.get("level"), claimed_level))
    if e.get("tier") not in ("quick", "thorough"):
        out.append("tier %r" % e.get("tier"))
    if e.get("level") == "proof":
        ob, di = c.get("obligations"), c.get("discharged")
        if not isinstance(ob, int) or not isinstance(di, int) or ob < 1 or di < 1 or ob != di:
            out.append("coverage.discharged (%r) != obligations (%r) or < 1" % (di, ob))
        if len(c.get("theorems", [])) != ob:
            out.append("%d theorem names for %r obligations" % (len(c.get("theorems", [])), ob))
        if not c.get("checker_cmd", "").strip() or not c.get("trusted_base"):
            out.append("checker_cmd / trusted_base empty")
        if c.get("build", {}).get("ok") is False or c.get("build", {}).get("failed"):
            out.append("build not ok: failed=%r" % c.get("build", {}).get("failed"))
    if e.get("violations"):
        out.append("records %r violations: not the record of a quiet run" % e.get("violations"))
    if e.get("tree") not in (None, "/repo"):
        out.append("written for tree %r" % e.get("tree"))
    if not isinstance(c.get("evaluations"), int) or c.get("evaluations", 0) < 1:
        out.append("evaluations %r" % c.get("evaluations"))
    if not isinstance(c.get("distinct_nontrivial"), int) or c.get("distinct_nontrivial", 0) < 2:
        out.append("distinct_nontrivial %r" % c.get("distinct_nontrivial"))
    if isinstance(c.get("evaluations"), int) and isinstance(c.get("distinct_nontrivial"), int) \
            and c["distinct_nontrivial"] > c["evaluations"]:
        out.append("distinct_nontrivial %d > evaluations %d" % (c["distinct_nontrivial"], c["evaluations"]))
    if not isinstance(c.get("samples"), list) or not c.get("samples"):
        out.append("no samples")
    if not isinstance(c.get("rule"), str) or not c.get("rule", "").strip():
        out.append("no rule")
    return out


def main():
    man = json.load(open(os.path.join(V, "MANIFEST.json")))
    claimed = {c["property_id"]: c["level_claimed"]["category"] for c in man["checks"]}
    pids = sys.argv[1:] or sorted(claimed)
    bad = 0
    for pid in pids:
        for pr in problems(pid, claimed.get(pid)):
            bad += 1
            print("EVIDENCE %s: %s" % (pid, pr))
    for f in sorted(os.listdir(os.path.join(V, "evidence"))):
        if f.endswith(".json") and f[:-5] not in claimed:
            bad += 1
            print("EVIDENCE %s: file for a property MANIFEST.json does not claim" % f)
    for n in NOTES:
        print("note: " + n)
    print("evidence: %d files checked, %d problems" % (len(pids), bad))
    return 1 if bad else 0


if __name__ == "__main__":
    sys.exit(main())
