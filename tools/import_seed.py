#!/usr/bin/env python3
"""import_seed.py Cxx : copy confirmed seeded changes from /tmp/seed/Cxx/out/* into /verif/seeded/Cxx/"""
import json, os, shutil, sys
pid = sys.argv[1]
src = "/tmp/seed/%s/out" % pid
for d in sorted(os.listdir(src)):
    sd = os.path.join(src, d)
    v = os.path.join(sd, "verify.json")
    if not os.path.exists(v):
        print("skip (unverified)", sd); continue
    ver = json.load(open(v))
    if not ver["ok"]:
        print("skip (not confirmed)", sd, ver); continue
    dst = "/verif/seeded/%s/%s" % (pid, d)
    os.makedirs(dst, exist_ok=True)
    for f in ("patch.diff", "demo.py"):
        shutil.copy(os.path.join(sd, f), dst)
    meta = json.load(open(os.path.join(sd, "meta.json")))
    meta["property"] = pid
    meta["confirmed_by_me"] = {"how": "tools/verify_seed.sh in a scratch worktree of /repo: patch applies to pristine tree; full pytest suite with the change; demo.py with and without the change",
                               "tests_with_change": ver["tests"], "demo_with_change_exit": ver["demo_with_change_exit"],
                               "demo_without_change_exit": ver["demo_without_change_exit"]}
    json.dump(meta, open(os.path.join(dst, "meta.json"), "w"), indent=1)
    print("imported", dst)
