"""C12 constants, read from the source of the tree under check (fail closed).

Writes coq/gen/C12Consts.v:
  ACK_FRAME_CAPACITY, MAX_ACK_RANGES   module constants of quic/connection.py
  UINT_VAR_MAX_SIZE                    module constant of buffer.py
  FT_ACK                               QuicFrameType.ACK (quic/packet.py)
  ACK_DELAY_US                         `self._ack_delay = K_GRANULARITY` in QuicConnection.__init__ with
                                       K_GRANULARITY the float literal of quic/congestion/base.py, in microseconds
                                       (must be a whole number of microseconds)
  ADV_MAX_ACK_DELAY_MS                 the literal of `max_ack_delay=<int>` in _serialize_transport_parameters
                                       (the value the endpoint advertises, milliseconds)
  LOCAL_ACK_DELAY_EXPONENT             `self._local_ack_delay_exponent = <int>` in __init__
  MIN_FRAME_CAPACITY                   PACKET_NUMBER_MAX_SIZE - PACKET_NUMBER_SEND_SIZE (start_frame's floor for the first
                                       frame of a packet)
  CAP_ACK_NOW (bool)                   the tail of receive_datagram contains
                                       `if space.ack_at is not None and len(space.ack_queue) >= MAX_ACK_RANGES:
                                            space.ack_at = min(space.ack_at, now)`  (docs/C12-fix-2.patch); false when no
                                       statement of receive_datagram mentions MAX_ACK_RANGES; anything else fails closed
  PACING_LE (bool)                     the pacing test of _write_application is `space.ack_at is None or space.ack_at > now`
                                       (pacing skipped when ack_at <= now: true) or `... >= now` (skipped only when
                                       ack_at < now: false); anything else fails closed
Also checks the shape of the two expressions the model copies: the capacity argument of the ACK start_frame
(`ACK_FRAME_CAPACITY + 2 * UINT_VAR_MAX_SIZE * (len(space.ack_queue) - 1)`) and the cap loop
(`while len(space.ack_queue) > MAX_ACK_RANGES: space.ack_queue.shift()`).
"""
import ast
import os
from fractions import Fraction

VERIF = os.path.dirname(os.path.dirname(os.path.dirname(os.path.abspath(__file__))))
REPO = os.environ.get("VERIF_REPO", "/repo")
OUTPUTS = ["gen/C12Consts.v"]


class GenError(Exception):
    pass


def _src(*parts):
    return open(os.path.join(REPO, "src", "aioquic", *parts)).read()


def _int(node, what):
    if isinstance(node, ast.Constant) and isinstance(node.value, int) and not isinstance(node.value, bool):
        return node.value
    raise GenError("%s is not an integer literal" % what)


def _func(tree, cls, name):
    for n in ast.walk(tree):
        if isinstance(n, ast.ClassDef) and n.name == cls:
            for f in n.body:
                if isinstance(f, ast.FunctionDef) and f.name == name:
                    return f
    raise GenError("%s.%s not found" % (cls, name))


def _is_self_attr(node, attr):
    return (isinstance(node, ast.Attribute) and node.attr == attr and isinstance(node.value, ast.Name)
            and node.value.id == "self")


def _self_assign_node(func, attr):
    vals = []
    for n in ast.walk(func):
        if isinstance(n, (ast.Assign, ast.AnnAssign)):
            targets = n.targets if isinstance(n, ast.Assign) else [n.target]
            if any(_is_self_attr(t, attr) for t in targets) and n.value is not None:
                vals.append(n.value)
    if len(vals) != 1:
        raise GenError("expected exactly one assignment to self.%s in %s, found %d" % (attr, func.name, len(vals)))
    return vals[0]


def _module_node(tree, name):
    for n in tree.body:
        if isinstance(n, ast.Assign) and len(n.targets) == 1 and isinstance(n.targets[0], ast.Name) \
                and n.targets[0].id == name:
            return n.value
    raise GenError("module constant %s not found" % name)


def _enum_member(tree, cls, name):
    for n in tree.body:
        if isinstance(n, ast.ClassDef) and n.name == cls:
            for a in n.body:
                if isinstance(a, ast.Assign) and isinstance(a.targets[0], ast.Name) and a.targets[0].id == name:
                    return _int(a.value, "%s.%s" % (cls, name))
    raise GenError("%s.%s not found" % (cls, name))


def _one(vals, what):
    vals = list(vals)
    if len(vals) != 1:
        raise GenError("expected exactly one %s, found %d" % (what, len(vals)))
    return vals[0]


def read_consts():
    conn_src = _src("quic", "connection.py")
    conn = ast.parse(conn_src)
    pkt = ast.parse(_src("quic", "packet.py"))
    buf = ast.parse(_src("buffer.py"))
    base_src = _src("quic", "congestion", "base.py")
    base = ast.parse(base_src)
    pb = ast.parse(_src("quic", "packet_builder.py"))
    c = {}
    c["ACK_FRAME_CAPACITY"] = _int(_module_node(conn, "ACK_FRAME_CAPACITY"), "ACK_FRAME_CAPACITY")
    c["MAX_ACK_RANGES"] = _int(_module_node(conn, "MAX_ACK_RANGES"), "MAX_ACK_RANGES")
    c["UINT_VAR_MAX_SIZE"] = _int(_module_node(buf, "UINT_VAR_MAX_SIZE"), "UINT_VAR_MAX_SIZE")
    c["FT_ACK"] = _enum_member(pkt, "QuicFrameType", "ACK")
    c["MIN_FRAME_CAPACITY"] = (_int(_module_node(pkt, "PACKET_NUMBER_MAX_SIZE"), "PACKET_NUMBER_MAX_SIZE")
                               - _int(_module_node(pb, "PACKET_NUMBER_SEND_SIZE"), "PACKET_NUMBER_SEND_SIZE"))
    init = _func(conn, "QuicConnection", "__init__")
    c["LOCAL_ACK_DELAY_EXPONENT"] = _int(_self_assign_node(init, "_local_ack_delay_exponent"),
                                         "self._local_ack_delay_exponent")
    # self._ack_delay = K_GRANULARITY, K_GRANULARITY = <float literal>
    v = _self_assign_node(init, "_ack_delay")
    if not (isinstance(v, ast.Name) and v.id == "K_GRANULARITY"):
        raise GenError("self._ack_delay is not K_GRANULARITY")
    g = _module_node(base, "K_GRANULARITY")
    if not (isinstance(g, ast.Constant) and isinstance(g.value, float)):
        raise GenError("K_GRANULARITY is not a float literal")
    lit = ast.get_source_segment(base_src, g)
    us = Fraction(lit) * 1000000
    if us.denominator != 1 or us <= 0:
        raise GenError("K_GRANULARITY %s is not a positive whole number of microseconds" % lit)
    c["ACK_DELAY_US"] = int(us)
    # no other assignment to _ack_delay anywhere in the class
    n_assign = sum(1 for n in ast.walk(conn) if isinstance(n, (ast.Assign, ast.AugAssign, ast.AnnAssign))
                   for t in (n.targets if isinstance(n, ast.Assign) else [n.target]) if _is_self_attr(t, "_ack_delay"))
    if n_assign != 1:
        raise GenError("self._ack_delay assigned %d times" % n_assign)
    # max_ack_delay=<int> advertised
    ser = _func(conn, "QuicConnection", "_serialize_transport_parameters")
    c["ADV_MAX_ACK_DELAY_MS"] = _one(
        (_int(k.value, "max_ack_delay") for n in ast.walk(ser) if isinstance(n, ast.Call)
         for k in n.keywords if k.arg == "max_ack_delay"), "max_ack_delay=<int> keyword")
    # shape of _write_ack_frame
    w = _func(conn, "QuicConnection", "_write_ack_frame")
    caps = [k.value for n in ast.walk(w) if isinstance(n, ast.Call) and isinstance(n.func, ast.Attribute)
            and n.func.attr == "start_frame" for k in n.keywords if k.arg == "capacity"]
    cap = _one(caps, "start_frame(capacity=...) in _write_ack_frame")
    want = "ACK_FRAME_CAPACITY + 2 * UINT_VAR_MAX_SIZE * (len(space.ack_queue) - 1)"
    if ast.unparse(cap) != want:
        raise GenError("ACK capacity expression changed: %s" % ast.unparse(cap))
    loops = [n for n in ast.walk(w) if isinstance(n, ast.While)]
    lp = _one(loops, "while loop in _write_ack_frame")
    if ast.unparse(lp.test) != "len(space.ack_queue) > MAX_ACK_RANGES" or \
            [ast.unparse(b) for b in lp.body] != ["space.ack_queue.shift()"]:
        raise GenError("ACK range cap loop changed: %s" % ast.unparse(lp))
    # the two behaviours of docs/C12-fix-2.patch, probed from the source
    rd = _func(conn, "QuicConnection", "receive_datagram")
    mentions = [n for n in ast.walk(rd) if isinstance(n, (ast.If, ast.While, ast.Assign, ast.Expr))
                and any(isinstance(x, ast.Name) and x.id == "MAX_ACK_RANGES" for x in ast.walk(n))
                and not any(isinstance(ch, (ast.If, ast.While, ast.For, ast.Try, ast.With)) and ch is not n
                            and any(isinstance(x, ast.Name) and x.id == "MAX_ACK_RANGES" for x in ast.walk(ch))
                            for ch in ast.walk(n))]
    if not mentions:
        c["CAP_ACK_NOW"] = False
    elif (len(mentions) == 1 and isinstance(mentions[0], ast.If) and not mentions[0].orelse
          and ast.unparse(mentions[0].test) == "space.ack_at is not None and len(space.ack_queue) >= MAX_ACK_RANGES"
          and [ast.unparse(b) for b in mentions[0].body] == ["space.ack_at = min(space.ack_at, now)"]):
        c["CAP_ACK_NOW"] = True
    else:
        raise GenError("receive_datagram uses MAX_ACK_RANGES in an unknown way: %s" % [ast.unparse(m)[:120] for m in mentions])
    wa = _func(conn, "QuicConnection", "_write_application")
    tests = [ast.unparse(n.test) for n in ast.walk(wa) if isinstance(n, ast.If)
             and ast.unparse(n.test).startswith("space.ack_at is None or space.ack_at")]
    t = _one(tests, "pacing test `space.ack_at is None or space.ack_at ... now` in _write_application")
    if t == "space.ack_at is None or space.ack_at >= now":
        c["PACING_LE"] = False
    elif t == "space.ack_at is None or space.ack_at > now":
        c["PACING_LE"] = True
    else:
        raise GenError("pacing test changed: %s" % t)
    ackw = [ast.unparse(n.test) for n in ast.walk(wa) if isinstance(n, ast.If)
            and ast.unparse(n.test).startswith("space.ack_at is not None and space.ack_at")]
    if ackw != ["space.ack_at is not None and space.ack_at <= now"]:
        raise GenError("ACK write test of _write_application changed: %s" % ackw)
    return c


def generate():
    c = read_consts()
    lines = ["(* GENERATED by tools/gen/c12_consts.py from the tree under check -- do not edit *)",
             "From Coq Require Import ZArith.", "Open Scope Z_scope.", ""]
    for k in sorted(c):
        if isinstance(c[k], bool):
            lines.append("Definition %s : bool := %s." % (k, "true" if c[k] else "false"))
        else:
            lines.append("Definition %s : Z := %d." % (k, c[k]))
    text = "\n".join(lines) + "\n"
    path = os.path.join(VERIF, "coq", "gen", "C12Consts.v")
    os.makedirs(os.path.dirname(path), exist_ok=True)
    try:
        if open(path).read() == text:
            return
    except FileNotFoundError:
        pass
    with open(path, "w") as f:
        f.write(text)


if __name__ == "__main__":
    generate()
    print(read_consts())
