"""C17 generator: the position arithmetic of pull_quic_header (src/aioquic/quic/packet.py).

pull_quic_header is handed a Buffer over the whole datagram standing at the packet start and computes with the
ABSOLUTE quantities buf.tell() and buf.capacity.  model/HeaderAt.v was written with those expressions; this
generator reads them from the source on every run by symbolic execution of the function's integer assignments
(+, -, buf.tell(), buf.capacity, names, integer constants) along its four paths and writes them to
coq/gen/C17Header.v as Gallina terms over

    start = buf.tell() on entry (packet_start), tell = buf.tell() where the expression is evaluated,
    cap = buf.capacity, rl = the Length field (rest_length)

  src_long_truncated / src_long_packet_length      Initial, 0-RTT, Handshake: the "Packet payload is truncated" test
                                                   and the returned packet_length
  src_retry_token_length, src_retry_truncated, src_retry_packet_length
  src_vn_packet_length                             tell = position after `while not buf.eof()`
  src_short_packet_length

proofs/HeaderAtSource.v proves that model/HeaderAt.v computes exactly these (header_at_matches_source); a test
that compares a LENGTH with buf.capacity instead of an END OFFSET therefore breaks a proof in the closure of
props/C17.v, for every start offset, not only on the explored inputs.

Fail closed: an expression outside the fragment where one is needed, an unknown branch test, paths for the three
Length-carrying packet types that differ, raise ValueError.
"""
import ast
import os

OUTPUTS = ["gen/C17Header.v"]

ROOT = os.path.dirname(os.path.dirname(os.path.dirname(os.path.abspath(__file__))))
REPO = os.environ.get("VERIF_REPO", "/repo")
SRC = "src/aioquic/quic/packet.py"

CMP = {ast.Gt: "(%s >? %s)", ast.GtE: "(%s >=? %s)", ast.Lt: "(%s <? %s)", ast.LtE: "(%s <=? %s)",
       ast.Eq: "(%s =? %s)", ast.NotEq: "(negb (%s =? %s))"}


class Unsupported(ValueError):
    pass


def fail(msg):
    raise Unsupported("c17_header: %s: %s" % (SRC, msg))


def is_buf_call(node, name=None):
    return (isinstance(node, ast.Call) and isinstance(node.func, ast.Attribute) and isinstance(node.func.value, ast.Name)
            and node.func.value.id == "buf" and (name is None or node.func.attr == name))


def sym(e, env):
    """Gallina term of an integer expression, or None when it is outside the fragment"""
    if isinstance(e, ast.Constant) and isinstance(e.value, int) and not isinstance(e.value, bool):
        return str(e.value) if e.value >= 0 else "(%d)" % e.value
    if isinstance(e, ast.Name):
        if e.id == "RETRY_INTEGRITY_TAG_SIZE":
            return "RETRY_INTEGRITY_TAG_SIZE"
        return env.get(e.id)
    if is_buf_call(e, "tell") and not e.args and not e.keywords:
        return "tell"
    if isinstance(e, ast.Attribute) and isinstance(e.value, ast.Name) and e.value.id == "buf" and e.attr == "capacity":
        return "cap"
    if isinstance(e, ast.BinOp) and isinstance(e.op, (ast.Add, ast.Sub)):
        a, b = sym(e.left, env), sym(e.right, env)
        if a is None or b is None:
            return None
        return "(%s %s %s)" % (a, "+" if isinstance(e.op, ast.Add) else "-", b)
    return None


def cond(e, env):
    if isinstance(e, ast.Compare) and len(e.ops) == 1 and type(e.ops[0]) in CMP:
        a, b = sym(e.left, env), sym(e.comparators[0], env)
        if a is not None and b is not None:
            return CMP[type(e.ops[0])] % (a, b)
    return None


def moves(st):
    """does the statement move the read position?"""
    return any(is_buf_call(n) and n.func.attr not in ("tell", "eof") for n in ast.walk(st))


def mentions_position(e):
    return any((is_buf_call(n, "tell")) or (isinstance(n, ast.Attribute) and isinstance(n.value, ast.Name) and n.value.id == "buf"
                                             and n.attr == "capacity") for n in ast.walk(e))


BRANCH = {
    "is_long_header(first_byte)": ("long", "short"),
    "version == QuicProtocolVersion.NEGOTIATION": ("vn", "typed"),
    "packet_type == QuicPacketType.INITIAL": ("initial", None),
    "packet_type == QuicPacketType.ZERO_RTT": ("zero_rtt", None),
    "packet_type == QuicPacketType.HANDSHAKE": ("handshake", None),
}


class Walker:
    def __init__(self):
        self.results = {}

    def run(self, stmts, env, path, guards, sites):
        """returns normally when the statement list falls through; paths end at `return`"""
        for i, st in enumerate(stmts):
            rest = stmts[i + 1:]
            if isinstance(st, ast.If):
                test = ast.unparse(st.test)
                only_raise = len(st.body) == 1 and isinstance(st.body[0], ast.Raise) and not st.orelse
                if only_raise:
                    c = cond(st.test, env)
                    if c is not None and ("tell" in c or "cap" in c or "start" in c):
                        guards = guards + [c]                 # a position test that rejects the packet
                    elif mentions_position(st.test):
                        fail("position test outside the fragment: %s" % test)
                    continue
                if test not in BRANCH:
                    if mentions_position(st.test):
                        fail("unknown branch on the buffer position: %s" % test)
                    # a branch that does not involve positions (type decode tables): both arms must not touch tracked names
                    for arm in (st.body, st.orelse):
                        for s2 in arm:
                            if moves(s2) or any(isinstance(n, ast.Name) and isinstance(n.ctx, ast.Store) and n.id in env for n in ast.walk(s2)):
                                fail("untracked branch %s changes the position or a tracked name" % test)
                    continue
                yes, no = BRANCH[test]
                self.run(st.body + rest, dict(env), path + [yes], list(guards), dict(sites))
                if no is None and not st.orelse:
                    fail("branch %s without else" % test)
                self.run(st.orelse + rest, dict(env), path + ([no] if no else []), list(guards), dict(sites))
                return
            if isinstance(st, ast.While):
                if ast.unparse(st.test) != "not buf.eof()":
                    fail("unknown loop %s" % ast.unparse(st.test))
                env = {k: v for k, v in env.items() if "tell" not in v}
                path = path + ["after_eof_loop"]
                continue
            if isinstance(st, ast.Return):
                v = st.value
                if not (isinstance(v, ast.Call) and isinstance(v.func, ast.Name) and v.func.id == "QuicHeader"):
                    fail("return is not QuicHeader(...)")
                kw = {k.arg: k.value for k in v.keywords}
                if "packet_length" not in kw:
                    fail("QuicHeader(...) without packet_length=")
                length = sym(kw["packet_length"], env)
                if length is None:
                    fail("packet_length expression outside the fragment on path %s: %s" % (path, ast.unparse(kw["packet_length"])))
                key = tuple(path)
                if key in self.results:
                    fail("path %s reached twice" % (key,))
                self.results[key] = {"guards": guards, "length": length, "sites": sites}
                return
            if isinstance(st, ast.Raise):
                return
            if isinstance(st, ast.Assign) and len(st.targets) == 1 and isinstance(st.targets[0], ast.Name):
                name = st.targets[0].id
                if is_buf_call(st.value, "pull_uint_var") and name == "rest_length":
                    env = {k: v for k, v in env.items() if "tell" not in v}
                    env[name] = "rl"
                    continue
                if is_buf_call(st.value, "pull_bytes") and len(st.value.args) == 1:
                    a = sym(st.value.args[0], env)
                    if a is not None and ("tell" in a or "cap" in a):
                        sites = dict(sites)
                        sites["pull_bytes:" + name] = a       # a read whose size is computed from the position (Retry token)
                    elif mentions_position(st.value.args[0]):
                        fail("read size outside the fragment: %s" % ast.unparse(st.value))
                v = None if moves(st) else sym(st.value, env)
                if moves(st):
                    env = {k: v2 for k, v2 in env.items() if "tell" not in v2}
                if v is not None:
                    env = dict(env)
                    env[name] = v
                else:
                    if not moves(st) and mentions_position(st.value):
                        fail("position expression outside the fragment: %s" % ast.unparse(st))
                    env = {k: v2 for k, v2 in env.items() if k != name}
                continue
            if isinstance(st, ast.Expr) and isinstance(st.value, ast.Constant):
                continue
            if moves(st):
                env = {k: v for k, v in env.items() if "tell" not in v}
                continue
            if mentions_position(st):
                fail("statement outside the fragment: %s" % ast.unparse(st)[:80])
        fail("path %s falls off the end of the function" % (path,))


def read():
    tree = ast.parse(open(os.path.join(REPO, SRC)).read())
    fns = [s for s in tree.body if isinstance(s, ast.FunctionDef) and s.name == "pull_quic_header"]
    if len(fns) != 1:
        fail("pull_quic_header not found exactly once")
    body = fns[0].body
    if not (isinstance(body[0], ast.Assign) and ast.unparse(body[0]) == "packet_start = buf.tell()"):
        fail("the function no longer starts with `packet_start = buf.tell()`")
    w = Walker()
    w.run(body[1:], {"packet_start": "start"}, [], [], {})
    r = w.results
    want = {("long", "vn", "after_eof_loop"), ("long", "typed", "initial"), ("long", "typed", "zero_rtt"), ("long", "typed", "handshake"),
            ("long", "typed"), ("short",)}
    if set(r) != want:
        fail("paths %s, expected %s" % (sorted(r), sorted(want)))
    first = r[("long", "typed", "initial")]
    for k in (("long", "typed", "zero_rtt"), ("long", "typed", "handshake")):
        if (r[k]["guards"], r[k]["length"]) != (first["guards"], first["length"]):
            fail("Initial / 0-RTT / Handshake compute different packet ends")
    retry = r[("long", "typed")]
    tok = [v for k, v in retry["sites"].items() if k == "pull_bytes:token"]
    if len(tok) != 1:
        fail("Retry: token read whose size depends on the position not found")
    for k in (("long", "vn", "after_eof_loop"), ("short",)):
        if r[k]["guards"]:
            fail("unexpected position test on path %s" % (k,))
    if any(r[k]["sites"] for k in r if k != ("long", "typed")):
        fail("unexpected position-sized read")
    return {"long": first, "retry": retry, "retry_token": tok[0], "vn": r[("long", "vn", "after_eof_loop")], "short": r[("short",)]}


def disj(gs):
    if not gs:
        return "false"
    out = gs[0]
    for g in gs[1:]:
        out = "(%s || %s)" % (out, g)
    return out


def render():
    r = read()
    return """(* GENERATED by tools/gen/c17_header.py from %s -- do not edit.
   The position arithmetic of pull_quic_header read from the source:
   start = buf.tell() on entry, tell = buf.tell() at the expression, cap = buf.capacity, rl = rest_length. *)
From AQ Require Import lib.Base model.Codec model.Header.

(* Initial / 0-RTT / Handshake: condition of `raise ValueError("Packet payload is truncated")`, returned packet_length *)
Definition src_long_truncated (start tell cap rl : Z) : bool := %s.
Definition src_long_packet_length (start tell cap rl : Z) : Z := %s.

(* Retry: size of the token read, then the same check with rest_length = 0 *)
Definition src_retry_token_length (start tell cap : Z) : Z := %s.
Definition src_retry_truncated (start tell cap : Z) : bool := %s.
Definition src_retry_packet_length (start tell cap : Z) : Z := %s.

(* Version Negotiation (tell = position after `while not buf.eof()`), 1-RTT *)
Definition src_vn_packet_length (start tell cap : Z) : Z := %s.
Definition src_short_packet_length (start tell cap : Z) : Z := %s.
""" % (SRC, disj(r["long"]["guards"]), r["long"]["length"], r["retry_token"], disj(r["retry"]["guards"]), r["retry"]["length"],
       r["vn"]["length"], r["short"]["length"])


def generate():
    data = render()
    path = os.path.join(ROOT, "coq", OUTPUTS[0])
    os.makedirs(os.path.dirname(path), exist_ok=True)
    old = open(path).read() if os.path.exists(path) else None
    if old != data:
        with open(path, "w") as f:
            f.write(data)


if __name__ == "__main__":
    print(render())
