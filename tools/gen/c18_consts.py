"""C18 constants, read from the source of the tree under check (fail closed).

Writes coq/gen/C18Consts.v:
  MAX_PENDING_RETIRES            module constant of quic/connection.py
  LOCAL_ACTIVE_CID_LIMIT         `self._local_active_connection_id_limit = <int>` in QuicConnection.__init__
  INITIAL_REMOTE_ACTIVE_CID_LIMIT `self._remote_active_connection_id_limit = <int>` in __init__
  REPLENISH_CAP                  the literal in `min(<int>, self._remote_active_connection_id_limit)` of
                                 _replenish_connection_ids
  PENDING_RETIRES_FACTOR         the literal in `self._local_active_connection_id_limit * <int>` of the
                                 pending-retires check in _handle_new_connection_id_frame
  MIN_REMOTE_ACTIVE_CID_LIMIT    the literal in `active_connection_id_limit < <int>` (transport parameter check)
  CONNECTION_ID_MAX_SIZE         module constant of quic/packet.py
  E_PROTOCOL_VIOLATION, E_FRAME_ENCODING_ERROR, E_CONNECTION_ID_LIMIT_ERROR   members of QuicErrorCode
"""
import ast
import os

VERIF = os.path.dirname(os.path.dirname(os.path.dirname(os.path.abspath(__file__))))
REPO = os.environ.get("VERIF_REPO", "/repo")


class GenError(Exception):
    pass


def _int(node, what):
    if isinstance(node, ast.Constant) and isinstance(node.value, int) and not isinstance(node.value, bool):
        return node.value
    raise GenError("%s is not an integer literal" % what)


def _func(tree, cls, name):
    for n in ast.walk(tree):
        if isinstance(n, ast.ClassDef) and n.name == cls:
            for f in n.body:
                if isinstance(f, ast.FunctionDef) and f.name == name:
                    return f
    raise GenError("%s.%s not found" % (cls, name))


def _is_self_attr(node, attr):
    return (isinstance(node, ast.Attribute) and node.attr == attr and isinstance(node.value, ast.Name)
            and node.value.id == "self")


def _self_assign(func, attr):
    vals = []
    for n in ast.walk(func):
        if isinstance(n, (ast.Assign, ast.AnnAssign)):
            targets = n.targets if isinstance(n, ast.Assign) else [n.target]
            if any(_is_self_attr(t, attr) for t in targets) and n.value is not None:
                vals.append(_int(n.value, "self.%s" % attr))
    if len(vals) != 1:
        raise GenError("expected exactly one literal assignment to self.%s in %s, found %d" % (attr, func.name, len(vals)))
    return vals[0]


def _module_const(tree, name):
    for n in tree.body:
        if isinstance(n, ast.Assign) and len(n.targets) == 1 and isinstance(n.targets[0], ast.Name) and n.targets[0].id == name:
            return _int(n.value, name)
    raise GenError("module constant %s not found" % name)


def _enum_member(tree, cls, name):
    for n in tree.body:
        if isinstance(n, ast.ClassDef) and n.name == cls:
            for a in n.body:
                if isinstance(a, ast.Assign) and isinstance(a.targets[0], ast.Name) and a.targets[0].id == name:
                    return _int(a.value, "%s.%s" % (cls, name))
    raise GenError("%s.%s not found" % (cls, name))


def _one(vals, what):
    vals = list(vals)
    if len(vals) != 1:
        raise GenError("expected exactly one %s, found %d" % (what, len(vals)))
    return vals[0]


def read_consts():
    conn = ast.parse(open(os.path.join(REPO, "src", "aioquic", "quic", "connection.py")).read())
    pkt = ast.parse(open(os.path.join(REPO, "src", "aioquic", "quic", "packet.py")).read())
    c = {}
    c["MAX_PENDING_RETIRES"] = _module_const(conn, "MAX_PENDING_RETIRES")
    init = _func(conn, "QuicConnection", "__init__")
    c["LOCAL_ACTIVE_CID_LIMIT"] = _self_assign(init, "_local_active_connection_id_limit")
    c["INITIAL_REMOTE_ACTIVE_CID_LIMIT"] = _self_assign(init, "_remote_active_connection_id_limit")
    # min(<int>, self._remote_active_connection_id_limit) in _replenish_connection_ids
    rep = _func(conn, "QuicConnection", "_replenish_connection_ids")
    c["REPLENISH_CAP"] = _one(
        (_int(n.args[0], "replenish cap") for n in ast.walk(rep)
         if isinstance(n, ast.Call) and isinstance(n.func, ast.Name) and n.func.id == "min" and len(n.args) == 2
         and _is_self_attr(n.args[1], "_remote_active_connection_id_limit")),
        "min(<int>, self._remote_active_connection_id_limit) in _replenish_connection_ids")
    # self._local_active_connection_id_limit * <int> in _handle_new_connection_id_frame
    h = _func(conn, "QuicConnection", "_handle_new_connection_id_frame")
    c["PENDING_RETIRES_FACTOR"] = _one(
        (_int(n.right, "pending factor") for n in ast.walk(h)
         if isinstance(n, ast.BinOp) and isinstance(n.op, ast.Mult)
         and _is_self_attr(n.left, "_local_active_connection_id_limit")),
        "self._local_active_connection_id_limit * <int>")
    # active_connection_id_limit < <int> in _parse_transport_parameters
    ptp = _func(conn, "QuicConnection", "_parse_transport_parameters")
    c["MIN_REMOTE_ACTIVE_CID_LIMIT"] = _one(
        (_int(n.comparators[0], "min remote limit") for n in ast.walk(ptp)
         if isinstance(n, ast.Compare) and len(n.ops) == 1 and isinstance(n.ops[0], ast.Lt)
         and isinstance(n.left, ast.Attribute) and n.left.attr == "active_connection_id_limit"),
        "active_connection_id_limit < <int>")
    c["CONNECTION_ID_MAX_SIZE"] = _module_const(pkt, "CONNECTION_ID_MAX_SIZE")
    for m in ("PROTOCOL_VIOLATION", "FRAME_ENCODING_ERROR", "CONNECTION_ID_LIMIT_ERROR"):
        c["E_" + m] = _enum_member(pkt, "QuicErrorCode", m)
    return c


def generate():
    c = read_consts()
    lines = ["(* GENERATED by tools/gen/c18_consts.py from the tree under check -- do not edit *)",
             "From Coq Require Import ZArith.", "Open Scope Z_scope.", ""]
    for k in sorted(c):
        lines.append("Definition %s : Z := %d." % (k, c[k]))
    text = "\n".join(lines) + "\n"
    path = os.path.join(VERIF, "coq", "gen", "C18Consts.v")
    os.makedirs(os.path.dirname(path), exist_ok=True)
    try:
        if open(path).read() == text:
            return
    except FileNotFoundError:
        pass
    with open(path, "w") as f:
        f.write(text)


if __name__ == "__main__":
    generate()
    print(read_consts())
