"""C07: constants of the receive-side limit logic, read from the tree under test with `ast`
(fails closed when a name is missing or is not an integer literal) -> coq/gen/C07Consts.v."""
import ast
import os

REPO = os.environ.get("VERIF_REPO", "/repo")
ROOT = os.path.dirname(os.path.dirname(os.path.dirname(os.path.abspath(__file__))))
OUT = os.path.join(ROOT, "coq", "gen", "C07Consts.v")
OUTPUTS = ["gen/C07Consts.v"]   # deleted by the harness when generate() raises: dependents stop compiling

MODULE_CONSTS = ["MAX_PENDING_CRYPTO", "MAX_REMOTE_CHALLENGES", "MAX_PENDING_RETIRES", "MAX_LOCAL_CHALLENGES"]
ERROR_CODES = ["FLOW_CONTROL_ERROR", "STREAM_LIMIT_ERROR", "STREAM_STATE_ERROR", "FINAL_SIZE_ERROR",
               "FRAME_ENCODING_ERROR", "CONNECTION_ID_LIMIT_ERROR", "PROTOCOL_VIOLATION", "CRYPTO_BUFFER_EXCEEDED"]
FRAME_TYPES = ["RESET_STREAM", "CRYPTO", "STREAM_BASE", "MAX_DATA", "MAX_STREAM_DATA", "MAX_STREAMS_BIDI",
               "MAX_STREAMS_UNI", "STREAM_DATA_BLOCKED", "NEW_CONNECTION_ID", "RETIRE_CONNECTION_ID", "PATH_CHALLENGE", "PATH_RESPONSE"]


def _int(node, what):
    try:
        v = ast.literal_eval(node)
    except Exception:
        raise ValueError("C07 consts: %s is not a literal" % what)
    if not isinstance(v, int) or isinstance(v, bool):
        raise ValueError("C07 consts: %s is not an integer" % what)
    return v


def _module_assigns(tree):
    d = {}
    for n in tree.body:
        if isinstance(n, ast.Assign) and len(n.targets) == 1 and isinstance(n.targets[0], ast.Name):
            d[n.targets[0].id] = n.value
    return d


def _enum(tree, cls):
    for n in tree.body:
        if isinstance(n, ast.ClassDef) and n.name == cls:
            return {a.targets[0].id: a.value for a in n.body
                    if isinstance(a, ast.Assign) and isinstance(a.targets[0], ast.Name)}
    raise ValueError("C07 consts: class %s not found" % cls)


def _write_if_changed(path, text):
    try:
        if open(path).read() == text:
            return
    except FileNotFoundError:
        pass
    os.makedirs(os.path.dirname(path), exist_ok=True)
    tmp = path + ".tmp%d" % os.getpid()
    with open(tmp, "w") as f:
        f.write(text)
    os.replace(tmp, path)


def collect():
    src = os.path.join(REPO, "src", "aioquic")
    conn = ast.parse(open(os.path.join(src, "quic", "connection.py")).read())
    pkt = ast.parse(open(os.path.join(src, "quic", "packet.py")).read())
    buf = ast.parse(open(os.path.join(src, "buffer.py")).read())
    out = []
    ma = _module_assigns(conn)
    for name in MODULE_CONSTS:
        if name not in ma:
            raise ValueError("C07 consts: %s missing in connection.py" % name)
        out.append((name, _int(ma[name], name)))
    mb = _module_assigns(buf)
    if "UINT_VAR_MAX" not in mb:
        raise ValueError("C07 consts: UINT_VAR_MAX missing in buffer.py")
    out.append(("UINT_VAR_MAX", _int(mb["UINT_VAR_MAX"], "UINT_VAR_MAX")))
    ec = _enum(pkt, "QuicErrorCode")
    for name in ERROR_CODES:
        if name not in ec:
            raise ValueError("C07 consts: QuicErrorCode.%s missing" % name)
        out.append(("E_" + name, _int(ec[name], name)))
    ft = _enum(pkt, "QuicFrameType")
    for name in FRAME_TYPES:
        if name not in ft:
            raise ValueError("C07 consts: QuicFrameType.%s missing" % name)
        out.append(("FT_" + name, _int(ft[name], name)))
    # values fixed in QuicConnection.__init__: Limit(..., name="max_streams_*", value=N) and
    # self._local_active_connection_id_limit = N
    found = {}
    for n in ast.walk(conn):
        if isinstance(n, ast.Call) and isinstance(n.func, ast.Name) and n.func.id == "Limit":
            kw = {k.arg: k.value for k in n.keywords}
            if "name" in kw and isinstance(kw["name"], ast.Constant) and "value" in kw:
                nm = kw["name"].value
                if nm in ("max_streams_bidi", "max_streams_uni"):
                    found["INIT_" + nm.upper()] = _int(kw["value"], nm)
        if (isinstance(n, ast.Assign) and len(n.targets) == 1 and isinstance(n.targets[0], ast.Attribute)
                and n.targets[0].attr == "_local_active_connection_id_limit"):
            found["LOCAL_ACTIVE_CID_LIMIT"] = _int(n.value, "_local_active_connection_id_limit")
    for name in ("INIT_MAX_STREAMS_BIDI", "INIT_MAX_STREAMS_UNI", "LOCAL_ACTIVE_CID_LIMIT"):
        if name not in found:
            raise ValueError("C07 consts: %s not found in QuicConnection.__init__" % name)
        out.append((name, found[name]))
    # ---- probes: behaviour that differs between trees (the model follows the tree under test) -------------
    opt = []
    tls_tree = ast.parse(open(os.path.join(src, "tls.py")).read())
    mt = _module_assigns(tls_tree)
    hm = _func(tls_tree, "handle_message")
    cap = None
    if "MAX_HANDSHAKE_MESSAGE_SIZE" in mt and hm is not None and _mentions(hm, "MAX_HANDSHAKE_MESSAGE_SIZE"):
        cap = _int(mt["MAX_HANDSHAKE_MESSAGE_SIZE"], "MAX_HANDSHAKE_MESSAGE_SIZE")
    opt.append(("TLS_MESSAGE_CAP", cap))           # tls.Context.handle_message refuses larger messages (decode_error)
    rd = _func(conn, "receive_datagram")
    pcap = None
    if "MAX_NETWORK_PATHS" in ma and rd is not None and _mentions(rd, "MAX_NETWORK_PATHS"):
        pcap = _int(ma["MAX_NETWORK_PATHS"], "MAX_NETWORK_PATHS")
    opt.append(("NETWORK_PATHS_CAP", pcap))        # receive_datagram forgets the oldest non-active path beyond this
    flags = []
    hr = _func(conn, "_handle_reset_stream_frame")
    st = ast.parse(open(os.path.join(src, "quic", "stream.py")).read())
    hr2 = _func(st, "handle_reset")
    if hr is None or hr2 is None:
        raise ValueError("C07 consts: reset handlers not found")
    flags.append(("RESET_ADVANCES_HIGHEST", _assigns_attr(hr, "highest_offset") or _assigns_attr(hr2, "highest_offset")))
    hn = _func(conn, "_handle_new_connection_id_frame")
    if hn is None:
        raise ValueError("C07 consts: _handle_new_connection_id_frame not found")
    # a sequence number below Retire Prior To that was never seen is retired at once (retire.append(...))
    flags.append(("NCID_LATE_RETIRED", any(isinstance(n, ast.Call) and isinstance(n.func, ast.Attribute) and n.func.attr == "append"
                                            and isinstance(n.func.value, ast.Name) and n.func.value.id == "retire" for n in ast.walk(hn))))
    # retiring every known connection ID raises PROTOCOL_VIOLATION instead of IndexError (pop from an empty list)
    flags.append(("NCID_EMPTY_CLOSES", any(isinstance(n, ast.If) and isinstance(n.test, ast.UnaryOp) and isinstance(n.test.op, ast.Not)
                                            and isinstance(n.test.operand, ast.Attribute) and n.test.operand.attr == "_peer_cid_available"
                                            and any(isinstance(b, ast.Raise) for b in n.body) for n in ast.walk(hn))))
    # position and guard of the two caps of _handle_new_connection_id_frame (fails closed on any other shape):
    # the model evaluates both caps on EVERY path of the handler, after everything that can grow the two lists
    flags.append(("NCID_RETIRE_CAP_ONLY_WHEN_RAISED", _ncid_cap_shape(hn)))
    _pin_cap_sites(conn)
    hs = _func(conn, "_handle_stream_frame")
    if hs is None:
        raise ValueError("C07 consts: _handle_stream_frame not found")
    # "was_finished = stream.receiver.is_finished ... if event is not None and not was_finished": no event for a
    # frame that arrives after the receiving part finished
    flags.append(("EVENT_SUPPRESSED_WHEN_FINISHED", _mentions(hs, "was_finished")))
    # ---- which field each receive-side limit check reads, and what a LOST delivery callback may touch -------------
    # Limit has .value (credit granted = advertised), .used, .sent (bookkeeping: last value put on the wire, reset to 0
    # when that packet is declared lost so that the frame is written again); a stream has max_stream_data_local and
    # max_stream_data_local_sent.  The model (handle_stream / handle_reset_stream / get_or_create) reads the granted
    # value in every check; code 0 = that field, 1 = the "sent" bookkeeping field, 2 = .used.  Any other shape: fail closed.
    hg = _func(conn, "_get_or_create_stream")
    if hg is None:
        raise ValueError("C07 consts: _get_or_create_stream not found")
    fields = [
        ("CHECK_FIELD_CONN_STREAM", _limit_check_field(hs, "_handle_stream_frame", "conn")),
        ("CHECK_FIELD_CONN_RESET", _limit_check_field(hr, "_handle_reset_stream_frame", "conn")),
        ("CHECK_FIELD_MSD_STREAM", _limit_check_field(hs, "_handle_stream_frame", "stream")),
        ("CHECK_FIELD_MSD_RESET", _limit_check_field(hr, "_handle_reset_stream_frame", "stream")),
        ("CHECK_FIELD_COUNT", _limit_check_field(hg, "_get_or_create_stream", "count")),
    ]
    out += fields
    od = _func(conn, "_on_connection_limit_delivery")
    os_ = _func(conn, "_on_max_stream_data_delivery")
    if od is None or os_ is None:
        raise ValueError("C07 consts: delivery callbacks of MAX_* frames not found")
    flags.append(("LOST_LIMIT_TOUCHES_ONLY_SENT",
                  _assigned_attrs(od) == {"sent"} and _assigned_attrs(os_) == {"max_stream_data_local_sent"}))
    # is the raised limit assigned BEFORE builder.start_frame() (which may raise QuicPacketBuilderStop) or only after
    # the frame was accepted?  Both writers must agree, any other shape fails closed.
    wc = _func(conn, "_write_connection_limits")
    ws = _func(conn, "_write_stream_limits")
    if wc is None or ws is None:
        raise ValueError("C07 consts: _write_connection_limits / _write_stream_limits not found")
    order = {_raise_before_frame(wc, "value", "_write_connection_limits"),
             _raise_before_frame(ws, "max_stream_data_local", "_write_stream_limits")}
    if len(order) != 1:
        raise ValueError("C07 consts: the two limit writers raise their value at different points relative to start_frame()")
    flags.append(("RAISE_BEFORE_START_FRAME", order.pop()))
    al = _enum(tls_tree, "AlertDescription")
    if "decode_error" not in al:
        raise ValueError("C07 consts: AlertDescription.decode_error missing")
    out.append(("ALERT_DECODE_ERROR", _int(al["decode_error"], "decode_error")))
    ec2 = _enum(pkt, "QuicErrorCode")
    out.append(("E_CRYPTO_ERROR", _int(ec2["CRYPTO_ERROR"], "CRYPTO_ERROR")))
    return out, opt, flags


def caps():
    """The documented caps of the peer-driven collections, read from the tree under test (module constants and the
    literal assigned to _local_active_connection_id_limit; no shape probes, so this also works on a tree on which
    collect() fails closed).  Used by the implementation oracle of harness/props/c07.py (never by the model)."""
    src = os.path.join(REPO, "src", "aioquic")
    conn = ast.parse(open(os.path.join(src, "quic", "connection.py")).read())
    ma = _module_assigns(conn)
    d = {}
    for name in MODULE_CONSTS:
        if name not in ma:
            raise ValueError("C07 consts: %s missing in connection.py" % name)
        d[name] = _int(ma[name], name)
    for n in ast.walk(conn):
        if (isinstance(n, ast.Assign) and len(n.targets) == 1 and isinstance(n.targets[0], ast.Attribute)
                and n.targets[0].attr == "_local_active_connection_id_limit"):
            d["LOCAL_ACTIVE_CID_LIMIT"] = _int(n.value, "_local_active_connection_id_limit")
    if "LOCAL_ACTIVE_CID_LIMIT" not in d:
        raise ValueError("C07 consts: _local_active_connection_id_limit not found")
    d["NETWORK_PATHS_CAP"] = _int(ma["MAX_NETWORK_PATHS"], "MAX_NETWORK_PATHS") if "MAX_NETWORK_PATHS" in ma else None
    mt = _module_assigns(ast.parse(open(os.path.join(src, "tls.py")).read()))
    d["TLS_MESSAGE_CAP"] = (_int(mt["MAX_HANDSHAKE_MESSAGE_SIZE"], "MAX_HANDSHAKE_MESSAGE_SIZE")
                            if "MAX_HANDSHAKE_MESSAGE_SIZE" in mt else None)
    return d


_FIELD_CODE = {"value": 0, "sent": 1, "used": 2, "max_stream_data_local": 0, "max_stream_data_local_sent": 1}


def _attr_chain(n):
    """a.b.c -> ["a", "b", "c"]; None for anything else"""
    parts = []
    while isinstance(n, ast.Attribute):
        parts.append(n.attr)
        n = n.value
    if isinstance(n, ast.Name):
        parts.append(n.id)
        return parts[::-1]
    return None


def _limit_check_field(fn, fname, level):
    """the `if <lhs> > <limit field>: raise QuicConnectionError(...)` of the given level in handler fn -> field code"""
    owner = {"conn": ["self", "_local_max_data"], "stream": ["stream"], "count": ["max_streams"]}[level]
    hits = []
    for n in ast.walk(fn):
        if not (isinstance(n, ast.If) and any(isinstance(b, ast.Raise) for b in n.body)):
            continue
        t = n.test
        if not (isinstance(t, ast.Compare) and len(t.ops) == 1 and len(t.comparators) == 1):
            continue
        ch = _attr_chain(t.comparators[0])
        if ch is None or ch[:-1] != owner:
            continue
        if not isinstance(t.ops[0], ast.Gt):
            raise ValueError("C07 consts: %s: %s-level limit check is not a '>' comparison" % (fname, level))
        if ch[-1] not in _FIELD_CODE:
            raise ValueError("C07 consts: %s: %s-level limit check reads unknown field %s" % (fname, level, ch[-1]))
        hits.append(_FIELD_CODE[ch[-1]])
    if len(hits) != 1:
        raise ValueError("C07 consts: %s: expected exactly one %s-level limit check, found %d" % (fname, level, len(hits)))
    return hits[0]


def _assigned_attrs(fn):
    out = set()
    for n in ast.walk(fn):
        tg = n.targets if isinstance(n, ast.Assign) else ([n.target] if isinstance(n, (ast.AugAssign, ast.AnnAssign)) else [])
        for t in tg:
            out.add(t.attr if isinstance(t, ast.Attribute) else "<other>")
    return out


def _raise_before_frame(fn, attr, fname):
    """True: every assignment to <obj>.<attr> precedes the (single) start_frame() call of fn; False: every one follows it."""
    calls = [n.lineno for n in ast.walk(fn) if isinstance(n, ast.Call) and isinstance(n.func, ast.Attribute)
             and n.func.attr == "start_frame"]
    if len(calls) != 1:
        raise ValueError("C07 consts: %s has %d start_frame() calls" % (fname, len(calls)))
    asg = []
    for n in ast.walk(fn):
        tg = n.targets if isinstance(n, ast.Assign) else ([n.target] if isinstance(n, ast.AugAssign) else [])
        if any(isinstance(t, ast.Attribute) and t.attr == attr for t in tg):
            asg.append(n.lineno)
    if not asg:
        raise ValueError("C07 consts: %s never assigns .%s" % (fname, attr))
    if all(a < calls[0] for a in asg):
        return True
    if all(a > calls[0] for a in asg):
        # the shape the model has for False: the assignment sits in the same `if <new value> != <sent field>:` block as
        # start_frame(), after it -- the attribute is assigned ONLY next to a written frame (anything else fails closed)
        blocks = [n for n in ast.walk(fn) if isinstance(n, ast.If) and not n.orelse
                  and any(isinstance(m, ast.Call) and isinstance(m.func, ast.Attribute) and m.func.attr == "start_frame"
                          for b in n.body for m in ast.walk(b))]
        if not blocks:
            raise ValueError("C07 consts: %s: start_frame() is not inside an if block" % fname)
        inner = min(blocks, key=lambda n: n.end_lineno - n.lineno)
        if not all(inner.lineno < a <= inner.end_lineno for a in asg):
            raise ValueError("C07 consts: %s assigns .%s outside the block that writes the frame" % (fname, attr))
        return False
    raise ValueError("C07 consts: %s assigns .%s on both sides of start_frame()" % (fname, attr))


def _expr(src):
    return ast.dump(ast.parse(src, mode="eval").body)


def _is_self_attr(n, attr):
    return isinstance(n, ast.Attribute) and n.attr == attr and isinstance(n.value, ast.Name) and n.value.id == "self"


def _mentions_attr(n, attr):
    return any(isinstance(m, ast.Attribute) and m.attr == attr for m in ast.walk(n))


def _raises_code(ifnode, code):
    """the body of this `if` is a single `raise QuicConnectionError(error_code=QuicErrorCode.<code>, ...)`, no else"""
    if ifnode.orelse or len(ifnode.body) != 1 or not isinstance(ifnode.body[0], ast.Raise):
        return False
    exc = ifnode.body[0].exc
    if not (isinstance(exc, ast.Call) and isinstance(exc.func, ast.Name) and exc.func.id == "QuicConnectionError"):
        return False
    kw = {k.arg: k.value for k in exc.keywords}
    return "error_code" in kw and _attr_chain(kw["error_code"]) == ["QuicErrorCode", code]


def _ncid_cap_shape(hn):
    """Where and under which condition _handle_new_connection_id_frame evaluates its two caps.
    Shape the model has (-> False): both checks are statements of the function body itself (not nested in a branch or
    loop), their tests are exactly
        1 + len(self._peer_cid_available) > self._local_active_connection_id_limit
        len(self._retire_connection_ids) > min(self._local_active_connection_id_limit * 4, MAX_PENDING_RETIRES)
    each raises CONNECTION_ID_LIMIT_ERROR, every statement of the handler that can grow the list in question
    (self._retire_peer_cid(...), self.change_connection_id(), retire.append/insert, ..._retire_connection_ids.append /
    _peer_cid_available.append / assignment) comes before the check, and there is no `return` in the handler: the caps
    are evaluated on every path that does not close the connection, the late-arrival path included.
    Recognised variant (-> True; the model then skips the retirement cap exactly as the code does and buffer_bounded
    stops checking): the retirement cap is `<g> and <the test above>` where <g> is assigned once, at the top level,
    `<g> = retire_prior_to > self._peer_retire_prior_to`, before _peer_retire_prior_to is updated.
    Anything else: ValueError (fail closed)."""
    F = "_handle_new_connection_id_frame"
    want_retire = _expr("len(self._retire_connection_ids) > min(self._local_active_connection_id_limit * 4, MAX_PENDING_RETIRES)")
    want_active = _expr("1 + len(self._peer_cid_available) > self._local_active_connection_id_limit")
    if any(isinstance(n, ast.Return) for n in ast.walk(hn)):
        raise ValueError("C07 consts: %s has a return statement (a cap could be skipped)" % F)
    top = {id(n) for n in hn.body}

    def the_if(attr, what):
        hits = [n for n in ast.walk(hn) if isinstance(n, ast.If) and any(
                    isinstance(m, ast.Call) and isinstance(m.func, ast.Name) and m.func.id == "len" and _mentions_attr(m, attr)
                    for m in ast.walk(n.test))]
        if len(hits) != 1:
            raise ValueError("C07 consts: %s: expected exactly one check of %s, found %d" % (F, what, len(hits)))
        if id(hits[0]) not in top:
            raise ValueError("C07 consts: %s: the check of %s is nested inside another statement" % (F, what))
        if not _raises_code(hits[0], "CONNECTION_ID_LIMIT_ERROR"):
            raise ValueError("C07 consts: %s: the check of %s does not just raise CONNECTION_ID_LIMIT_ERROR" % (F, what))
        return hits[0]

    def grow_sites(kind):
        out = []
        for n in ast.walk(hn):
            if isinstance(n, ast.Call) and isinstance(n.func, ast.Attribute):
                f = n.func
                if kind == "retire":
                    if _is_self_attr(f, "_retire_peer_cid") or _is_self_attr(f, "change_connection_id"):
                        out.append(n.lineno)
                    if f.attr in ("append", "insert", "extend") and (
                            (isinstance(f.value, ast.Name) and f.value.id == "retire") or _is_self_attr(f.value, "_retire_connection_ids")):
                        out.append(n.lineno)
                else:
                    if f.attr in ("append", "insert", "extend") and _is_self_attr(f.value, "_peer_cid_available"):
                        out.append(n.lineno)
            tg = n.targets if isinstance(n, ast.Assign) else ([n.target] if isinstance(n, (ast.AugAssign, ast.AnnAssign)) else [])
            for t in tg:
                if _is_self_attr(t, "_retire_connection_ids" if kind == "retire" else "_peer_cid_available"):
                    out.append(n.lineno)
        return out

    ia = the_if("_peer_cid_available", "the number of active connection IDs")
    # (the `if not self._peer_cid_available: raise PROTOCOL_VIOLATION` of NCID_EMPTY_CLOSES is nested, has no len())
    if ast.dump(ia.test) != want_active:
        raise ValueError("C07 consts: %s: unknown test of the active connection ID cap" % F)
    if not all(l < ia.lineno for l in grow_sites("active")):
        raise ValueError("C07 consts: %s: _peer_cid_available can grow after its cap was checked" % F)
    ir = the_if("_retire_connection_ids", "the number of pending retirements")
    if not grow_sites("retire") or not all(l < ir.lineno for l in grow_sites("retire")):
        raise ValueError("C07 consts: %s: _retire_connection_ids can grow after its cap was checked" % F)
    if ast.dump(ir.test) == want_retire:
        return False
    t = ir.test
    if (isinstance(t, ast.BoolOp) and isinstance(t.op, ast.And) and len(t.values) == 2 and isinstance(t.values[0], ast.Name)
            and ast.dump(t.values[1]) == want_retire):
        g = t.values[0].id
        defs = [n for n in ast.walk(hn) if isinstance(n, (ast.Assign, ast.AugAssign, ast.AnnAssign))
                and any(isinstance(x, ast.Name) and x.id == g
                        for x in (n.targets if isinstance(n, ast.Assign) else [n.target]))]
        upd = [n.lineno for n in ast.walk(hn) if isinstance(n, (ast.Assign, ast.AugAssign))
               and any(_is_self_attr(x, "_peer_retire_prior_to") for x in (n.targets if isinstance(n, ast.Assign) else [n.target]))]
        if (len(defs) == 1 and isinstance(defs[0], ast.Assign) and id(defs[0]) in top
                and ast.dump(defs[0].value) == _expr("retire_prior_to > self._peer_retire_prior_to")
                and upd and all(defs[0].lineno < l for l in upd)):
            return True
    raise ValueError("C07 consts: %s: unknown guard on the cap of pending retirements" % F)


def _pin_cap_sites(conn):
    """The other caps of buffer_bounded: every statement of connection.py that grows a capped collection sits where the
    model has it, next to its cap (fails closed otherwise; no constant is emitted)."""
    # remote_challenges: every append is the single statement guarded by `len(...) < MAX_REMOTE_CHALLENGES`
    want = _expr("len(context.network_path.remote_challenges) < MAX_REMOTE_CHALLENGES")
    guarded = set()
    for n in ast.walk(conn):
        if isinstance(n, ast.If) and ast.dump(n.test) == want:
            for b in n.body:
                for m in ast.walk(b):
                    guarded.add(id(m))
    sites = [n for n in ast.walk(conn) if isinstance(n, ast.Call) and isinstance(n.func, ast.Attribute)
             and n.func.attr in ("append", "appendleft", "extend", "insert") and _mentions_attr(n.func.value, "remote_challenges")]
    if not sites or not all(id(n) in guarded for n in sites):
        raise ValueError("C07 consts: remote_challenges grows outside `if len(...) < MAX_REMOTE_CHALLENGES`")
    # _local_challenges: assigned only in _add_local_challenge, which then trims `while len(...) > MAX_LOCAL_CHALLENGES`
    al = _func(conn, "_add_local_challenge")
    if al is None:
        raise ValueError("C07 consts: _add_local_challenge not found")
    inside = {id(m) for m in ast.walk(al)}
    for n in ast.walk(conn):
        if isinstance(n, ast.Assign) and any(isinstance(t, ast.Subscript) and _is_self_attr(t.value, "_local_challenges") for t in n.targets):
            if id(n) not in inside:
                raise ValueError("C07 consts: _local_challenges is filled outside _add_local_challenge")
    trims = [n for n in al.body if isinstance(n, ast.While) and ast.dump(n.test) == _expr("len(self._local_challenges) > MAX_LOCAL_CHALLENGES")]
    sets_ = [n.lineno for n in ast.walk(al) if isinstance(n, ast.Assign)
             and any(isinstance(t, ast.Subscript) and _is_self_attr(t.value, "_local_challenges") for t in n.targets)]
    if len(trims) != 1 or not sets_ or not all(l < trims[0].lineno for l in sets_):
        raise ValueError("C07 consts: _add_local_challenge does not trim to MAX_LOCAL_CHALLENGES after the insertion")
    # CRYPTO: `if pending > MAX_PENDING_CRYPTO: raise CRYPTO_BUFFER_EXCEEDED` at the top level of the handler, before handle_frame
    hc = _func(conn, "_handle_crypto_frame")
    if hc is None:
        raise ValueError("C07 consts: _handle_crypto_frame not found")
    chk = [n for n in hc.body if isinstance(n, ast.If) and ast.dump(n.test) == _expr("pending > MAX_PENDING_CRYPTO")
           and _raises_code(n, "CRYPTO_BUFFER_EXCEEDED")]
    pend = [n for n in hc.body if isinstance(n, ast.Assign) and len(n.targets) == 1 and isinstance(n.targets[0], ast.Name)
            and n.targets[0].id == "pending"]
    hf = [n.lineno for n in ast.walk(hc) if isinstance(n, ast.Call) and isinstance(n.func, ast.Attribute) and n.func.attr == "handle_frame"]
    if (len(chk) != 1 or len(pend) != 1 or not hf or not all(chk[0].lineno < l for l in hf) or pend[0].lineno > chk[0].lineno
            or ast.dump(pend[0].value) != _expr("offset + length - stream.receiver.starting_offset()")
            or any(isinstance(n, ast.Return) and n.lineno < chk[0].lineno for n in ast.walk(hc))):
        raise ValueError("C07 consts: _handle_crypto_frame: unknown shape of the MAX_PENDING_CRYPTO check")


def _func(tree, name):
    for n in ast.walk(tree):
        if isinstance(n, ast.FunctionDef) and n.name == name:
            return n
    return None


def _mentions(fn, name):
    return any(isinstance(n, ast.Name) and n.id == name for n in ast.walk(fn))


def _assigns_attr(fn, attr):
    for n in ast.walk(fn):
        tg = n.targets if isinstance(n, ast.Assign) else ([n.target] if isinstance(n, ast.AugAssign) else [])
        if any(isinstance(t, ast.Attribute) and t.attr == attr for t in tg):
            return True
    return False


def generate():
    lines = ["(* GENERATED by tools/gen/c07_consts.py from $VERIF_REPO/src/aioquic -- do not edit *)",
             "From Coq Require Import ZArith.", "Open Scope Z_scope.", ""]
    consts, opt, flags = collect()
    for name, v in consts:
        lines.append("Definition %s : Z := %d." % (name, v))
    for name, v in opt:
        lines.append("Definition %s : option Z := %s." % (name, "None" if v is None else "Some %d" % v))
    for name, v in flags:
        lines.append("Definition %s : bool := %s." % (name, "true" if v else "false"))
    _write_if_changed(OUT, "\n".join(lines) + "\n")


if __name__ == "__main__":
    generate()
    print(open(OUT).read())
