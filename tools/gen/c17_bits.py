"""C17 generator: the integer codecs of src/aioquic/_buffer.c at the level of C bit operations.

For Buffer_pull_uint8/16/32/64/_var and Buffer_push_uint8/16/32/64/_var the C text is parsed
(a small recursive-descent parser for exactly the statement and expression forms these ten
functions use) and executed symbolically with the C typing rules (integer promotion of uint8_t /
uint16_t to int, usual arithmetic conversions, wrap modulo 2^N for every conversion to uintN_t,
shifts in the promoted type of the left operand).  The result is written to coq/gen/C17Bits.v as
Gallina functions over Z built from Z.shiftl / Z.shiftr / Z.lor / Z.land / mod 2^N:

  c_pull_uintN / c_pull_uint_var : list Z -> Res (Z * list Z)     (bytes -> value, remaining bytes)
  c_push_uintN / c_push_uint_var : Z -> chunk                     (Python int -> bytes | ValueError)
  c_signed_ok_<fn>                : the signed (int / long) intermediate results, each of which must
                                    lie in [0, 2^31) resp. [0, 2^63) for the C expression to be
                                    defined and value-preserving under conversion (proved in
                                    proofs/CBitsProofs.v: c_signed_ops_defined)

proofs/CBitsProofs.v proves each of them equal to the arithmetic model of model/Codec.v /
model/Varint.v (be_dec / be_enc / with_prefix / mask_first), for all bytes / all Python ints.

Fail closed: any statement or expression outside the recognised forms, a read at an offset not
covered by the preceding CHECK_READ_BOUNDS, a CHECK_WRITE_BOUNDS length different from the number
of bytes stored, a `pos += n` different from the checked length, an unknown PyArg format or return
conversion raises ValueError; the harness then deletes gen/C17Bits.v and the proofs stop compiling.
"""
import os
import re

OUTPUTS = ["gen/C17Bits.v"]

ROOT = os.path.dirname(os.path.dirname(os.path.dirname(os.path.abspath(__file__))))
REPO = os.environ.get("VERIF_REPO", "/repo")
SRC = "src/aioquic/_buffer.c"

PULLS = ["pull_uint8", "pull_uint16", "pull_uint32", "pull_uint64", "pull_uint_var"]
PUSHES = ["push_uint8", "push_uint16", "push_uint32", "push_uint64", "push_uint_var"]

# C types: (name, bits, signed).  LP64 (the platforms CPython extension modules are built for here).
U8, U16, U32, U64 = ("u8", 8, False), ("u16", 16, False), ("u32", 32, False), ("u64", 64, False)
INT, LONG = ("int", 32, True), ("long", 64, True)
CTYPES = {"uint8_t": U8, "uint16_t": U16, "uint32_t": U32, "uint64_t": U64}
ARGFMT = {"B": U8, "H": U16, "I": U32, "K": U64}      # PyArg formats without overflow checking
RETCONV = {"PyLong_FromUnsignedLong": U64, "PyLong_FromUnsignedLongLong": U64}  # parameter type (LP64)


class Unsupported(ValueError):
    pass


def fail(msg):
    raise Unsupported("c17_bits: %s: %s" % (SRC, msg))


# ---------------------------------------------------------------- lexer
TOK = re.compile(r"""
    (?P<ws>\s+|/\*.*?\*/|//[^\n]*)
  | (?P<str>"(?:[^"\\]|\\.)*")
  | (?P<num>0[xX][0-9a-fA-F]+|[0-9]+)
  | (?P<id>[A-Za-z_][A-Za-z_0-9]*)
  | (?P<op>->|\+\+|\+=|<<|>>|<=|>=|==|!=|\|\||&&|[-+*/%&|^!~<>=(){};:,])
""", re.X | re.S)


def lex(text):
    out, i = [], 0
    while i < len(text):
        m = TOK.match(text, i)
        if not m:
            fail("cannot tokenise at %r" % text[i:i + 20])
        i = m.end()
        if m.lastgroup != "ws":
            out.append((m.lastgroup, m.group(m.lastgroup)))
    return out


def function_body(text, name):
    m = re.search(r"^Buffer_%s\(BufferObject \*self, PyObject \*args\)\s*\n\{\n(.*?)^\}" % re.escape(name),
                  text, re.M | re.S)
    if not m:
        fail("function Buffer_%s not found" % name)
    return m.group(1)


# ---------------------------------------------------------------- expressions
# AST: ("num", v) ("var", name) ("byte", k, postinc) ("cast", ctype, e) ("bin", op, a, b)
class P:
    def __init__(self, toks, fn):
        self.t, self.i, self.fn = toks, 0, fn

    def peek(self, k=0):
        return self.t[self.i + k] if self.i + k < len(self.t) else ("eof", "")

    def eat(self, val=None, kind=None):
        k, v = self.peek()
        if (val is not None and v != val) or (kind is not None and k != kind):
            fail("%s: expected %r, found %r" % (self.fn, val or kind, v))
        self.i += 1
        return v

    def at(self, *vals):
        return all(self.peek(j)[1] == v for j, v in enumerate(vals))

    # precedence (C): | lowest here, then &, then relational, then shifts
    def expr(self):
        a = self.band()
        while self.at("|"):
            self.eat("|")
            a = ("bin", "|", a, self.band())
        return a

    def band(self):
        a = self.rel()
        while self.at("&"):
            self.eat("&")
            a = ("bin", "&", a, self.rel())
        return a

    def rel(self):
        a = self.shift()
        if self.peek()[1] in ("<=", "<", ">", ">=", "==", "!="):
            op = self.eat()
            a = ("bin", op, a, self.shift())
        return a

    def shift(self):
        a = self.unary()
        while self.peek()[1] in ("<<", ">>"):
            op = self.eat()
            a = ("bin", op, a, self.unary())
        return a

    def unary(self):
        if self.at("(") and self.peek(1)[1] in CTYPES and self.peek(2)[1] == ")":
            self.eat("(")
            ty = CTYPES[self.eat()]
            self.eat(")")
            return ("cast", ty, self.unary())
        if self.at("*"):
            self.eat("*")
            self.eat("(")
            self.eat("self"); self.eat("->"); self.eat("pos")
            k, post = 0, False
            if self.at("++"):
                self.eat("++")
                post = True
            elif self.at("+"):
                self.eat("+")
                k = int(self.eat(kind="num"), 0)
            self.eat(")")
            return ("byte", k, post)
        if self.at("("):
            self.eat("(")
            e = self.expr()
            self.eat(")")
            return e
        k, v = self.peek()
        if k == "num":
            self.eat()
            return ("num", int(v, 0))
        if k == "id" and v == "value":
            self.eat()
            return ("var", v)
        fail("%s: unsupported expression token %r" % (self.fn, v))


def promote(ty):
    return INT if ty[1] < 32 else ty


def usual(a, b):
    a, b = promote(a), promote(b)
    if a == b:
        return a
    if a[1] == b[1]:
        return a if not a[2] else b          # same width: the unsigned one
    return a if a[1] > b[1] else b            # wider wins (it can represent the narrower one's values we allow: all >= 0)


def lit_type(v):
    for ty, lim in ((INT, 2 ** 31), (U32, 2 ** 32), (LONG, 2 ** 63), (U64, 2 ** 64)):
        if v < lim:
            return ty
    fail("literal %d too large" % v)


class Sym:
    """symbolic execution state of one path"""

    def __init__(self, fn, kind):
        self.fn, self.kind = fn, kind
        self.off = 0            # bytes consumed / written so far (self->pos - start)
        self.checked = 0        # CHECK_*_BOUNDS: bytes from start known to be in bounds
        self.value = None       # (gallina, ctype) of the C variable `value`
        self.value_type = None
        self.stores = []        # gallina terms of the bytes written
        self.signed = []        # obligations: (gallina, bits)

    def copy(self):
        s = Sym(self.fn, self.kind)
        s.__dict__.update({k: (list(v) if isinstance(v, list) else v) for k, v in self.__dict__.items()})
        return s

    def conv(self, g, frm, to):
        """conversion of a value of C type frm to C type to"""
        if frm == to:
            return g
        if g.isdigit() and int(g) < 2 ** (to[1] - (1 if to[2] else 0)):
            return g                              # non-negative literal that fits: value preserved
        if to[2]:   # to a signed type: only widening of something non-negative is accepted
            if to[1] > frm[1]:
                return g
            fail("%s: narrowing conversion to a signed type" % self.fn)
        if not frm[2] and frm[1] <= to[1]:
            return g                              # unsigned to wider-or-equal unsigned: value preserved
        return "(%s %s)" % (to[0], g)             # reduce modulo 2^N (signed operand: obligation says it is >= 0)

    def ev(self, e):
        """-> (gallina, ctype); side effect: pos++ and signed obligations"""
        k = e[0]
        if k == "num":
            return str(e[1]), lit_type(e[1])
        if k == "var":
            if self.value is None:
                fail("%s: `value` read before assignment" % self.fn)
            return self.value, self.value_type
        if k == "byte":
            if self.kind != "pull":
                fail("%s: memory read in a push function" % self.fn)
            idx = self.off + e[1]
            if idx >= self.checked:
                fail("%s: read of byte %d not covered by CHECK_READ_BOUNDS(%d)" % (self.fn, idx, self.checked))
            if e[2]:
                self.off += 1
            return "(B %d%%nat)" % idx, U8
        if k == "cast":
            g, ty = self.ev(e[2])
            return ("(%s %s)" % (e[1][0], g)) if not (not ty[2] and ty[1] <= e[1][1]) else g, e[1]
        op, a, b = e[1], e[2], e[3]
        ga, ta = self.ev(a)
        gb, tb = self.ev(b)
        if op in ("<<", ">>"):
            rt = promote(ta)
            if b[0] != "num" or not (0 <= b[1] < rt[1]):
                fail("%s: shift count must be a literal below the width" % self.fn)
            ga = self.conv(ga, ta, rt)
            if op == ">>":
                return "(Z.shiftr %s %d)" % (ga, b[1]), rt
            g = "(Z.shiftl %s %d)" % (ga, b[1])
            if rt[2]:
                self.signed.append((g, rt[1]))
                return g, rt
            return "(%s %s)" % (rt[0], g), rt
        if op in ("|", "&"):
            rt = usual(ta, tb)
            ga, gb = self.conv(ga, ta, rt), self.conv(gb, tb, rt)
            g = "(%s %s %s)" % ("Z.lor" if op == "|" else "Z.land", ga, gb)
            if rt[2]:
                self.signed.append((g, rt[1]))
            return g, rt
        if op in ("<=", "<", ">", ">="):
            rt = usual(ta, tb)
            ga, gb = self.conv(ga, ta, rt), self.conv(gb, tb, rt)
            return "(%s %s %s)" % (ga, {"<=": "<=?", "<": "<?", ">": ">?", ">=": ">=?"}[op], gb), ("bool", 1, False)
        fail("%s: unsupported operator %s" % (self.fn, op))


# ---------------------------------------------------------------- statements -> Gallina
def block(p, s, indent):
    """parse statements up to `}` / `break` / eof on symbolic state s; returns a Gallina term"""
    pad = "  " * indent
    while True:
        k, v = p.peek()
        if v in ("CHECK_READ_BOUNDS", "CHECK_WRITE_BOUNDS"):
            p.eat(); p.eat("("); p.eat("self"); p.eat(",")
            n = int(p.eat(kind="num"), 0)
            p.eat(")")
            if p.at(";"):
                p.eat(";")
            if (v == "CHECK_READ_BOUNDS") != (s.kind == "pull"):
                fail("%s: %s in a %s function" % (s.fn, v, s.kind))
            if s.off != 0 or n <= s.checked and s.checked != 0:
                fail("%s: bounds check after the position moved / not increasing" % s.fn)
            s.checked = n
            if s.kind == "pull":
                rest = block(p, s, indent)
                return "if Zlen bs <? %d then Err E_READ else\n%s%s" % (n, pad, rest)
            continue     # push: the capacity check is the chunk discipline (w_chunks); n is compared with the stores below
        if v in CTYPES:                    # declaration, optional initialiser
            ty = CTYPES[p.eat()]
            p.eat("value")
            s.value_type = ty
            if p.at("="):
                p.eat("=")
                g, t = s.ev(p.expr())
                s.value = s.conv(g, t, ty) if not (t[2] or t[1] > ty[1]) else "(%s %s)" % (ty[0], g)
            p.eat(";")
            continue
        if v == "value":
            p.eat(); p.eat("=")
            g, t = s.ev(p.expr())
            p.eat(";")
            ty = s.value_type
            s.value = g if (not t[2] and t[1] <= ty[1]) else "(%s %s)" % (ty[0], g)
            continue
        if v == "self":
            p.eat(); p.eat("->"); p.eat("pos"); p.eat("+=")
            n = int(p.eat(kind="num"), 0)
            p.eat(";")
            if s.off != 0 or n != s.checked:
                fail("%s: pos += %d after checking %d bytes" % (s.fn, n, s.checked))
            s.off = n
            continue
        if v == "*":                       # *(self->pos++) = expr;
            if s.kind != "push":
                fail("%s: memory write in a pull function" % s.fn)
            for x in ("*", "(", "self", "->", "pos", "++", ")", "="):
                p.eat(x)
            g, t = s.ev(p.expr())
            p.eat(";")
            s.stores.append(g if t == U8 else "(u8 %s)" % g)
            continue
        if v == "if" and p.peek(2)[1] == "!":     # if (!PyArg_ParseTuple(args, "K", &value)) return NULL;
            for x in ("if", "(", "!", "PyArg_ParseTuple", "(", "args", ","):
                p.eat(x)
            fmt = p.eat(kind="str").strip('"')
            for x in (",", "&", "value", ")", ")", "return", "NULL", ";"):
                p.eat(x)
            if fmt not in ARGFMT or ARGFMT[fmt] != s.value_type:
                fail("%s: PyArg format %r for %r" % (s.fn, fmt, s.value_type))
            s.value = "(%s v0)" % s.value_type[0]     # formats B H I K: no overflow checking, reduction modulo 2^N
            continue
        if v == "if":
            p.eat("if"); p.eat("(")
            g, t = s.ev(p.expr())
            p.eat(")")
            if t[0] != "bool":
                fail("%s: if condition is not a comparison" % s.fn)
            p.eat("{")
            s1 = s.copy()
            then = block(p, s1, indent + 1)
            p.eat("}")
            s.signed = s1.signed
            p.eat("else")
            if p.at("if"):
                els = block(p, s, indent)
            else:
                p.eat("{")
                els = block(p, s, indent + 1)
                p.eat("}")
                if p.peek()[0] != "eof":
                    fail("%s: statements after the if chain" % s.fn)
            return "if %s then %s\n%selse %s" % (g, then, pad, els)
        if v == "switch":
            p.eat("switch"); p.eat("(")
            g, t = s.ev(p.expr())
            p.eat(")"); p.eat("{")
            arms, default = [], None
            while not p.at("}"):
                s1 = s.copy()
                if p.at("case"):
                    p.eat("case")
                    lab = int(p.eat(kind="num"), 0)
                    p.eat(":")
                    arms.append((lab, block(p, s1, indent + 1)))
                else:
                    p.eat("default"); p.eat(":")
                    default = block(p, s1, indent + 1)
                p.eat("break"); p.eat(";")
                s.signed = s1.signed
            p.eat("}")
            if default is None or len(set(a for a, _ in arms)) != len(arms):
                fail("%s: switch needs distinct cases and a default" % s.fn)
            # every arm must leave the same continuation: `return PyLong_From...(value)`
            conv = None
            if p.at("return"):
                p.eat("return")
                conv = p.eat(kind="id")
                p.eat("("); p.eat("value"); p.eat(")"); p.eat(";")
            if conv not in RETCONV or p.peek()[0] != "eof":
                fail("%s: expected `return PyLong_From...(value);` after the switch" % s.fn)
            out = "let sw := %s in\n" % g
            for lab, body in arms:
                out += "%sif sw =? %d then %s else\n" % (pad, lab, body)
            return out + pad + default
        if v in ("break", "}"):            # end of a switch arm: value assigned, position advanced
            if s.kind != "pull" or s.value is None or s.off != s.checked:
                fail("%s: switch arm does not consume exactly the checked bytes" % s.fn)
            return "Ok (%s, skipn %d bs)" % (s.value, s.off)
        if v == "return":
            p.eat("return")
            conv = p.eat(kind="id")
            if conv not in RETCONV:
                fail("%s: unknown return conversion %s" % (s.fn, conv))
            p.eat("(")
            g, t = s.ev(p.expr())
            p.eat(")"); p.eat(";")
            if s.off != s.checked or p.peek()[0] != "eof":
                fail("%s: return without consuming exactly the checked bytes" % s.fn)
            g = s.conv(g, t, RETCONV[conv]) if not t[2] else "(u64 %s)" % g
            return "Ok (%s, skipn %d bs)" % (g, s.off)
        if v == "Py_RETURN_NONE":
            p.eat(); p.eat(";")
            if s.kind != "push" or len(s.stores) != s.checked or not s.stores:
                fail("%s: CHECK_WRITE_BOUNDS(%d) but %d bytes stored" % (s.fn, s.checked, len(s.stores)))
            return "Ok [%s]" % "; ".join(s.stores)
        if v == "PyErr_SetString":
            p.eat(); p.eat("(")
            exc = p.eat(kind="id")
            p.eat(","); p.eat(kind="str"); p.eat(")"); p.eat(";")
            p.eat("return"); p.eat("NULL"); p.eat(";")
            if exc != "PyExc_ValueError" or s.stores:
                fail("%s: unexpected error path" % s.fn)
            return "Err E_VALUE"
        fail("%s: unsupported statement starting with %r" % (s.fn, v))


def translate(text, name):
    kind = "pull" if name.startswith("pull") else "push"
    p = P(lex(function_body(text, name)), name)
    s = Sym(name, kind)
    term = block(p, s, 1)
    if p.peek()[0] != "eof":
        fail("%s: trailing statements" % name)
    signed = []
    for o in s.signed:
        if o not in signed:
            signed.append(o)
    return kind, term, signed


HEADER = """(* GENERATED by tools/gen/c17_bits.py from %s -- do not edit.
   The ten integer codecs of the Buffer type as the C text computes them: Z.shiftl / Z.shiftr /
   Z.lor / Z.land over the bytes, every conversion to uintN_t a reduction modulo 2^N, signed
   (int / long) intermediates listed in c_signed_ok_* (proved to stay in range in
   proofs/CBitsProofs.v).  Byte k of the buffer at the current position is [B k]. *)
From AQ Require Import lib.Base model.Codec.

Definition u8 (x : Z) : Z := x mod 2 ^ 8.
Definition u16 (x : Z) : Z := x mod 2 ^ 16.
Definition u32 (x : Z) : Z := x mod 2 ^ 32.
Definition u64 (x : Z) : Z := x mod 2 ^ 64.
Definition in_signed (bits : Z) (x : Z) : Prop := 0 <= x < 2 ^ (bits - 1).
"""


def render():
    text = open(os.path.join(REPO, SRC)).read()
    out = [HEADER % SRC]
    for name in PULLS + PUSHES:
        kind, term, signed = translate(text, name)
        if kind == "pull":
            out.append("Definition c_%s (bs : list Z) : Res (Z * list Z) :=\n  let B := fun k : nat => nth k bs 0 in\n  %s.\n"
                       % (name, term))
            obl = " /\\\n  ".join("in_signed %d %s" % (bits, g) for g, bits in signed) or "True"
            out.append("Definition c_signed_ok_%s (bs : list Z) : Prop :=\n  let B := fun k : nat => nth k bs 0 in\n  %s.\n"
                       % (name, obl))
        else:
            out.append("Definition c_%s (v0 : Z) : chunk :=\n  %s.\n" % (name, term))
            obl = " /\\\n  ".join("in_signed %d %s" % (bits, g) for g, bits in signed) or "True"
            out.append("Definition c_signed_ok_%s (v0 : Z) : Prop :=\n  %s.\n" % (name, obl))
    return "\n".join(out)


def generate():
    data = render()
    path = os.path.join(ROOT, "coq", OUTPUTS[0])
    os.makedirs(os.path.dirname(path), exist_ok=True)
    old = open(path).read() if os.path.exists(path) else None
    if old != data:
        with open(path, "w") as f:
            f.write(data)


if __name__ == "__main__":
    print(render())
