"""C04 caller translator: extracts from the CURRENT Python sources the call sites of the four native crypto
entry points (AEAD.encrypt / AEAD.decrypt / HeaderProtection.apply / HeaderProtection.remove) together with the
symbolic LENGTHS / OFFSETS of their arguments and writes coq/gen/CCallers.v.

  crypto.py          CryptoContext.encrypt_packet, CryptoContext.decrypt_packet   (the only native call sites)
                     CryptoPair.encrypt_packet / decrypt_packet                  (must forward their parameters unchanged)
                     CryptoContext.setup                                          (self.aead = AEAD(..), self.hp = HeaderProtection(..))
  packet_builder.py  QuicPacketBuilder._end_packet  -> encrypt_packet(plain[0:H], plain[H:S], pn)
  connection.py      QuicConnection.receive_datagram -> decrypt_packet(data[start_off:end_off], encrypted_off, ..)
  packet.py          pull_quic_header: the forms of `packet_end` (-> header.packet_length)

A small symbolic evaluator walks the statements of each function: Python ints become Coq Z expressions over
NAMED QUANTITIES (buf.tell() at a given point, self._header_size, header.packet_length, len(parameter) ...), bytes
objects are tracked by their length (slices through py_slice_len, the Python slice-length semantics defined in
model/CCallBase.v), `if` joins become Coq `if`; conditions that are not integer comparisons become named booleans.
Anything outside the recognised subset raises (fail closed: the harness deletes gen/CCallers.v and every C04 theorem
that depends on it stops compiling).  It also checks that no OTHER place of src/aioquic constructs or calls the
native crypto objects."""
import ast
import os
import re

OUTPUTS = ["gen/CCallers.v"]
VERIF = os.path.dirname(os.path.dirname(os.path.dirname(os.path.abspath(__file__))))
REPO = os.environ.get("VERIF_REPO", "/repo")
SRC = os.path.join(REPO, "src", "aioquic")
OUT_V = os.path.join(VERIF, "coq", "gen", "CCallers.v")


class Unsupported(Exception):
    pass


NATIVE = {("aead", "encrypt"): "NAeadEncrypt", ("aead", "decrypt"): "NAeadDecrypt",
          ("hp", "apply"): "NHpApply", ("hp", "remove"): "NHpRemove"}
# callees that neither touch the native helpers nor the tracked buffer (results are opaque)
PURE = {"decode_packet_number", "is_long_header", "next_key_phase", "encode_long_header_first_byte", "get_spin_bit"}
BUF_MUTATORS = {"push_bytes", "push_uint8", "push_uint16", "push_uint32", "push_uint64", "push_uint_var", "seek",
                "pull_bytes", "pull_uint8", "pull_uint16", "pull_uint32", "pull_uint64", "pull_uint_var"}
COQ_KEYWORDS = {"end", "in", "at", "as", "fun", "let", "match", "if", "then", "else", "return", "for", "with", "type", "mod",
                "length", "exists", "forall", "fix", "where"}


def _parse(rel):
    p = os.path.join(SRC, rel)
    return ast.parse(open(p).read()), p


def _class(tree, name):
    for n in tree.body:
        if isinstance(n, ast.ClassDef) and n.name == name:
            return n
    raise Unsupported("class %s not found" % name)


def _func(scope, name):
    for n in scope.body:
        if isinstance(n, ast.FunctionDef) and n.name == name:
            return n
    raise Unsupported("function %s not found" % name)


def _module_ints(tree):
    out = {}
    for n in tree.body:
        if isinstance(n, ast.Assign) and len(n.targets) == 1 and isinstance(n.targets[0], ast.Name) \
                and isinstance(n.value, ast.Constant) and type(n.value.value) is int:
            out[n.targets[0].id] = n.value.value
    return out


def zlit(n):
    return str(n) if n >= 0 else "(%d)" % n


class Sym:
    """Symbolic evaluator for one function body."""

    def __init__(self, fname, consts, attr_sorts, params):
        self.fname = fname
        self.consts = consts          # module-level int constants
        self.attr_sorts = attr_sorts  # "self._x" text -> ("int"|"bool", coq name)
        self.quant = []               # (coq name, sort, doc) in order of introduction
        self.lets = []                # (coq name, sort, expr) SSA bindings in order
        self.env = {}
        self.attrs = {}               # stored attributes: text -> value
        self.pc = []                  # list of Coq bool expressions
        self.sites = []               # recorded calls: dict
        self.stop_after = None
        self.done = False
        self.buf_epoch = 0
        self.ver = {}
        self.tells = {}
        self.pure_methods = set()     # zero-argument methods of the same class whose body contains no call at all
        for (p, sort, doc) in params:
            if sort == "bytes":
                self.env[p] = ("bytes", self.named(p + "_len", "int", "len(%s)  [%s]" % (p, doc)))
            elif sort == "int":
                self.env[p] = ("int", self.named(p, "int", doc))
            else:
                self.env[p] = ("opaque", p)

    # -- names -------------------------------------------------------------------------------
    def named(self, name, sort, doc):
        name = re.sub(r"[^A-Za-z0-9_]", "_", name).strip("_") or "q"
        if name in COQ_KEYWORDS or name[0].isdigit():
            name = "q_" + name
        for (n, s, d) in self.quant:
            if n == name:
                if s != sort:
                    raise Unsupported("named quantity %s used at two sorts" % name)
                return name
        self.quant.append((name, sort, doc))
        return name

    def bind(self, var, val):
        """SSA let-binding for an assigned int/bool/bytes-length; returns the value referring to the binder."""
        if val[0] not in ("int", "bool", "bytes"):
            return val
        k = self.ver.get(var, 0) + 1
        self.ver[var] = k
        nm = "%s_%d" % (re.sub(r"[^A-Za-z0-9_]", "_", var), k)
        self.lets.append((nm, "bool" if val[0] == "bool" else "int", val[1]))
        return (val[0], nm)

    # -- expressions -------------------------------------------------------------------------
    def as_bool(self, v, node):
        if v[0] == "bool":
            return v[1]
        if v[0] == "opaque":
            return self.named("c_" + ast.unparse(node), "bool", "truth value of `%s`" % ast.unparse(node))
        if v[0] == "int":
            return "(negb (%s =? 0))" % v[1]
        if v[0] == "bytes":
            return "(negb (%s =? 0))" % v[1]
        raise Unsupported("%s:%d: truth value of %s" % (self.fname, node.lineno, ast.unparse(node)))

    def ev(self, n):
        if isinstance(n, ast.Constant):
            c = n.value
            if type(c) is bool:
                return ("bool", "true" if c else "false")
            if type(c) is int:
                return ("int", zlit(c))
            if isinstance(c, bytes):
                return ("bytes", zlit(len(c)))
            if c is None:
                return ("none",)
            return ("opaque", repr(c))
        if isinstance(n, ast.Name):
            if n.id in self.env:
                return self.env[n.id]
            if n.id in self.consts:
                return ("int", zlit(self.consts[n.id]))
            return ("opaque", n.id)
        if isinstance(n, ast.Attribute):
            t = ast.unparse(n)
            if t in self.attrs:
                return self.attrs[t]
            if t in self.attr_sorts:
                sort, nm, doc = self.attr_sorts[t]
                return (sort, self.named(nm, sort, doc))
            if isinstance(n.value, ast.Name) and n.value.id in self.env and self.env[n.value.id][0] == "bytes":
                raise Unsupported("attribute of tracked bytes %s" % t)
            return ("opaque", t)
        if isinstance(n, ast.BinOp):
            a, b = self.ev(n.left), self.ev(n.right)
            if a[0] == "int" and b[0] == "int":
                ops = {ast.Add: "(%s + %s)", ast.Sub: "(%s - %s)", ast.Mult: "(%s * %s)", ast.BitAnd: "(Z.land %s %s)",
                       ast.BitOr: "(Z.lor %s %s)", ast.LShift: "(Z.shiftl %s %s)", ast.RShift: "(Z.shiftr %s %s)"}
                if type(n.op) not in ops:
                    raise Unsupported("%s:%d: operator in %s" % (self.fname, n.lineno, ast.unparse(n)))
                return ("int", ops[type(n.op)] % (a[1], b[1]))
            if a[0] == "bytes" or b[0] == "bytes":
                if a[0] == "bytes" and b[0] == "bytes" and isinstance(n.op, ast.Add):
                    return ("bytes", "(%s + %s)" % (a[1], b[1]))
                raise Unsupported("%s:%d: bytes arithmetic %s" % (self.fname, n.lineno, ast.unparse(n)))
            return ("opaque", ast.unparse(n))
        if isinstance(n, ast.UnaryOp):
            if isinstance(n.op, ast.Not):
                return ("bool", "(negb %s)" % self.as_bool(self.ev(n.operand), n.operand))
            a = self.ev(n.operand)
            if isinstance(n.op, ast.USub) and a[0] == "int":
                return ("int", "(- %s)" % a[1])
            if a[0] == "bytes":
                raise Unsupported("unary op on bytes")
            return ("opaque", ast.unparse(n))
        if isinstance(n, ast.BoolOp):
            vs = [self.as_bool(self.ev(x), x) for x in n.values]
            op = "andb" if isinstance(n.op, ast.And) else "orb"
            r = vs[0]
            for v in vs[1:]:
                r = "(%s %s %s)" % (op, r, v)
            return ("bool", r)
        if isinstance(n, ast.Compare):
            if len(n.ops) != 1:
                raise Unsupported("chained comparison %s" % ast.unparse(n))
            a, b = self.ev(n.left), self.ev(n.comparators[0])
            if a[0] == "int" and b[0] == "int":
                ops = {ast.Gt: "(%s >? %s)", ast.Lt: "(%s <? %s)", ast.GtE: "(%s >=? %s)", ast.LtE: "(%s <=? %s)",
                       ast.Eq: "(%s =? %s)", ast.NotEq: "(negb (%s =? %s))"}
                if type(n.ops[0]) not in ops:
                    raise Unsupported("comparison %s" % ast.unparse(n))
                return ("bool", ops[type(n.ops[0])] % (a[1], b[1]))
            if a[0] == "bytes" or b[0] == "bytes":
                raise Unsupported("%s:%d: comparison of tracked bytes %s" % (self.fname, n.lineno, ast.unparse(n)))
            return ("bool", self.named("c_" + ast.unparse(n), "bool", "truth value of `%s`" % ast.unparse(n)))
        if isinstance(n, ast.Subscript):
            a = self.ev(n.value)
            if a[0] == "bytes":
                if isinstance(n.slice, ast.Slice):
                    if n.slice.step is not None:
                        raise Unsupported("slice step")
                    lo = self.ev(n.slice.lower) if n.slice.lower is not None else ("int", "0")
                    hi = self.ev(n.slice.upper) if n.slice.upper is not None else ("int", a[1])
                    if lo[0] != "int" or hi[0] != "int":
                        raise Unsupported("%s:%d: slice bound is not a tracked int: %s" % (self.fname, n.lineno, ast.unparse(n)))
                    return ("bytes", "(py_slice_len %s %s %s)" % (a[1], lo[1], hi[1]))
                i = self.ev(n.slice)
                if i[0] != "int":
                    raise Unsupported("index of tracked bytes")
                return ("int", self.named("byte_%s_%s" % (ast.unparse(n.value), ast.unparse(n.slice)), "int",
                                          "the byte %s (0..255)" % ast.unparse(n)))
            return ("opaque", ast.unparse(n))
        if isinstance(n, ast.Call):
            return self.call(n)
        if isinstance(n, ast.IfExp):
            c = self.as_bool(self.ev(n.test), n.test)
            a, b = self.ev(n.body), self.ev(n.orelse)
            if a[0] == b[0] and a[0] in ("int", "bool", "bytes"):
                return (a[0], "(if %s then %s else %s)" % (c, a[1], b[1]))
            return ("opaque", ast.unparse(n))
        if isinstance(n, ast.Tuple):
            return ("tuple", [self.ev(e) for e in n.elts])
        raise Unsupported("%s:%d: expression %s" % (self.fname, n.lineno, ast.unparse(n)))

    def call(self, n):
        f = n.func
        args = n.args
        if n.keywords and not (isinstance(f, ast.Name) and f.id in PURE) and not (isinstance(f, ast.Attribute) and f.attr in ("log_event", "debug")):
            raise Unsupported("%s:%d: keyword arguments in %s" % (self.fname, n.lineno, ast.unparse(n)))
        if isinstance(f, ast.Name):
            if f.id == "len" and len(args) == 1:
                a = self.ev(args[0])
                if a[0] == "bytes":
                    return ("int", a[1])
                return ("int", self.named("len_" + ast.unparse(args[0]), "int", "len(%s)" % ast.unparse(args[0])))
            if f.id == "bytes" and len(args) == 1:
                a = self.ev(args[0])
                if a[0] == "int":
                    return ("bytes", a[1])     # bytes(n): n zero bytes (ValueError for n < 0: the path ends)
                if a[0] == "bytes":
                    return a
                raise Unsupported("bytes(%s)" % ast.unparse(args[0]))
            if f.id in PURE:
                for a in args:
                    self.ev(a)
                return ("opaque", ast.unparse(n))
            raise Unsupported("%s:%d: call to %s" % (self.fname, n.lineno, f.id))
        if isinstance(f, ast.Attribute):
            m = f.attr
            recv = f.value
            # native entry points: <x>.aead.encrypt / <x>.aead.decrypt / <x>.hp.apply / <x>.hp.remove
            if isinstance(recv, ast.Attribute) and (recv.attr, m) in NATIVE:
                vals = [self.ev(a) for a in args]
                kind = NATIVE[(recv.attr, m)]
                if len(vals) < 2:
                    raise Unsupported("native call arity")
                x = vals[0]
                y = vals[1]
                if x[0] != "bytes":
                    raise Unsupported("%s:%d: first argument of %s is not a tracked bytes value" % (self.fname, n.lineno, kind))
                if kind == "NHpRemove":
                    if y[0] != "int":
                        raise Unsupported("pn_offset is not a tracked int")
                elif y[0] != "bytes":
                    raise Unsupported("%s:%d: second argument of %s is not a tracked bytes value" % (self.fname, n.lineno, kind))
                self.sites.append({"kind": kind, "args": [x[1], y[1]], "pc": list(self.pc), "line": n.lineno, "text": ast.unparse(n),
                                   "nlets": len(self.lets)})
                if kind == "NAeadEncrypt":
                    return ("bytes", self.named("ret_encrypt_len", "int", "length of the bytes returned by AEAD.encrypt (C model: ERet result)"))
                if kind == "NAeadDecrypt":
                    return ("bytes", self.named("ret_decrypt_len", "int", "length of the bytes returned by AEAD.decrypt"))
                if kind == "NHpApply":
                    return ("bytes", self.named("ret_apply_len", "int", "length of the bytes returned by HeaderProtection.apply"))
                return ("tuple", [("bytes", self.named("ret_remove_hdr_len", "int", "length of the plain header returned by HeaderProtection.remove (C model: ERet result)")),
                                  ("int", self.named("ret_remove_pn", "int", "truncated packet number returned by HeaderProtection.remove"))])
            if m in ("encrypt_packet", "decrypt_packet"):
                vals = [self.ev(a) for a in args]
                self.sites.append({"kind": m, "vals": vals, "pc": list(self.pc), "line": n.lineno, "text": ast.unparse(n), "nlets": len(self.lets),
                                   "argtext": [ast.unparse(a) for a in args]})
                return ("bytes", self.named("ret_%s_len" % m, "int", "length of the result of %s" % m)) if m == "encrypt_packet" else ("opaque", m)
            rt = ast.unparse(recv)
            if rt in ("buf", "self._buffer"):
                if m == "tell" and not args:
                    k = self.tells.setdefault(self.buf_epoch, len(self.tells))
                    return ("int", self.named("tell_%d" % k, "int", "%s.tell() %s" % (rt, "at entry" if self.buf_epoch == 0 else "after %d statement(s) that use the buffer" % self.buf_epoch)))
                if m == "data_slice" and len(args) == 2:
                    a, b = self.ev(args[0]), self.ev(args[1])
                    if a[0] != "int" or b[0] != "int":
                        raise Unsupported("data_slice bounds")
                    # Buffer_data_slice returns stop - start bytes when it returns (C model: data_slice_result, proofs/CCallersP.v)
                    return ("bytes", "(%s - %s)" % (b[1], a[1]))
                if m in BUF_MUTATORS:
                    for a in args:
                        self.ev(a)
                    self.buf_epoch += 1
                    return ("opaque", ast.unparse(n))
                raise Unsupported("%s:%d: buffer method %s" % (self.fname, n.lineno, m))
            if rt == "self" and m in self.pure_methods and not args:
                return ("opaque", ast.unparse(n))
            if m in ("append", "log_event", "debug", "encode_padding_frame"):
                for a in args:
                    v = self.ev(a) if not isinstance(a, ast.Dict) else None
                return ("opaque", ast.unparse(n))
            raise Unsupported("%s:%d: call %s" % (self.fname, n.lineno, ast.unparse(n)))
        raise Unsupported("%s:%d: call %s" % (self.fname, n.lineno, ast.unparse(n)))

    # -- statements --------------------------------------------------------------------------
    def assign(self, tgt, val):
        if isinstance(tgt, ast.Name):
            self.env[tgt.id] = self.bind(tgt.id, val)
        elif isinstance(tgt, ast.Attribute):
            t = ast.unparse(tgt)
            if t in self.attr_sorts and val[0] != self.attr_sorts[t][0]:
                raise Unsupported("store of a %s into %s" % (val[0], t))
            self.attrs[t] = self.bind(t, val)
        elif isinstance(tgt, ast.Tuple):
            if val[0] != "tuple" or len(val[1]) != len(tgt.elts):
                raise Unsupported("tuple assignment")
            for t, v in zip(tgt.elts, val[1]):
                self.assign(t, v)
        else:
            raise Unsupported("assignment target %s" % ast.unparse(tgt))

    def block(self, stmts):
        for s in stmts:
            if self.done:
                return
            self.stmt(s)

    def stmt(self, s):
        if isinstance(s, ast.Expr):
            if isinstance(s.value, ast.Constant):
                return
            self.ev(s.value)
        elif isinstance(s, ast.Assign):
            if len(s.targets) != 1:
                raise Unsupported("multiple targets")
            self.assign(s.targets[0], self.ev(s.value))
        elif isinstance(s, ast.AnnAssign):
            if s.value is not None:
                self.assign(s.target, self.ev(s.value))
        elif isinstance(s, ast.AugAssign):
            cur = self.ev(s.target)
            v = self.ev(s.value)
            if cur[0] == "int" and v[0] == "int" and isinstance(s.op, (ast.Add, ast.Sub)):
                self.assign(s.target, ("int", "(%s %s %s)" % (cur[1], "+" if isinstance(s.op, ast.Add) else "-", v[1])))
            elif cur[0] in ("int", "bytes") or v[0] in ("int", "bytes"):
                raise Unsupported("%s:%d: augmented assignment %s" % (self.fname, s.lineno, ast.unparse(s)))
            else:
                self.assign(s.target, ("opaque", ast.unparse(s)))
        elif isinstance(s, ast.Assert):
            self.pc.append(self.as_bool(self.ev(s.test), s.test))
        elif isinstance(s, ast.Return):
            if s.value is not None:
                self.ev(s.value)
            self.done = True
        elif isinstance(s, ast.Raise):
            self.done = True
        elif isinstance(s, ast.If):
            self.if_(s)
        elif isinstance(s, ast.Pass):
            pass
        else:
            raise Unsupported("%s:%d: statement %s" % (self.fname, s.lineno, type(s).__name__))
        if self.stop_after and any(x["kind"] == self.stop_after for x in self.sites):
            self.done = True

    def if_(self, s):
        c = self.as_bool(self.ev(s.test), s.test)
        env0, attrs0, pc0, ep0 = dict(self.env), dict(self.attrs), list(self.pc), self.buf_epoch
        self.pc = pc0 + [c]
        self.block(s.body)
        d1, env1, attrs1, ep1 = self.done, self.env, self.attrs, self.buf_epoch
        stopped = self.stop_after and any(x["kind"] == self.stop_after for x in self.sites)
        if stopped:
            return
        self.done, self.env, self.attrs, self.pc, self.buf_epoch = False, dict(env0), dict(attrs0), pc0 + ["(negb %s)" % c], ep0
        self.block(s.orelse)
        d2, env2, attrs2, ep2 = self.done, self.env, self.attrs, self.buf_epoch
        if self.stop_after and any(x["kind"] == self.stop_after for x in self.sites):
            return
        if d1 and d2:
            self.done = True
            return
        if d1:
            self.done = False
            return                          # continue in the else state, pc already extended
        if d2:
            self.done, self.env, self.attrs, self.pc, self.buf_epoch = False, env1, attrs1, pc0 + [c], ep1
            return
        self.done, self.pc, self.buf_epoch = False, pc0, max(ep1, ep2) + (1 if ep1 != ep2 else 0)
        self.env = self.join(c, env1, env2, "")
        self.attrs = self.join(c, attrs1, attrs2, "")

    def join(self, c, e1, e2, _):
        out = {}
        for k in list(e1.keys()) + [k for k in e2 if k not in e1]:
            a, b = e1.get(k), e2.get(k)
            if a == b:
                out[k] = a
            elif a is None or b is None:
                # bound in one branch only: read the unbound side as the attribute's named quantity when it is one
                if k in self.attr_sorts:
                    sort, nm, doc = self.attr_sorts[k]
                    q = (sort, self.named(nm, sort, doc))
                    a2, b2 = a or q, b or q
                    out[k] = self.bind(k, (sort, "(if %s then %s else %s)" % (c, a2[1], b2[1])))
                else:
                    out[k] = ("opaque", k)
            elif a[0] == b[0] and a[0] in ("int", "bool", "bytes"):
                out[k] = self.bind(k, (a[0], "(if %s then %s else %s)" % (c, a[1], b[1])))
            else:
                out[k] = ("opaque", k)
        return out

    # -- output ------------------------------------------------------------------------------
    def used(self, exprs, nlets):
        """named quantities (in introduction order) that the given expressions depend on, through the first nlets lets"""
        need = set()
        todo = list(exprs)
        letmap = {n: e for (n, s, e) in self.lets[:nlets]}
        seen = set()
        while todo:
            e = todo.pop()
            for w in re.findall(r"[A-Za-z_][A-Za-z0-9_]*", e):
                if w in seen:
                    continue
                seen.add(w)
                if w in letmap:
                    todo.append(letmap[w])
                else:
                    need.add(w)
        return [q for q in self.quant if q[0] in need], [l for l in self.lets[:nlets] if l[0] in seen]

    def definition(self, name, sort, exprs_body, exprs, nlets, comment):
        qs, ls = self.used(exprs, nlets)
        params = " ".join("(%s : %s)" % (q[0], "Z" if q[1] == "int" else "bool") for q in qs)
        body = "".join("  let %s := %s in\n" % (n, e) for (n, s, e) in ls)
        txt = "(* %s *)\n" % comment.replace("*)", "* )")
        for q in qs:
            txt += "(*   %s : %s *)\n" % (q[0], q[2].replace("*)", "* )"))
        txt += "Definition %s %s : %s :=\n%s  %s.\n" % (name, params, sort, body, exprs_body)
        return txt, [q[0] for q in qs]


def conj(pcs):
    if not pcs:
        return "true"
    r = pcs[0]
    for p in pcs[1:]:
        r = "(andb %s %s)" % (r, p)
    return r


# ------------------------------------------------------------------------------------------------
def check_only_sites(trees):
    """AEAD / HeaderProtection are constructed only in CryptoContext.setup and their methods are called only in
    CryptoContext.encrypt_packet / decrypt_packet."""
    for rel, tree in trees.items():
        for node in ast.walk(tree):
            if isinstance(node, ast.ImportFrom) and node.module and node.module.endswith("_crypto"):
                if rel != os.path.join("quic", "crypto.py"):
                    names = [a.name for a in node.names]
                    if "AEAD" in names or "HeaderProtection" in names:
                        raise Unsupported("%s imports the native crypto types" % rel)
            if isinstance(node, ast.Import):
                for a in node.names:
                    if a.name.endswith("_crypto"):
                        raise Unsupported("%s imports the _crypto module as a whole" % rel)
    tree = trees[os.path.join("quic", "crypto.py")]
    imp = [n for n in tree.body if isinstance(n, ast.ImportFrom) and n.module == "_crypto" and n.level == 2]
    if len(imp) != 1 or not {"AEAD", "HeaderProtection"} <= {a.name for a in imp[0].names} or any(a.asname for a in imp[0].names):
        raise Unsupported("crypto.py: `from .._crypto import AEAD, ..., HeaderProtection` not found in that form")
    uses = {"AEAD": [], "HeaderProtection": []}
    owner = {}
    for cls in [n for n in tree.body if isinstance(n, ast.ClassDef)]:
        for fn in [n for n in cls.body if isinstance(n, ast.FunctionDef)]:
            for node in ast.walk(fn):
                owner[id(node)] = "%s.%s" % (cls.name, fn.name)
    for node in ast.walk(tree):
        if isinstance(node, ast.Name) and node.id in uses and isinstance(node.ctx, ast.Load):
            uses[node.id].append(node)
    setup = _func(_class(tree, "CryptoContext"), "setup")
    found = {}
    for s in ast.walk(setup):
        if isinstance(s, ast.Assign) and len(s.targets) == 1 and ast.unparse(s.targets[0]) in ("self.aead", "self.hp") \
                and isinstance(s.value, ast.Call) and isinstance(s.value.func, ast.Name):
            found[ast.unparse(s.targets[0])] = s.value.func.id
    if found != {"self.aead": "AEAD", "self.hp": "HeaderProtection"}:
        raise Unsupported("CryptoContext.setup does not bind self.aead = AEAD(..) and self.hp = HeaderProtection(..): %r" % found)
    # every other load of the two names must be a type annotation (Optional[AEAD]) -- i.e. inside a Subscript of an AnnAssign
    ann = set()
    for node in ast.walk(tree):
        if isinstance(node, ast.AnnAssign):
            for x in ast.walk(node.annotation):
                ann.add(id(x))
    ctor = set()
    for s in ast.walk(setup):
        if isinstance(s, ast.Call) and isinstance(s.func, ast.Name) and s.func.id in uses:
            ctor.add(id(s.func))
    for k, lst in uses.items():
        for node in lst:
            if id(node) not in ann and id(node) not in ctor:
                raise Unsupported("crypto.py:%d: %s used outside CryptoContext.setup" % (node.lineno, k))
    # .aead / .hp: stores only of None or the constructor result; method calls only the four recorded ones
    allowed_fn = {"CryptoContext.encrypt_packet", "CryptoContext.decrypt_packet"}
    for rel, t in trees.items():
        for node in ast.walk(t):
            if isinstance(node, ast.Attribute) and node.attr in ("aead", "hp"):
                pass
            if isinstance(node, ast.Call) and isinstance(node.func, ast.Attribute) and isinstance(node.func.value, ast.Attribute) \
                    and node.func.value.attr in ("aead", "hp"):
                if rel != os.path.join("quic", "crypto.py") or owner.get(id(node)) not in allowed_fn:
                    raise Unsupported("%s:%d: method call on a native crypto object outside the two known functions" % (rel, node.lineno))
                if (node.func.value.attr, node.func.attr) not in NATIVE:
                    raise Unsupported("%s:%d: unknown native method %s" % (rel, node.lineno, node.func.attr))
            # the objects must not escape: `x = <..>.aead` / passing `.hp` as an argument
            if isinstance(node, ast.Attribute) and node.attr in ("aead", "hp") and isinstance(node.ctx, ast.Load):
                pass
    # escapes: any Load of .aead/.hp whose parent is not (a) the receiver of one of the four calls, (b) `is None`/`is not None` test
    for rel, t in trees.items():
        parents = {}
        for p in ast.walk(t):
            for ch in ast.iter_child_nodes(p):
                parents[id(ch)] = p
        for node in ast.walk(t):
            if isinstance(node, ast.Attribute) and node.attr in ("aead", "hp") and isinstance(node.ctx, ast.Load):
                p = parents.get(id(node))
                ok = False
                if isinstance(p, ast.Attribute) and (node.attr, p.attr) in NATIVE and isinstance(parents.get(id(p)), ast.Call):
                    ok = True
                if isinstance(p, ast.Compare) and len(p.ops) == 1 and isinstance(p.ops[0], (ast.Is, ast.IsNot)) \
                        and isinstance(p.comparators[0], ast.Constant) and p.comparators[0].value is None:
                    ok = True
                # copied into the same field of another CryptoContext (apply_key_phase): still only reachable as .aead / .hp
                if isinstance(p, ast.Assign) and len(p.targets) == 1 and isinstance(p.targets[0], ast.Attribute) \
                        and p.targets[0].attr == node.attr and p.value is node:
                    ok = True
                if not ok:
                    raise Unsupported("%s:%d: native crypto object escapes: %s" % (rel, node.lineno, ast.unparse(p) if p else "?"))
    # callers of encrypt_packet / decrypt_packet in the whole package
    callers = {"encrypt_packet": [], "decrypt_packet": []}
    for rel, t in trees.items():
        for node in ast.walk(t):
            if isinstance(node, ast.Call) and isinstance(node.func, ast.Attribute) and node.func.attr in callers:
                callers[node.func.attr].append((rel, node.lineno, ast.unparse(node.func)))
    return callers


def forwards(cls, name, field, params):
    """CryptoPair.<name>(self, *params) forwards its parameters unchanged to self.<field>.<name>(*params)."""
    fn = _func(cls, name)
    if [a.arg for a in fn.args.args] != ["self"] + params:
        raise Unsupported("CryptoPair.%s parameters changed: %r" % (name, [a.arg for a in fn.args.args]))
    hits = [n for n in ast.walk(fn) if isinstance(n, ast.Call) and isinstance(n.func, ast.Attribute) and n.func.attr == name]
    if len(hits) != 1 or ast.unparse(hits[0].func.value) != "self." + field or hits[0].keywords \
            or [ast.unparse(a) for a in hits[0].args] != params:
        raise Unsupported("CryptoPair.%s does not forward (%s) to self.%s.%s" % (name, ", ".join(params), field, name))
    # the parameters are not rebound before the call
    for n in ast.walk(fn):
        if isinstance(n, ast.Name) and isinstance(n.ctx, ast.Store) and n.id in params:
            raise Unsupported("CryptoPair.%s rebinds %s" % (name, n.id))
    return hits[0].lineno


def packet_end_forms(fn, consts):
    """pull_quic_header: packet_length = packet_end - packet_start with packet_start = buf.tell() at entry; every
    assignment of packet_end has one of three forms; the `+ rest_length` form is followed by the capacity guard."""
    first = fn.body[0]
    if not (isinstance(first, ast.Assign) and ast.unparse(first) == "packet_start = buf.tell()"):
        raise Unsupported("pull_quic_header: first statement is not `packet_start = buf.tell()`")
    forms = []

    def walk(stmts):
        for i, s in enumerate(stmts):
            if isinstance(s, ast.Assign) and ast.unparse(s.targets[0]) == "packet_end":
                t = ast.unparse(s.value)
                if t == "buf.tell()":
                    forms.append("tell")
                elif t == "buf.capacity":
                    forms.append("capacity")
                elif t == "buf.tell() + rest_length":
                    nxt = stmts[i + 1] if i + 1 < len(stmts) else None
                    if not (isinstance(nxt, ast.If) and ast.unparse(nxt.test) == "packet_end > buf.capacity"
                            and len(nxt.body) == 1 and isinstance(nxt.body[0], ast.Raise) and not nxt.orelse):
                        raise Unsupported("pull_quic_header: `packet_end = buf.tell() + rest_length` is not followed by the capacity guard")
                    forms.append("rest")
                else:
                    raise Unsupported("pull_quic_header: packet_end = %s" % t)
                # no buffer operation after packet_end was computed (tell at exit = tell used here)
                for later in stmts[i + 1:]:
                    for x in ast.walk(later):
                        if isinstance(x, ast.Call) and isinstance(x.func, ast.Attribute) and ast.unparse(x.func.value) == "buf" \
                                and x.func.attr in BUF_MUTATORS:
                            raise Unsupported("pull_quic_header: buffer operation after packet_end")
            for fld in ("body", "orelse"):
                sub = getattr(s, fld, None)
                if isinstance(sub, list) and sub and isinstance(sub[0], ast.stmt):
                    walk(sub)
    walk(fn.body)
    if sorted(forms) != ["capacity", "rest", "tell"]:
        raise Unsupported("pull_quic_header: packet_end forms %r" % forms)
    # rest_length comes from pull_uint_var (>= 0, C model) or is the literal 0
    for x in ast.walk(fn):
        if isinstance(x, ast.Assign) and ast.unparse(x.targets[0]) == "rest_length" and ast.unparse(x.value) not in ("buf.pull_uint_var()", "0"):
            raise Unsupported("pull_quic_header: rest_length = %s" % ast.unparse(x.value))
    rets = [x for x in ast.walk(fn) if isinstance(x, ast.Return)]
    if len(rets) != 1:
        raise Unsupported("pull_quic_header: more than one return")
    kw = {k.arg: ast.unparse(k.value) for k in rets[0].value.keywords} if isinstance(rets[0].value, ast.Call) else {}
    if kw.get("packet_length") != "packet_end - packet_start":
        raise Unsupported("pull_quic_header: packet_length is not packet_end - packet_start")
    return forms


def first_byte_pnl(fn, consts):
    """_end_packet writes a first byte whose two low bits are PACKET_NUMBER_SEND_SIZE - 1 (both header forms)."""
    seen = 0
    for x in ast.walk(fn):
        if isinstance(x, ast.Call) and isinstance(x.func, ast.Attribute) and x.func.attr == "push_uint8" and len(x.args) == 1:
            a = x.args[0]
            if isinstance(a, ast.Call) and isinstance(a.func, ast.Name) and a.func.id == "encode_long_header_first_byte":
                if len(a.args) != 3 or ast.unparse(a.args[2]) != "PACKET_NUMBER_SEND_SIZE - 1":
                    raise Unsupported("_end_packet: long header first byte bits")
                seen += 1
            elif isinstance(a, ast.BinOp) and isinstance(a.op, ast.BitOr):
                parts = []
                while isinstance(a, ast.BinOp) and isinstance(a.op, ast.BitOr):
                    parts.append(a.right)
                    a = a.left
                parts.append(a)
                texts = [ast.unparse(p) for p in parts]
                if "PACKET_NUMBER_SEND_SIZE - 1" not in texts:
                    raise Unsupported("_end_packet: short header first byte bits")
                for t in texts:
                    if t == "PACKET_NUMBER_SEND_SIZE - 1":
                        continue
                    if t in consts and consts[t] % 4 == 0:
                        continue
                    m = re.fullmatch(r"[A-Za-z_.]+ << (\d+)", t)
                    if m and int(m.group(1)) >= 2:
                        continue
                    raise Unsupported("_end_packet: first byte operand %s may set the low bits" % t)
                seen += 1
    if seen != 2:
        raise Unsupported("_end_packet: expected two first-byte writes, found %d" % seen)
    v = consts["PACKET_NUMBER_SEND_SIZE"] - 1
    if not 0 <= v <= 3:
        raise Unsupported("PACKET_NUMBER_SEND_SIZE out of range")
    return v


def build():
    rels = []
    for root, _, files in os.walk(SRC):
        for fn in files:
            if fn.endswith(".py"):
                rels.append(os.path.relpath(os.path.join(root, fn), SRC))
    trees = {r: ast.parse(open(os.path.join(SRC, r)).read()) for r in sorted(rels)}
    callers = check_only_sites(trees)
    out = []
    out.append("(* GENERATED by tools/gen/c04_callers.py from src/aioquic/quic/{crypto,packet_builder,connection,packet}.py -- do not edit *)")
    out.append("From Coq Require Import ZArith List Bool.")
    out.append("From AQ Require Import model.CCallBase.")
    out.append("Import ListNotations.")
    out.append("Local Open Scope Z_scope.\n")

    # ---- crypto.py -------------------------------------------------------------------------
    ctree = trees[os.path.join("quic", "crypto.py")]
    cc = _class(ctree, "CryptoContext")
    consts = _module_ints(ctree)
    fn = _func(cc, "encrypt_packet")
    if [a.arg for a in fn.args.args] != ["self", "plain_header", "plain_payload", "packet_number"]:
        raise Unsupported("CryptoContext.encrypt_packet parameters")
    pure = {f.name for f in cc.body if isinstance(f, ast.FunctionDef) and len(f.args.args) == 1
            and not any(isinstance(x, ast.Call) for x in ast.walk(f))}
    s = Sym("crypto.py", consts, {}, [("plain_header", "bytes", "parameter"), ("plain_payload", "bytes", "parameter"), ("packet_number", "opaque", "")])
    s.pure_methods = pure
    s.block(fn.body)
    kinds = [x["kind"] for x in s.sites]
    if kinds != ["NAeadEncrypt", "NHpApply"]:
        raise Unsupported("CryptoContext.encrypt_packet: native calls %r" % kinds)
    calls = "[" + "; ".join("%s %s %s" % (x["kind"], x["args"][0], x["args"][1]) for x in s.sites) + "]"
    txt, p_enc = s.definition("encrypt_packet_calls", "list ncall", calls, [a for x in s.sites for a in x["args"]], len(s.lets),
                              "crypto.py:%d,%d CryptoContext.encrypt_packet: %s ; %s" % (s.sites[0]["line"], s.sites[1]["line"], s.sites[0]["text"], s.sites[1]["text"]))
    if p_enc != ["plain_header_len", "plain_payload_len", "ret_encrypt_len"]:
        raise Unsupported("encrypt_packet_calls parameters %r" % p_enc)
    out.append(txt)

    fn = _func(cc, "decrypt_packet")
    if [a.arg for a in fn.args.args] != ["self", "packet", "encrypted_offset", "expected_packet_number"]:
        raise Unsupported("CryptoContext.decrypt_packet parameters")
    s = Sym("crypto.py", consts, {}, [("packet", "bytes", "parameter"), ("encrypted_offset", "int", "parameter"), ("expected_packet_number", "opaque", "")])
    s.block(fn.body)
    kinds = [x["kind"] for x in s.sites]
    if kinds != ["NHpRemove", "NAeadDecrypt"]:
        raise Unsupported("CryptoContext.decrypt_packet: native calls %r" % kinds)
    calls = "[" + "; ".join("%s %s %s" % (x["kind"], x["args"][0], x["args"][1]) for x in s.sites) + "]"
    txt, p_dec = s.definition("decrypt_packet_calls", "list ncall", calls, [a for x in s.sites for a in x["args"]], len(s.lets),
                              "crypto.py:%d,%d CryptoContext.decrypt_packet: %s ; %s" % (s.sites[0]["line"], s.sites[1]["line"], s.sites[0]["text"], s.sites[1]["text"]))
    if p_dec != ["packet_len", "encrypted_offset", "ret_remove_hdr_len"]:
        raise Unsupported("decrypt_packet_calls parameters %r" % p_dec)
    out.append(txt)

    cp = _class(ctree, "CryptoPair")
    l1 = forwards(cp, "encrypt_packet", "send", ["plain_header", "plain_payload", "packet_number"])
    l2 = forwards(cp, "decrypt_packet", "recv", ["packet", "encrypted_offset", "expected_packet_number"])
    out.append("(* crypto.py:%d,%d CryptoPair.encrypt_packet / decrypt_packet forward their parameters unchanged to self.send / self.recv (checked syntactically) *)\n" % (l1, l2))

    # who calls encrypt_packet / decrypt_packet at all
    exp_enc = {(os.path.join("quic", "crypto.py"), "self.send.encrypt_packet"), (os.path.join("quic", "packet_builder.py"), "self._packet_crypto.encrypt_packet")}
    exp_dec = {(os.path.join("quic", "crypto.py"), "self.recv.decrypt_packet"), (os.path.join("quic", "connection.py"), "crypto.decrypt_packet")}
    if {(r, t) for (r, _, t) in callers["encrypt_packet"]} != exp_enc:
        raise Unsupported("callers of encrypt_packet changed: %r" % callers["encrypt_packet"])
    if {(r, t) for (r, _, t) in callers["decrypt_packet"]} != exp_dec:
        raise Unsupported("callers of decrypt_packet changed: %r" % callers["decrypt_packet"])
    for k in callers:
        if len(callers[k]) != 2:
            raise Unsupported("more than one call site of %s in a module: %r" % (k, callers[k]))

    # ---- packet_builder.py -------------------------------------------------------------------
    btree = trees[os.path.join("quic", "packet_builder.py")]
    bconsts = _module_ints(btree)
    bconsts.update({k: v for k, v in _module_ints(trees[os.path.join("quic", "packet.py")]).items() if k not in bconsts})
    bc = _class(btree, "QuicPacketBuilder")
    fn = _func(bc, "_end_packet")
    attr = {
        "self._packet_start": ("int", "packet_start", "self._packet_start"),
        "self._header_size": ("int", "header_size", "self._header_size"),
        "self.remaining_flight_space": ("int", "remaining_flight_space", "self.remaining_flight_space (property)"),
        "self._datagram_needs_padding": ("bool", "datagram_needs_padding", "self._datagram_needs_padding at entry"),
        "self._is_client": ("bool", "is_client", "self._is_client"),
        "self._packet.is_ack_eliciting": ("bool", "is_ack_eliciting", "self._packet.is_ack_eliciting"),
    }
    s = Sym("packet_builder.py", bconsts, attr, [])
    if not (isinstance(fn.body[1], ast.Assign) and ast.unparse(fn.body[1]) == "buf = self._buffer"):
        raise Unsupported("_end_packet: `buf = self._buffer` expected as first statement")
    s.stop_after = "encrypt_packet"
    s.block(fn.body)
    sites = [x for x in s.sites if x["kind"] == "encrypt_packet"]
    if len(sites) != 1 or any(x["kind"] in NATIVE.values() for x in s.sites):
        raise Unsupported("_end_packet: expected exactly one encrypt_packet call")
    st = sites[0]
    h, p = st["vals"][0], st["vals"][1]
    if h[0] != "bytes" or p[0] != "bytes":
        raise Unsupported("_end_packet: encrypt_packet arguments are not tracked bytes: %r" % (st["argtext"],))
    txt, p_end = s.definition("end_packet_site", "bool * Z * Z", "(%s, %s, %s)" % (conj(st["pc"]), h[1], p[1]), st["pc"] + [h[1], p[1]], st["nlets"],
                              "packet_builder.py:%d QuicPacketBuilder._end_packet: (path condition of the call, len(plain_header), len(plain_payload)) of %s"
                              % (st["line"], st["text"]))
    out.append(txt)
    # the packet size after padding, for the connection with the C13 builder model
    ps = s.env.get("packet_size")
    if ps is None or ps[0] != "int":
        raise Unsupported("_end_packet: packet_size is not a tracked int at the call")
    txt2, p_end2 = s.definition("end_packet_size", "Z", ps[1], st["pc"] + [h[1], p[1], ps[1]], st["nlets"],
                                "packet_builder.py QuicPacketBuilder._end_packet: packet_size (plain bytes, header included) when encrypt_packet is called")
    out.append(txt2)
    pnl = first_byte_pnl(fn, bconsts)
    out.append("(* packet_builder.py _end_packet: both first-byte writes carry PACKET_NUMBER_SEND_SIZE - 1 in their two low bits (checked syntactically) *)")
    out.append("Definition end_packet_pnl0 : Z := %d.\n" % pnl)
    rb = _func(bc, "remaining_flight_space")
    if ast.unparse(rb.body[-1]) != "return self._flight_capacity - self._buffer.tell() - self._packet_crypto.aead_tag_size":
        raise Unsupported("remaining_flight_space changed")

    # ---- connection.py -----------------------------------------------------------------------
    ntree = trees[os.path.join("quic", "connection.py")]
    fn = _func(_class(ntree, "QuicConnection"), "receive_datagram")
    if "data" not in [a.arg for a in fn.args.args]:
        raise Unsupported("receive_datagram has no `data` parameter")
    loops = [x for x in fn.body if isinstance(x, ast.While)]
    if len(loops) != 1 or ast.unparse(loops[0].test) != "not buf.eof()":
        raise Unsupported("receive_datagram: `while not buf.eof()` loop not found")
    pre = [x for x in fn.body if isinstance(x, ast.Assign) and ast.unparse(x.targets[0]) == "buf"]
    if len(pre) != 1 or ast.unparse(pre[0].value) != "Buffer(data=data)":
        raise Unsupported("receive_datagram: buf = Buffer(data=data) not found")
    for x in ast.walk(fn):
        if isinstance(x, ast.Name) and x.id == "data" and isinstance(x.ctx, ast.Store):
            raise Unsupported("receive_datagram rebinds data")
        if isinstance(x, ast.Assign) and any(isinstance(t, ast.Name) and t.id == "data" for t in x.targets):
            raise Unsupported("receive_datagram rebinds data")
    body = loops[0].body
    # use-def: the unique assignments (top level of the loop body) of the names used in the call
    calls = [x for x in ast.walk(loops[0]) if isinstance(x, ast.Call) and isinstance(x.func, ast.Attribute) and x.func.attr == "decrypt_packet"]
    if len(calls) != 1 or len(calls[0].args) != 3:
        raise Unsupported("receive_datagram: decrypt_packet call")
    call = calls[0]
    s = Sym("connection.py", {}, {"header.packet_length": ("int", "packet_length", "header.packet_length (pull_quic_header)")},
            [("data", "bytes", "the datagram")])
    order = []
    for i, st_ in enumerate(body):
        names = []
        if isinstance(st_, ast.Assign) and len(st_.targets) == 1 and isinstance(st_.targets[0], ast.Name):
            names = [st_.targets[0].id]
        order.append((i, st_, names))
    assigned = {}
    for x in ast.walk(loops[0]):
        if isinstance(x, ast.Name) and isinstance(x.ctx, ast.Store):
            assigned[x.id] = assigned.get(x.id, 0) + 1
    want = ["start_off", "encrypted_off", "end_off"]
    for w in want:
        if assigned.get(w) != 1:
            raise Unsupported("receive_datagram: %s is not assigned exactly once in the loop" % w)
    idx_call = None
    for i, st_, _ in order:
        if any(x is call for x in ast.walk(st_)):
            idx_call = i
    seen_pull = False
    for i, st_, names in order:
        if i >= idx_call:
            break
        if names and names[0] in want:
            s.stmt(st_)
        else:
            # any other statement: if it touches buf, the cursor moves
            for x in ast.walk(st_):
                if isinstance(x, ast.Name) and x.id == "buf":
                    s.buf_epoch += 1
                    if "pull_quic_header" in ast.unparse(st_):
                        seen_pull = True
                    break
    if not seen_pull:
        raise Unsupported("receive_datagram: pull_quic_header(buf, ..) between start_off and encrypted_off not found")
    a0, a1 = s.ev(call.args[0]), s.ev(call.args[1])
    if a0[0] != "bytes" or a1[0] != "int":
        raise Unsupported("receive_datagram: decrypt_packet arguments")
    txt, p_rx = s.definition("receive_datagram_site", "Z * Z", "(%s, %s)" % (a0[1], a1[1]), [a0[1], a1[1]], len(s.lets),
                             "connection.py:%d QuicConnection.receive_datagram: (len(packet), encrypted_offset) of %s" % (call.lineno, ast.unparse(call)))
    if p_rx != ["data_len", "tell_0", "tell_1", "packet_length"]:
        raise Unsupported("receive_datagram_site parameters %r" % p_rx)
    out.append(txt)

    # ---- packet.py pull_quic_header -------------------------------------------------------------
    ptree = trees[os.path.join("quic", "packet.py")]
    packet_end_forms(_func(ptree, "pull_quic_header"), {})
    out.append("(* packet.py pull_quic_header: packet_length = packet_end - packet_start, packet_start = buf.tell() at entry; packet_end is\n"
               "   buf.tell() (version negotiation) | buf.tell() + rest_length, rejected with ValueError when > buf.capacity | buf.capacity;\n"
               "   no buffer operation follows, so buf.tell() there is the cursor at exit *)")
    out.append("Definition pull_header_post (start tell_exit rest_length capacity packet_length : Z) : Prop :=\n"
               "  packet_length = tell_exit - start \\/\n"
               "  (packet_length = tell_exit + rest_length - start /\\ (tell_exit + rest_length >? capacity) = false) \\/\n"
               "  packet_length = capacity - start.\n")
    return "\n".join(out), {"end_packet_params": p_end, "end_packet_size_params": p_end2}


def write_if_changed(path, text):
    try:
        if open(path).read() == text:
            return
    except OSError:
        pass
    with open(path, "w") as f:
        f.write(text)


def generate():
    text, _ = build()
    write_if_changed(OUT_V, text)


if __name__ == "__main__":
    t, info = build()
    print(t)
    print(info)
