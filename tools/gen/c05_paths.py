"""C05 translator for the network-path table of src/aioquic/quic/connection.py, read from the CURRENT tree
($VERIF_REPO) with `ast` (nothing imported or executed), written to coq/gen/C05Paths.v:

  * MAX_NETWORK_PATHS, MAX_REMOTE_CHALLENGES, MAX_LOCAL_CHALLENGES;
  * EVICT_INDEX    -- the K of `self._network_paths.pop(K)` under `if len(self._network_paths) > MAX_NETWORK_PATHS:`
    PROMOTE_INDEX  -- the K of `self._network_paths.insert(K, network_path)` of the promotion
    (coq/model/ConnPaths.v computes with these values; `network_path_update_total` is proved from
    1 <= EVICT_INDEX < MAX_NETWORK_PATHS and PROMOTE_INDEX = 0, checked on the generated numbers: another eviction index
    that is still safe passes, `pop(0)` / `pop(-1)` / `pop(MAX_NETWORK_PATHS)` stop the proof);
  * `paths_sites`: source-ordered listings (statement by statement, `if` / `for` / `else` flattened, logger calls dropped,
    the two constants above abstracted) of
      - the "update network path" block of receive_datagram,
      - `_find_network_path`, `QuicNetworkPath.__init__`,
      - EVERY statement of the module that assigns or mutates `self._network_paths` (with its function),
      - EVERY statement that writes `is_validated`, `local_challenge_sent` or mutates `remote_challenges`.
    coq/model/ConnPaths.v states the listings it was written against (`paths_sites_expected`);
    `proofs/ConnPathsP.paths_sites_known` compares: an eviction moved into a helper, another eviction rule, a new place that
    touches the table or a validation flag stops the build until the model follows.
Fails closed: anything unexpected raises (the output file is then deleted by the harness)."""
import ast
import os
import re

ROOT = os.path.dirname(os.path.dirname(os.path.dirname(os.path.abspath(__file__))))
REPO = os.environ.get("VERIF_REPO", "/repo")
OUTPUTS = ["gen/C05Paths.v"]

MUTATORS = {"append", "pop", "insert", "remove", "clear", "extend", "sort", "reverse", "popleft", "appendleft"}


def _tree():
    path = os.path.join(REPO, "src", "aioquic", "quic", "connection.py")
    return ast.parse(open(path).read(), path)


def _is_logger_call(st):
    if not isinstance(st, ast.Expr) or not isinstance(st.value, ast.Call):
        return False
    f = st.value.func
    while isinstance(f, ast.Attribute):
        if isinstance(f.value, ast.Attribute) and f.value.attr in ("_logger", "_quic_logger"):
            return True
        f = f.value
    return False


def _flat(stmts, out):
    for st in stmts:
        if _is_logger_call(st):
            continue
        if isinstance(st, ast.If):
            out.append("if %s:" % ast.unparse(st.test))
            _flat(st.body, out)
            if st.orelse:
                out.append("else:")
                _flat(st.orelse, out)
            out.append("end")
        elif isinstance(st, (ast.For, ast.While)):
            if isinstance(st, ast.For):
                out.append("for %s in %s:" % (ast.unparse(st.target), ast.unparse(st.iter)))
            else:
                out.append("while %s:" % ast.unparse(st.test))
            _flat(st.body, out)
            if st.orelse:
                out.append("else:")
                _flat(st.orelse, out)
            out.append("end")
        elif isinstance(st, ast.Try):
            out.append("try:")
            _flat(st.body, out)
            for h in st.handlers:
                out.append("except %s:" % (ast.unparse(h.type) if h.type is not None else ""))
                _flat(h.body, out)
            if st.orelse:
                out.append("else:")
                _flat(st.orelse, out)
            if st.finalbody:
                out.append("finally:")
                _flat(st.finalbody, out)
            out.append("end")
        elif isinstance(st, ast.Expr) and isinstance(st.value, ast.Constant) and isinstance(st.value.value, str):
            continue          # docstring
        else:
            out.append(ast.unparse(st))
    return out


def _functions(tree):
    """(qualified name, FunctionDef) of every function of the module"""
    out = []
    for n in tree.body:
        if isinstance(n, ast.FunctionDef):
            out.append((n.name, n))
        elif isinstance(n, ast.ClassDef):
            for m in n.body:
                if isinstance(m, ast.FunctionDef):
                    out.append(("%s.%s" % (n.name, m.name), m))
    return out


def _const(tree, name):
    for n in tree.body:
        if isinstance(n, ast.Assign) and len(n.targets) == 1 and isinstance(n.targets[0], ast.Name) and n.targets[0].id == name:
            if isinstance(n.value, ast.Constant) and isinstance(n.value.value, int):
                return n.value.value
    raise ValueError("c05_paths: constant %s not found" % name)


def _is_paths(node):
    return isinstance(node, ast.Attribute) and node.attr == "_network_paths"


def _update_block(fn):
    """the statements of receive_datagram's packet loop from `if not network_path.is_validated and epoch == ...HANDSHAKE`
    up to and including the promotion `if idx and ...`"""
    loops = [n for n in fn.body if isinstance(n, ast.While)]
    if len(loops) != 1:
        raise ValueError("c05_paths: receive_datagram: expected one packet loop, found %d" % len(loops))
    body = loops[0].body
    start = end = None
    for i, st in enumerate(body):
        if isinstance(st, ast.If):
            t = ast.unparse(st.test)
            if start is None and "network_path.is_validated" in t and "HANDSHAKE" in t:
                start = i
            if start is not None and t.startswith("idx and"):
                end = i
    if start is None or end is None or end < start:
        raise ValueError("c05_paths: receive_datagram: 'update network path' block not found")
    return body[start:end + 1]


def _touches(st):
    """does this simple statement assign / mutate the table, or write a validation flag?"""
    kinds = []
    targets = []
    if isinstance(st, ast.Assign):
        targets = st.targets
    elif isinstance(st, (ast.AugAssign, ast.AnnAssign)):
        targets = [st.target]
    elif isinstance(st, ast.Delete):
        targets = st.targets
    for t in targets:
        base = t.value if isinstance(t, ast.Subscript) else t
        if _is_paths(base):
            kinds.append("table")
        if isinstance(t, ast.Attribute) and t.attr in ("is_validated", "local_challenge_sent", "remote_challenges"):
            kinds.append("flag")
    for c in ast.walk(st):
        if isinstance(c, ast.Call) and isinstance(c.func, ast.Attribute) and c.func.attr in MUTATORS:
            if _is_paths(c.func.value):
                kinds.append("table")
            if isinstance(c.func.value, ast.Attribute) and c.func.value.attr == "remote_challenges":
                kinds.append("flag")
    return kinds


def _simple_statements(fn):
    for n in ast.walk(fn):
        if isinstance(n, (ast.Assign, ast.AugAssign, ast.AnnAssign, ast.Delete, ast.Expr)):
            yield n


def read():
    tree = _tree()
    consts = {k: _const(tree, k) for k in ("MAX_NETWORK_PATHS", "MAX_REMOTE_CHALLENGES", "MAX_LOCAL_CHALLENGES")}
    funcs = dict(_functions(tree))
    for need in ("QuicConnection.receive_datagram", "QuicConnection._find_network_path", "QuicNetworkPath.__init__"):
        if need not in funcs:
            raise ValueError("c05_paths: %s not found" % need)
    block = _flat(_update_block(funcs["QuicConnection.receive_datagram"]), [])
    text = "\n".join(block)
    ev = re.findall(r"if len\(self\._network_paths\) > MAX_NETWORK_PATHS:\nself\._network_paths\.pop\((-?\d+)\)\nend", text)
    pr = re.findall(r"self\._network_paths\.insert\((-?\d+), network_path\)", text)
    if len(ev) != 1:
        raise ValueError("c05_paths: the bound `if len(self._network_paths) > MAX_NETWORK_PATHS: self._network_paths.pop(K)` "
                         "was not found in the 'update network path' block (found %d)" % len(ev))
    if len(pr) != 1:
        raise ValueError("c05_paths: the promotion `self._network_paths.insert(K, network_path)` was not found")
    evict, promote = int(ev[0]), int(pr[0])

    def norm(line):
        line = line.replace("self._network_paths.pop(%d)" % evict, "self._network_paths.pop(EVICT_INDEX)")
        line = line.replace("self._network_paths.insert(%d, network_path)" % promote,
                            "self._network_paths.insert(PROMOTE_INDEX, network_path)")
        return line

    table, flags = [], []
    for q, fn in _functions(tree):
        for st in sorted(_simple_statements(fn), key=lambda s: (s.lineno, s.col_offset)):
            ks = _touches(st)
            if "table" in ks:
                table.append("%s: %s" % (q, norm(ast.unparse(st))))
            if "flag" in ks:
                flags.append("%s: %s" % (q, norm(ast.unparse(st))))
    sites = [
        ("receive_datagram: update network path", [norm(x) for x in block]),
        ("_find_network_path", _flat(funcs["QuicConnection._find_network_path"].body, [])),
        ("QuicNetworkPath.__init__", _flat(funcs["QuicNetworkPath.__init__"].body, [])),
        ("statements that assign or mutate self._network_paths", table),
        ("statements that write is_validated / local_challenge_sent / remote_challenges", flags),
    ]
    return dict(consts=consts, evict=evict, promote=promote, sites=sites)


def _q(s):
    return '"%s"' % s.replace('"', '""')


def render(t):
    L = ["(* GENERATED by tools/gen/c05_paths.py from src/aioquic/quic/connection.py -- do not edit. *)",
         "From Coq Require Import ZArith List String.", "Import ListNotations.", "Open Scope Z_scope.", ""]
    for k, v in sorted(t["consts"].items()):
        L.append("Definition %s : Z := %d." % (k, v))
    L.append("(* self._network_paths.pop(EVICT_INDEX) under the bound; self._network_paths.insert(PROMOTE_INDEX, network_path) *)")
    L.append("Definition EVICT_INDEX : Z := %s." % ("%d" % t["evict"] if t["evict"] >= 0 else "(%d)" % t["evict"]))
    L.append("Definition PROMOTE_INDEX : Z := %s." % ("%d" % t["promote"] if t["promote"] >= 0 else "(%d)" % t["promote"]))
    L.append("")
    L.append("Open Scope string_scope.")
    L.append("Definition paths_sites : list (string * list string) := [")
    rows = ["  (%s, [\n    %s])" % (_q(q), ";\n    ".join(_q(s) for s in ss)) for q, ss in t["sites"]]
    L.append(";\n".join(rows))
    L.append("].")
    L.append("Close Scope string_scope.")
    L.append("")
    return "\n".join(L)


def generate():
    text = render(read())
    out = os.path.join(ROOT, "coq", "gen", "C05Paths.v")
    os.makedirs(os.path.dirname(out), exist_ok=True)
    try:
        if open(out).read() == text:
            return out
    except FileNotFoundError:
        pass
    tmp = out + ".tmp%d" % os.getpid()
    with open(tmp, "w") as f:
        f.write(text)
    os.replace(tmp, out)
    return out


if __name__ == "__main__":
    print(generate())
    print(open(os.path.join(ROOT, "coq", "gen", "C05Paths.v")).read())
