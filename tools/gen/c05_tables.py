"""C05 translator: frame dispatch table, allowed epochs, enum values and limits, read from the
CURRENT source tree ($VERIF_REPO) with `ast` (nothing is imported or executed) and written to
coq/gen/C05Tables.v.  Fails closed: any construct it does not recognise raises, which stops the
check through the "proof no longer checks" path."""
import ast
import os
import sys

ROOT = os.path.dirname(os.path.dirname(os.path.dirname(os.path.abspath(__file__))))
REPO = os.environ.get("VERIF_REPO", "/repo")


def _parse(rel):
    path = os.path.join(REPO, "src", "aioquic", rel)
    return ast.parse(open(path).read(), path)


def _const_int(node, env):
    """Evaluate a tiny integer expression (literals, names from env, + - * << **, unary -)."""
    if isinstance(node, ast.Constant) and isinstance(node.value, int) and not isinstance(node.value, bool):
        return node.value
    if isinstance(node, ast.Name) and node.id in env:
        return env[node.id]
    if isinstance(node, ast.UnaryOp) and isinstance(node.op, ast.USub):
        return -_const_int(node.operand, env)
    if isinstance(node, ast.BinOp):
        a, b = _const_int(node.left, env), _const_int(node.right, env)
        ops = {ast.Add: lambda: a + b, ast.Sub: lambda: a - b, ast.Mult: lambda: a * b,
               ast.LShift: lambda: a << b, ast.Pow: lambda: a ** b}
        for k, f in ops.items():
            if isinstance(node.op, k):
                return f()
    raise ValueError("c05_tables: cannot evaluate %s" % ast.dump(node)[:120])


def _enum(tree, name, env=None):
    env = dict(env or {})
    for n in tree.body:
        if isinstance(n, ast.ClassDef) and n.name == name:
            out = []
            for s in n.body:
                if isinstance(s, ast.Assign) and len(s.targets) == 1 and isinstance(s.targets[0], ast.Name):
                    v = _const_int(s.value, env)
                    out.append((s.targets[0].id, v))
                    env[s.targets[0].id] = v
            if not out:
                raise ValueError("c05_tables: enum %s is empty" % name)
            return out
    raise ValueError("c05_tables: enum %s not found" % name)


def _module_ints(tree, names, env=None):
    env = dict(env or {})
    found = {}
    for n in tree.body:
        if isinstance(n, ast.Assign) and len(n.targets) == 1 and isinstance(n.targets[0], ast.Name):
            k = n.targets[0].id
            try:
                v = _const_int(n.value, env)
            except ValueError:
                continue
            env[k] = v
            if k in names:
                found[k] = v
    missing = [k for k in names if k not in found]
    if missing:
        raise ValueError("c05_tables: constants not found: %s" % missing)
    return found


def _frozenset_of_frametypes(tree, name, ft):
    for n in tree.body:
        if isinstance(n, ast.Assign) and isinstance(n.targets[0], ast.Name) and n.targets[0].id == name:
            call = n.value
            if not (isinstance(call, ast.Call) and getattr(call.func, "id", None) == "frozenset"):
                break
            out = []
            for e in call.args[0].elts:
                if not (isinstance(e, ast.Attribute) and getattr(e.value, "id", None) == "QuicFrameType"):
                    raise ValueError("c05_tables: unexpected element in %s" % name)
                out.append(ft[e.attr])
            return out
    raise ValueError("c05_tables: %s not found / not a frozenset([...])" % name)


def read_tables():
    conn = _parse("quic/connection.py")
    pkt = _parse("quic/packet.py")
    tls = _parse("tls.py")
    buf = _parse("buffer.py")
    epoch = dict(_enum(tls, "Epoch"))
    errs = _enum(pkt, "QuicErrorCode")
    fts = _enum(pkt, "QuicFrameType")
    ft = dict(fts)
    alerts = _enum(tls, "AlertDescription")
    tls_states = _enum(tls, "State")
    # EPOCH_SHORTCUTS
    shortcuts = None
    for n in conn.body:
        if isinstance(n, ast.Assign) and getattr(n.targets[0], "id", None) == "EPOCH_SHORTCUTS":
            shortcuts = {}
            for k, v in zip(n.value.keys, n.value.values):
                if not (isinstance(v, ast.Attribute) and isinstance(v.value, ast.Attribute) and v.value.attr == "Epoch"):
                    raise ValueError("c05_tables: EPOCH_SHORTCUTS value shape")
                shortcuts[k.value] = epoch[v.attr]
    if not shortcuts:
        raise ValueError("c05_tables: EPOCH_SHORTCUTS not found")
    # self.__frame_handlers = {...} inside QuicConnection.__init__
    table = None
    for node in ast.walk(conn):
        if isinstance(node, ast.Assign) and len(node.targets) == 1:
            t = node.targets[0]
            if isinstance(t, ast.Attribute) and t.attr.endswith("__frame_handlers") and isinstance(node.value, ast.Dict):
                table = []
                for k, v in zip(node.value.keys, node.value.values):
                    ftype = _const_int(k, {})
                    if not (isinstance(v, ast.Tuple) and len(v.elts) == 2):
                        raise ValueError("c05_tables: handler entry shape")
                    h, ep = v.elts
                    if not (isinstance(h, ast.Attribute) and getattr(h.value, "id", None) == "self"):
                        raise ValueError("c05_tables: handler is not self.<method>")
                    if not (isinstance(ep, ast.Call) and getattr(ep.func, "id", None) == "EPOCHS"
                            and isinstance(ep.args[0], ast.Constant) and isinstance(ep.args[0].value, str)):
                        raise ValueError("c05_tables: epochs is not EPOCHS(\"..\")")
                    table.append((ftype, h.attr, sorted(shortcuts[c] for c in ep.args[0].value)))
    if not table:
        raise ValueError("c05_tables: __frame_handlers dict not found")
    bconst = _module_ints(buf, ["UINT_VAR_MAX", "UINT_VAR_MAX_SIZE"])
    pconst = _module_ints(pkt, ["CONNECTION_ID_MAX_SIZE", "STATELESS_RESET_TOKEN_SIZE", "RETRY_INTEGRITY_TAG_SIZE"])
    cconst = _module_ints(conn, ["STREAM_COUNT_MAX", "MAX_PENDING_CRYPTO", "MAX_REMOTE_CHALLENGES",
                                 "MAX_LOCAL_CHALLENGES", "MAX_PENDING_RETIRES", "ACK_FRAME_CAPACITY"],
                          env=dict(bconst, **pconst))
    sets = {n: _frozenset_of_frametypes(pkt, n, ft)
            for n in ("NON_ACK_ELICITING_FRAME_TYPES", "NON_IN_FLIGHT_FRAME_TYPES", "PROBING_FRAME_TYPES")}
    return dict(epoch=epoch, errs=errs, fts=fts, alerts=alerts, table=table, tls_states=tls_states,
                consts=dict(bconst, **pconst, **cconst), sets=sets)


def _zl(xs):
    return "[" + "; ".join(str(x) for x in xs) + "]"


def render(t):
    handlers = []
    for _, h, _ in t["table"]:
        if h not in handlers:
            handlers.append(h)
    L = ["(* GENERATED by tools/gen/c05_tables.py from src/aioquic/quic/{connection,packet}.py, tls.py, buffer.py",
         "   -- do not edit.  Frame dispatch table of QuicConnection.__frame_handlers, enum values, limits. *)",
         "From Coq Require Import ZArith List.", "Import ListNotations.", "Open Scope Z_scope.", ""]
    L.append("Inductive handler : Set :=")
    for h in handlers:
        L.append("| H%s" % h)
    L[-1] += "."
    L.append("")
    for k, v in sorted(t["epoch"].items(), key=lambda kv: kv[1]):
        L.append("Definition EPOCH_%s : Z := %d." % (k, v))
    L.append("")
    L.append("(* frame type -> (handler, allowed epochs), in source order *)")
    L.append("Definition frame_table : list (Z * (handler * list Z)) := [")
    rows = ["  (%d, (H%s, %s))" % (ftype, h, _zl(ep)) for ftype, h, ep in t["table"]]
    L.append(";\n".join(rows))
    L.append("].")
    L.append("")
    for k, v in t["errs"]:
        L.append("Definition EC_%s : Z := %d." % (k, v))
    L.append("Definition all_error_codes : list Z := %s." % _zl(v for _, v in t["errs"]))
    L.append("")
    for k, v in t["fts"]:
        L.append("Definition FT_%s : Z := %d." % (k, v))
    L.append("")
    for k, v in t["alerts"]:
        L.append("Definition ALERT_%s : Z := %d." % (k, v))
    L.append("Definition all_alerts : list Z := %s." % _zl(v for _, v in t["alerts"]))
    L.append("")
    for k, v in t["tls_states"]:
        L.append("Definition TLS_%s : Z := %d." % (k, v))
    L.append("")
    for k, v in sorted(t["consts"].items()):
        L.append("Definition %s : Z := %d." % (k, v))
    L.append("")
    for k, v in t["sets"].items():
        L.append("Definition %s : list Z := %s." % (k, _zl(v)))
    L.append("")
    return "\n".join(L)


def generate():
    text = render(read_tables())
    out = os.path.join(ROOT, "coq", "gen", "C05Tables.v")
    os.makedirs(os.path.dirname(out), exist_ok=True)
    try:
        if open(out).read() == text:
            return out
    except FileNotFoundError:
        pass
    tmp = out + ".tmp%d" % os.getpid()
    with open(tmp, "w") as f:
        f.write(text)
    os.replace(tmp, out)
    return out


if __name__ == "__main__":
    print(generate())
    if "-v" in sys.argv:
        print(open(os.path.join(ROOT, "coq", "gen", "C05Tables.v")).read())
