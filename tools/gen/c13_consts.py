"""C13 translator: reads the size constants the Builder/Amplification models depend on from the
current source tree and writes coq/gen/C13Consts.v.  Fails closed (raises) when a construct it
relies on is no longer found in the expected syntactic form."""
import ast
import os

OUTPUTS = ["gen/C13Consts.v"]   # deleted by the harness when generate() raises: dependents stop compiling
VERIF = os.path.dirname(os.path.dirname(os.path.dirname(os.path.abspath(__file__))))
REPO = os.environ.get("VERIF_REPO", "/repo")
Q = os.path.join(REPO, "src", "aioquic", "quic")


def _parse(name):
    return ast.parse(open(os.path.join(Q, name)).read())


def _module_int(tree, name):
    for n in tree.body:
        if isinstance(n, ast.Assign) and len(n.targets) == 1 and isinstance(n.targets[0], ast.Name) \
                and n.targets[0].id == name and isinstance(n.value, ast.Constant) and isinstance(n.value.value, int):
            return n.value.value
    raise ValueError("module constant %s not found as an int literal" % name)


def _class(tree, name):
    for n in tree.body:
        if isinstance(n, ast.ClassDef) and n.name == name:
            return n
    raise ValueError("class %s not found" % name)


def _func(cls, name):
    for n in cls.body:
        if isinstance(n, ast.FunctionDef) and n.name == name:
            return n
    raise ValueError("method %s.%s not found" % (cls.name, name))


def _enum(tree, name):
    out = {}
    for n in _class(tree, name).body:
        if isinstance(n, ast.Assign) and isinstance(n.targets[0], ast.Name) and isinstance(n.value, ast.Constant):
            out[n.targets[0].id] = n.value.value
    if not out:
        raise ValueError("enum %s is empty" % name)
    return out


def _frozenset_of(tree, name, enum_name, enum):
    for n in tree.body:
        if isinstance(n, ast.Assign) and isinstance(n.targets[0], ast.Name) and n.targets[0].id == name:
            v = n.value
            if not (isinstance(v, ast.Call) and isinstance(v.func, ast.Name) and v.func.id == "frozenset"
                    and len(v.args) == 1 and isinstance(v.args[0], (ast.List, ast.Tuple, ast.Set))):
                raise ValueError("%s is not frozenset([...])" % name)
            vals = []
            for e in v.args[0].elts:
                if not (isinstance(e, ast.Attribute) and isinstance(e.value, ast.Name) and e.value.id == enum_name
                        and e.attr in enum):
                    raise ValueError("%s: element is not %s.<member>" % (name, enum_name))
                vals.append(enum[e.attr])
            return sorted(vals)
    raise ValueError("%s not found" % name)


def _leftmost_const(e):
    while isinstance(e, ast.BinOp) and isinstance(e.op, ast.Add):
        e = e.left
    if isinstance(e, ast.Constant) and isinstance(e.value, int):
        return e.value
    return None


def _is_attr(e, obj, attr):
    return isinstance(e, ast.Attribute) and e.attr == attr and isinstance(e.value, ast.Name) and e.value.id == obj


def _int_expr(e, env):
    """Value of an int expression made of literals, module constants already extracted (env), + and -."""
    if isinstance(e, ast.Constant) and isinstance(e.value, int) and not isinstance(e.value, bool):
        return e.value
    if isinstance(e, ast.Name) and isinstance(env.get(e.id), int):
        return env[e.id]
    if isinstance(e, ast.BinOp) and isinstance(e.op, (ast.Add, ast.Sub)):
        a, b = _int_expr(e.left, env), _int_expr(e.right, env)
        return a + b if isinstance(e.op, ast.Add) else a - b
    raise ValueError("start_frame: reserve expression is not made of int literals / known constants / + / -")


def _start_frame_reserve(fn, env):
    """start_frame must begin with
           if self.packet_is_empty:
               capacity = max(capacity, E)
       directly followed by the space check `if ... < capacity ...: raise QuicPacketBuilderStop` (fix e93c691:
       room for the header-protection sample padding of a one-byte packet).  Returns the value of E."""
    body = [n for n in fn.body if not (isinstance(n, ast.Expr) and isinstance(n.value, ast.Constant))]
    if len(body) < 2:
        raise ValueError("start_frame: body too short")
    first, second = body[0], body[1]
    ok = isinstance(first, ast.If) and _is_attr(first.test, "self", "packet_is_empty") and not first.orelse \
        and len(first.body) == 1 and isinstance(first.body[0], ast.Assign) and len(first.body[0].targets) == 1 \
        and isinstance(first.body[0].targets[0], ast.Name) and first.body[0].targets[0].id == "capacity"
    if ok:
        v = first.body[0].value
        ok = isinstance(v, ast.Call) and isinstance(v.func, ast.Name) and v.func.id == "max" and len(v.args) == 2 \
            and not v.keywords and isinstance(v.args[0], ast.Name) and v.args[0].id == "capacity"
    if not ok:
        raise ValueError("start_frame does not begin with 'if self.packet_is_empty: capacity = max(capacity, E)'")
    if not (isinstance(second, ast.If) and len(second.body) == 1 and isinstance(second.body[0], ast.Raise)
            and isinstance(second.body[0].exc, ast.Name) and second.body[0].exc.id == "QuicPacketBuilderStop"
            and any(isinstance(m, ast.Name) and m.id == "capacity" for m in ast.walk(second.test))):
        raise ValueError("start_frame: the capacity reservation is not directly followed by the space check")
    return _int_expr(first.body[0].value.args[1], env)


def extract():
    c = {}
    pb = _parse("packet_builder.py")
    c["PACKET_LENGTH_SEND_SIZE"] = _module_int(pb, "PACKET_LENGTH_SEND_SIZE")
    c["PACKET_NUMBER_SEND_SIZE"] = _module_int(pb, "PACKET_NUMBER_SEND_SIZE")
    sp = _func(_class(pb, "QuicPacketBuilder"), "start_packet")
    # "if self._buffer_capacity - packet_start < 128"
    found = []
    for n in ast.walk(sp):
        if isinstance(n, ast.Compare) and len(n.ops) == 1 and isinstance(n.ops[0], ast.Lt) \
                and isinstance(n.left, ast.BinOp) and isinstance(n.left.op, ast.Sub) \
                and _is_attr(n.left.left, "self", "_buffer_capacity") and isinstance(n.left.right, ast.Name) \
                and n.left.right.id == "packet_start" and isinstance(n.comparators[0], ast.Constant):
            found.append(n.comparators[0].value)
    if len(found) != 1:
        raise ValueError("start_packet: 'self._buffer_capacity - packet_start < K' not found exactly once")
    c["DATAGRAM_MIN_SPACE"] = found[0]
    # header_size = 11 + len(peer) + len(host)   /   header_size = 3 + len(peer)
    hs = []
    for n in ast.walk(sp):
        if isinstance(n, ast.Assign) and isinstance(n.targets[0], ast.Name) and n.targets[0].id == "header_size":
            k = _leftmost_const(n.value)
            if k is None:
                raise ValueError("start_packet: header_size assignment without a leading int literal")
            nlen = sum(1 for m in ast.walk(n.value) if isinstance(m, ast.Call) and isinstance(m.func, ast.Name) and m.func.id == "len")
            hs.append((k, nlen))
    if len(hs) != 2 or sorted(nl for _, nl in hs) != [1, 2]:
        raise ValueError("start_packet: expected header_size = K1 + len + len and header_size = K2 + len, got %r" % (hs,))
    c["LONG_HEADER_FIXED"] = [k for k, nl in hs if nl == 2][0]
    c["SHORT_HEADER_FIXED"] = [k for k, nl in hs if nl == 1][0]

    pk = _parse("packet.py")
    c["PACKET_NUMBER_MAX_SIZE"] = _module_int(pk, "PACKET_NUMBER_MAX_SIZE")
    c["START_FRAME_EMPTY_RESERVE"] = _start_frame_reserve(_func(_class(pb, "QuicPacketBuilder"), "start_frame"), c)
    pt = _enum(pk, "QuicPacketType")
    for k in ("INITIAL", "ZERO_RTT", "HANDSHAKE", "ONE_RTT"):
        c["PT_" + k] = pt[k]
    ft = _enum(pk, "QuicFrameType")
    c["FT_CRYPTO"] = ft["CRYPTO"]
    c["FT_PING"] = ft["PING"]
    c["FT_ACK"] = ft["ACK"]
    c["FT_PADDING"] = ft["PADDING"]
    c["NON_ACK_ELICITING"] = _frozenset_of(pk, "NON_ACK_ELICITING_FRAME_TYPES", "QuicFrameType", ft)
    c["NON_IN_FLIGHT"] = _frozenset_of(pk, "NON_IN_FLIGHT_FRAME_TYPES", "QuicFrameType", ft)

    cr = _parse("crypto.py")
    tag = None
    for n in ast.walk(_func(_class(cr, "CryptoPair"), "__init__")):
        if isinstance(n, ast.Assign) and _is_attr(n.targets[0], "self", "aead_tag_size") and isinstance(n.value, ast.Constant):
            tag = n.value.value
    if tag is None:
        raise ValueError("CryptoPair.__init__: self.aead_tag_size = <int> not found")
    c["AEAD_TAG_SIZE"] = tag

    cf = _parse("configuration.py")
    c["SMALLEST_MAX_DATAGRAM_SIZE"] = _module_int(cf, "SMALLEST_MAX_DATAGRAM_SIZE")
    dflt = None
    for n in _class(cf, "QuicConfiguration").body:
        if isinstance(n, ast.AnnAssign) and isinstance(n.target, ast.Name) and n.target.id == "max_datagram_size":
            if isinstance(n.value, ast.Constant):
                dflt = n.value.value
            elif isinstance(n.value, ast.Name):
                dflt = _module_int(cf, n.value.id)
    if dflt is None:
        raise ValueError("QuicConfiguration.max_datagram_size default not found")
    c["DEFAULT_MAX_DATAGRAM_SIZE"] = dflt

    cn = _parse("connection.py")
    conn = _class(cn, "QuicConnection")
    # builder.max_total_bytes = network_path.bytes_received * 3 - network_path.bytes_sent
    fac = []
    for n in ast.walk(_func(conn, "datagrams_to_send")):
        if isinstance(n, ast.Assign) and _is_attr(n.targets[0], "builder", "max_total_bytes"):
            v = n.value
            if isinstance(v, ast.BinOp) and isinstance(v.op, ast.Sub) and _is_attr(v.right, "network_path", "bytes_sent") \
                    and isinstance(v.left, ast.BinOp) and isinstance(v.left.op, ast.Mult):
                a, b = v.left.left, v.left.right
                if _is_attr(a, "network_path", "bytes_received") and isinstance(b, ast.Constant):
                    fac.append(b.value)
                elif _is_attr(b, "network_path", "bytes_received") and isinstance(a, ast.Constant):
                    fac.append(a.value)
    if len(fac) != 1:
        raise ValueError("datagrams_to_send: 'builder.max_total_bytes = network_path.bytes_received * K - "
                         "network_path.bytes_sent' not found exactly once")
    c["AMPLIFICATION_FACTOR"] = fac[0]
    # the budget must be guarded by "if not network_path.is_validated"
    guarded = False
    for n in ast.walk(_func(conn, "datagrams_to_send")):
        if isinstance(n, ast.If) and isinstance(n.test, ast.UnaryOp) and isinstance(n.test.op, ast.Not) \
                and _is_attr(n.test.operand, "network_path", "is_validated"):
            for m in n.body:
                if isinstance(m, ast.Assign) and _is_attr(m.targets[0], "builder", "max_total_bytes"):
                    guarded = True
    if not guarded:
        raise ValueError("datagrams_to_send: max_total_bytes is not set under 'if not network_path.is_validated'")
    # QuicNetworkPath.can_send: "... <= 3 * self.bytes_received"
    cs = _func(_class(cn, "QuicNetworkPath"), "can_send")
    fac2 = [m.left.value for m in ast.walk(cs) if isinstance(m, ast.BinOp) and isinstance(m.op, ast.Mult)
            and isinstance(m.left, ast.Constant) and _is_attr(m.right, "self", "bytes_received")]
    if fac2 != [fac[0]]:
        raise ValueError("QuicNetworkPath.can_send factor %r differs from datagrams_to_send factor %r" % (fac2, fac))
    return c


def render(c):
    def zl(l):
        return "[" + "; ".join(str(x) for x in l) + "]"
    lines = ["(* GENERATED by tools/gen/c13_consts.py from %s -- do not edit *)" % "src/aioquic/quic/{packet_builder,packet,crypto,configuration,connection}.py",
             "From Coq Require Import ZArith List.", "Import ListNotations.", "Open Scope Z_scope.", ""]
    for k in sorted(c):
        v = c[k]
        if isinstance(v, list):
            lines.append("Definition %s : list Z := %s." % (k, zl(v)))
        else:
            lines.append("Definition %s : Z := %d." % (k, v))
    return "\n".join(lines) + "\n"


def generate():
    text = render(extract())
    path = os.path.join(VERIF, "coq", "gen", "C13Consts.v")
    os.makedirs(os.path.dirname(path), exist_ok=True)
    try:
        if open(path).read() == text:
            return
    except FileNotFoundError:
        pass
    tmp = path + ".tmp%d" % os.getpid()
    with open(tmp, "w") as f:
        f.write(text)
    os.replace(tmp, path)


if __name__ == "__main__":
    generate()
    print(open(os.path.join(VERIF, "coq", "gen", "C13Consts.v")).read())
