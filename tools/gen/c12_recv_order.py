"""C12: the ORDER of the acknowledgement-relevant steps of QuicConnection.receive_datagram, read from the source of the tree
under check with `ast` (fail closed), for coq/model/RecvAck.v.

Writes coq/gen/C12RecvOrder.v:

  RECV_ORDER : list (Z * Z)     (event, guard) in source order.  Events:
       1  `return`                                        guard 10: `self._state in END_STATES or self._close_pending`
       2  crypto.decrypt_packet(.., space.expected_packet_number) in try / except KeyUnavailableError, CryptoError: continue
       3  self.close(...); return                         guard 11: `plain_header[0] & reserved_mask`
       4  space.expected_packet_number = packet_number + 1   guard 12: `packet_number > space.expected_packet_number`
       5  is_ack_eliciting, is_probing = self._payload_received(...) in try / except QuicConnectionError: self.close(...)
       6  space.largest_received_packet = packet_number (+ _time = now)
                                                          guard 21: `not space.discarded` / `packet_number > space.largest_received_packet`
       7  space.ack_queue.add(packet_number)              guard 20: `not space.discarded`
       8  space.ack_at = now + self._ack_delay            guard 22: `not space.discarded` / `is_ack_eliciting and space.ack_at is None`
       9  space.ack_at = min(space.ack_at, now)           guard 23: `not space.discarded` /
                                                                    `space.ack_at is not None and len(space.ack_queue) >= MAX_ACK_RANGES`
  HANDLER_PRUNE_OK : bool       _on_ack_delivery is `if delivery == QuicDeliveryState.ACKED:
                                    space.ack_queue.subtract(0, highest_acked + 1)` with parameters (delivery, space, highest_acked)
  HANDLER_ARGS_OK : bool        the ACK start_frame of _write_ack_frame registers handler=self._on_ack_delivery,
                                handler_args=(space, space.largest_received_packet)
  WRITER_ORDER : list Z         _write_ack_frame: 1 the cap loop, 2 start_frame, 3 push_ack_frame(buf, space.ack_queue, ..),
                                4 space.ack_at = None, in source order

Fails closed (GenError; the build then reports a proof violation for C12) when receive_datagram touches the
acknowledgement state (ack_queue, ack_at, largest_received_*, expected_packet_number, discarded) in any statement that is
not one of the forms above, when an event sits under an unknown guard, or when a return / continue / break / raise other
than those of events 1-3 and 5 appears after the decryption inside the packet loop (it would change when the tail runs).
"""
import ast
import os

VERIF = os.path.dirname(os.path.dirname(os.path.dirname(os.path.abspath(__file__))))
REPO = os.environ.get("VERIF_REPO", "/repo")
OUTPUTS = ["gen/C12RecvOrder.v"]

GATE = "self._state in END_STATES or self._close_pending"
ND = "not space.discarded"
ACK_ATTRS = ("ack_at", "ack_queue", "largest_received_packet", "largest_received_time", "expected_packet_number", "discarded")


class GenError(Exception):
    pass


def _func(tree, cls, name):
    for n in ast.walk(tree):
        if isinstance(n, ast.ClassDef) and n.name == cls:
            for f in n.body:
                if isinstance(f, ast.FunctionDef) and f.name == name:
                    return f
    raise GenError("%s.%s not found" % (cls, name))


def _u(n):
    return ast.unparse(n)


def _touches(node):
    """does the statement write the acknowledgement state / call a method of an ack_queue?"""
    for n in ast.walk(node):
        if isinstance(n, (ast.Assign, ast.AugAssign, ast.AnnAssign, ast.Delete)):
            targets = n.targets if isinstance(n, (ast.Assign, ast.Delete)) else [n.target]
            for t in targets:
                for x in ast.walk(t):
                    if isinstance(x, ast.Attribute) and x.attr in ACK_ATTRS:
                        return True
        if isinstance(n, ast.Call) and isinstance(n.func, ast.Attribute) and isinstance(n.func.value, ast.Attribute) \
                and n.func.value.attr == "ack_queue":
            return True
        if isinstance(n, ast.Call) and isinstance(n.func, ast.Name) and n.func.id == "setattr":
            return True
    return False


def _exits(node):
    return [n for n in ast.walk(node) if isinstance(n, (ast.Return, ast.Continue, ast.Break, ast.Raise))]


def _has_call(node, attr):
    return [n for n in ast.walk(node) if isinstance(n, ast.Call) and isinstance(n.func, ast.Attribute) and n.func.attr == attr]


class Walker:
    def __init__(self):
        self.events = []
        self.decrypted = False

    def emit(self, ev, guard):
        self.events.append((ev, guard))

    def guard_code(self, guards, want, code, what):
        if guards != want:
            raise GenError("%s sits under the guard %r, expected %r" % (what, guards, want))
        return code

    def stmts(self, body, guards):
        for s in body:
            self.stmt(s, guards)

    def stmt(self, s, guards):
        if isinstance(s, ast.If):
            test = _u(s.test)
            if test == GATE and len(s.body) == 1 and isinstance(s.body[0], ast.Return) and s.body[0].value is None \
                    and not s.orelse:
                if guards:
                    raise GenError("the closing gate sits under the guard %r" % (guards,))
                self.emit(1, 10)
                return
            if test == "plain_header[0] & reserved_mask":
                ok = (len(s.body) == 2 and isinstance(s.body[0], ast.Expr) and _u(s.body[0].value).startswith("self.close(")
                      and isinstance(s.body[1], ast.Return) and not s.orelse and not guards)
                if not ok:
                    raise GenError("reserved-bits check changed: %s" % _u(s)[:200])
                self.emit(3, 11)
                return
            self.stmts(s.body, guards + [test])
            self.stmts(s.orelse, guards + ["not (%s)" % test])
            return
        if isinstance(s, ast.Try):
            if _has_call(s, "decrypt_packet"):
                self.decrypt(s, guards)
                return
            if _has_call(s, "_payload_received"):
                self.payload(s, guards)
                return
            self.stmts(s.body, guards)
            for h in s.handlers:
                self.stmts(h.body, guards)
            self.stmts(s.orelse, guards)
            self.stmts(s.finalbody, guards)
            return
        if isinstance(s, (ast.While, ast.For)):
            self.stmts(s.body, guards)
            self.stmts(s.orelse, guards)
            return
        if isinstance(s, ast.With):
            self.stmts(s.body, guards)
            return
        if isinstance(s, (ast.FunctionDef, ast.AsyncFunctionDef, ast.ClassDef, ast.Match)):
            raise GenError("unexpected %s in receive_datagram" % type(s).__name__)
        # simple statements
        if self.decrypted and isinstance(s, (ast.Return, ast.Continue, ast.Break, ast.Raise)):
            raise GenError("unrecognised exit after the decryption: `%s` under %r" % (_u(s), guards))
        if _has_call(s, "decrypt_packet") or _has_call(s, "_payload_received"):
            raise GenError("decrypt_packet / _payload_received called outside the expected try statement: %s" % _u(s)[:200])
        if not _touches(s):
            return
        text = _u(s)
        if text == "space.expected_packet_number = packet_number + 1":
            self.emit(4, self.guard_code(guards, ["packet_number > space.expected_packet_number"], 12, text))
        elif text == "space.largest_received_packet = packet_number":
            self.emit(6, self.guard_code(guards, [ND, "packet_number > space.largest_received_packet"], 21, text))
        elif text == "space.largest_received_time = now":
            self.guard_code(guards, [ND, "packet_number > space.largest_received_packet"], 21, text)
            if not self.events or self.events[-1] != (6, 21):
                raise GenError("largest_received_time is not updated right after largest_received_packet")
        elif text == "space.ack_queue.add(packet_number)":
            self.emit(7, self.guard_code(guards, [ND], 20, text))
        elif text == "space.ack_at = now + self._ack_delay":
            self.emit(8, self.guard_code(guards, [ND, "is_ack_eliciting and space.ack_at is None"], 22, text))
        elif text == "space.ack_at = min(space.ack_at, now)":
            self.emit(9, self.guard_code(guards, [ND, "space.ack_at is not None and len(space.ack_queue) >= MAX_ACK_RANGES"],
                                         23, text))
        else:
            raise GenError("receive_datagram touches the acknowledgement state in an unknown way: `%s` under %r" % (text, guards))

    def decrypt(self, s, guards):
        if guards or self.decrypted:
            raise GenError("decrypt_packet under a guard / more than once")
        ok = (len(s.body) == 1 and isinstance(s.body[0], ast.Assign)
              and _u(s.body[0].targets[0]) == "(plain_header, plain_payload, packet_number)"
              and isinstance(s.body[0].value, ast.Call) and _u(s.body[0].value.func) == "crypto.decrypt_packet"
              and len(s.body[0].value.args) == 3 and _u(s.body[0].value.args[2]) == "space.expected_packet_number"
              and not s.orelse and not s.finalbody
              and sorted(_u(h.type) for h in s.handlers if h.type is not None) == ["CryptoError", "KeyUnavailableError"]
              and len(s.handlers) == 2)
        if not ok:
            raise GenError("decryption statement changed: %s" % _u(s)[:300])
        for h in s.handlers:
            if not (h.body and isinstance(h.body[-1], ast.Continue)) or len(_exits(h)) != 1 or _touches(h):
                raise GenError("decryption error handler %s does not simply drop the packet" % _u(h.type))
        self.emit(2, 0)
        self.decrypted = True

    def payload(self, s, guards):
        if guards or not self.decrypted:
            raise GenError("_payload_received under a guard / before the decryption")
        ok = (len(s.body) == 1 and isinstance(s.body[0], ast.Assign)
              and _u(s.body[0].targets[0]) == "(is_ack_eliciting, is_probing)"
              and isinstance(s.body[0].value, ast.Call) and _u(s.body[0].value.func) == "self._payload_received"
              and len(s.handlers) == 1 and s.handlers[0].type is not None and _u(s.handlers[0].type) == "QuicConnectionError"
              and not s.orelse and not s.finalbody)
        if not ok:
            raise GenError("payload statement changed: %s" % _u(s)[:300])
        h = s.handlers[0]
        if _exits(h) or _touches(h) or not any(isinstance(x, ast.Expr) and _u(x.value).startswith("self.close(") for x in h.body):
            raise GenError("the QuicConnectionError handler is not `self.close(...)` falling through to the gate")
        self.emit(5, 13)


def read_order():
    src = open(os.path.join(REPO, "src", "aioquic", "quic", "connection.py")).read()
    tree = ast.parse(src)
    rd = _func(tree, "QuicConnection", "receive_datagram")
    w = Walker()
    w.stmts(rd.body, [])
    evs = [e for e, _ in w.events]
    for must in (2, 5, 7):
        if evs.count(must) != 1:
            raise GenError("event %d occurs %d times in receive_datagram" % (must, evs.count(must)))
    # the handler and what the writer registers
    h = _func(tree, "QuicConnection", "_on_ack_delivery")
    params = [a.arg for a in h.args.args]
    body = [s for s in h.body if not (isinstance(s, ast.Expr) and isinstance(s.value, ast.Constant))]
    prune_ok = (params == ["self", "delivery", "space", "highest_acked"] and len(body) == 1 and isinstance(body[0], ast.If)
                and _u(body[0].test) == "delivery == QuicDeliveryState.ACKED" and not body[0].orelse
                and [_u(x) for x in body[0].body] == ["space.ack_queue.subtract(0, highest_acked + 1)"])
    wr = _func(tree, "QuicConnection", "_write_ack_frame")
    order = []
    args_ok = False
    for s in wr.body:
        if isinstance(s, ast.While) and _u(s.test) == "len(space.ack_queue) > MAX_ACK_RANGES":
            order.append(1)
        elif _has_call(s, "start_frame") and isinstance(s, ast.Assign):
            order.append(2)
            kw = {k.arg: _u(k.value) for c in _has_call(s, "start_frame") for k in c.keywords}
            args_ok = (kw.get("handler") == "self._on_ack_delivery"
                       and kw.get("handler_args") == "(space, space.largest_received_packet)")
        elif _has_call(s, "push_ack_frame") or any(isinstance(n, ast.Call) and isinstance(n.func, ast.Name)
                                                   and n.func.id == "push_ack_frame" for n in ast.walk(s)):
            calls = [n for n in ast.walk(s) if isinstance(n, ast.Call) and isinstance(n.func, ast.Name) and n.func.id == "push_ack_frame"]
            if len(calls) != 1 or len(calls[0].args) != 3 or _u(calls[0].args[1]) != "space.ack_queue":
                raise GenError("push_ack_frame call changed: %s" % _u(s))
            order.append(3)
        elif _u(s) == "space.ack_at = None":
            order.append(4)
        elif _touches(s):
            raise GenError("_write_ack_frame touches the acknowledgement state in an unknown way: %s" % _u(s)[:200])
    return {"RECV_ORDER": w.events, "HANDLER_PRUNE_OK": prune_ok, "HANDLER_ARGS_OK": args_ok, "WRITER_ORDER": order}


def generate():
    c = read_order()
    lines = ["(* GENERATED by tools/gen/c12_recv_order.py from the tree under check -- do not edit *)",
             "From Coq Require Import ZArith List.", "Import ListNotations.", "Open Scope Z_scope.", "",
             "Definition RECV_ORDER : list (Z * Z) := [%s]." % "; ".join("(%d, %d)" % e for e in c["RECV_ORDER"]),
             "Definition HANDLER_PRUNE_OK : bool := %s." % ("true" if c["HANDLER_PRUNE_OK"] else "false"),
             "Definition HANDLER_ARGS_OK : bool := %s." % ("true" if c["HANDLER_ARGS_OK"] else "false"),
             "Definition WRITER_ORDER : list Z := [%s]." % "; ".join(str(x) for x in c["WRITER_ORDER"])]
    text = "\n".join(lines) + "\n"
    path = os.path.join(VERIF, "coq", "gen", "C12RecvOrder.v")
    os.makedirs(os.path.dirname(path), exist_ok=True)
    try:
        if open(path).read() == text:
            return
    except FileNotFoundError:
        pass
    with open(path, "w") as f:
        f.write(text)


if __name__ == "__main__":
    print(read_order())
    generate()
