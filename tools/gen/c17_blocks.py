"""C17 generator: the length-prefixed block helpers of src/aioquic/tls.py.

pull_block / pull_list / pull_opaque are compared, as Python ASTs, with the shapes model/TlsCodec.v was
written from; the two comparisons that decide nesting -- the end check of pull_block
(`if buf.tell() != end: raise AlertDecodeError`) and the loop condition of pull_list
(`while buf.tell() < end`) -- are NOT fixed by the template: their operators are read from the source
and written to coq/gen/C17Blocks.v as Gallina predicates over (tell, end):

  src_block_end_bad  : Z -> Z -> bool      the condition under which pull_block raises
  src_block_error    : Z                   the exception it raises (E_ALERT_DECODE)
  src_list_continue  : Z -> Z -> bool      the condition under which pull_list pulls another item

proofs/TlsNested.v proves that model/TlsCodec.v's pull_block / pull_fold are exactly the functions built
from these predicates (pull_block_matches_source, pull_fold_matches_source); a weakened end check (e.g.
`<` instead of `!=`) therefore breaks a proof in the closure of props/C17.v.

Fail closed: any other difference between the three functions and the template raises ValueError.
"""
import ast
import os

OUTPUTS = ["gen/C17Blocks.v"]

ROOT = os.path.dirname(os.path.dirname(os.path.dirname(os.path.abspath(__file__))))
REPO = os.environ.get("VERIF_REPO", "/repo")
SRC = "src/aioquic/tls.py"

TEMPLATE = '''
@contextmanager
def pull_block(buf: Buffer, capacity: int) -> Generator:
    length = int.from_bytes(buf.pull_bytes(capacity), byteorder="big")
    end = buf.tell() + length
    yield length
    if buf.tell() != end:
        raise AlertDecodeError("extra bytes at the end of a block")


def pull_list(buf: Buffer, capacity: int, func: Callable[[], T]) -> list[T]:
    items = []
    with pull_block(buf, capacity) as length:
        end = buf.tell() + length
        while buf.tell() < end:
            try:
                items.append(func())
            except SkipItem:
                pass
    return items


def pull_opaque(buf: Buffer, capacity: int) -> bytes:
    with pull_block(buf, capacity) as length:
        return buf.pull_bytes(length)
'''

OPS = {
    ast.Eq: "(%s =? %s)", ast.NotEq: "(negb (%s =? %s))", ast.Lt: "(%s <? %s)", ast.LtE: "(%s <=? %s)",
    ast.Gt: "(%s >? %s)", ast.GtE: "(%s >=? %s)",
}
EXC = {"AlertDecodeError": "E_ALERT_DECODE", "AlertIllegalParameter": "E_ALERT_ILLEGAL"}


class Unsupported(ValueError):
    pass


def fail(msg):
    raise Unsupported("c17_blocks: %s: %s" % (SRC, msg))


def strip_doc(fn):
    body = list(fn.body)
    if body and isinstance(body[0], ast.Expr) and isinstance(body[0].value, ast.Constant) and isinstance(body[0].value.value, str):
        body = body[1:]
    fn.body = body
    return fn


class Holes(ast.NodeTransformer):
    """replace the operator of every `buf.tell() <op> end` comparison and the exception class / message of the
    raise in pull_block by placeholders, recording them"""

    def __init__(self):
        self.ops = []
        self.raises = []

    def visit_Compare(self, node):
        self.generic_visit(node)
        if (len(node.ops) == 1 and isinstance(node.comparators[0], ast.Name) and node.comparators[0].id == "end"
                and ast.dump(node.left) == ast.dump(ast.parse("buf.tell()", mode="eval").body)):
            self.ops.append(type(node.ops[0]))
            node.ops = [ast.Is()]
        return node

    def visit_Raise(self, node):
        if (isinstance(node.exc, ast.Call) and isinstance(node.exc.func, ast.Name) and len(node.exc.args) == 1
                and isinstance(node.exc.args[0], ast.Constant) and not node.exc.keywords and node.cause is None):
            self.raises.append(node.exc.func.id)
            node.exc = ast.Name(id="EXC", ctx=ast.Load())
        return node


def shape(tree, names):
    found = {}
    for st in tree.body:
        if isinstance(st, ast.FunctionDef) and st.name in names:
            if st.name in found:
                fail("%s defined twice" % st.name)
            found[st.name] = st
    out = {}
    for n in names:
        if n not in found:
            fail("function %s not found at module level" % n)
        h = Holes()
        fn = h.visit(strip_doc(found[n]))
        out[n] = (ast.dump(fn, annotate_fields=True, include_attributes=False), h.ops, h.raises)
    return out


def read():
    names = ["pull_block", "pull_list", "pull_opaque"]
    want = shape(ast.parse(TEMPLATE), names)
    got = shape(ast.parse(open(os.path.join(REPO, SRC)).read()), names)
    for n in names:
        if want[n][0] != got[n][0]:
            fail("%s no longer has the shape model/TlsCodec.v was written from" % n)
        if len(got[n][1]) != len(want[n][1]) or len(got[n][2]) != len(want[n][2]):
            fail("%s: unexpected number of comparisons / raises" % n)
    (block_op,) = got["pull_block"][1]
    (list_op,) = got["pull_list"][1]
    (exc,) = got["pull_block"][2]
    if block_op not in OPS or list_op not in OPS:
        fail("comparison operator not supported")
    if exc not in EXC:
        fail("pull_block raises %s" % exc)
    return block_op, list_op, exc


def render():
    block_op, list_op, exc = read()
    return """(* GENERATED by tools/gen/c17_blocks.py from %s -- do not edit.
   The two comparisons of pull_block / pull_list that decide nesting, read from the source. *)
From AQ Require Import lib.Base model.Codec.

(* pull_block: `if buf.tell() %s end: raise %s(...)` *)
Definition src_block_end_bad (tell end_ : Z) : bool := %s.
Definition src_block_error : Z := %s.

(* pull_list: `while buf.tell() %s end:` *)
Definition src_list_continue (tell end_ : Z) : bool := %s.
""" % (SRC, OPSYM[block_op], exc, OPS[block_op] % ("tell", "end_"), EXC[exc], OPSYM[list_op], OPS[list_op] % ("tell", "end_"))


OPSYM = {ast.Eq: "==", ast.NotEq: "!=", ast.Lt: "<", ast.LtE: "<=", ast.Gt: ">", ast.GtE: ">="}


def generate():
    data = render()
    path = os.path.join(ROOT, "coq", OUTPUTS[0])
    os.makedirs(os.path.dirname(path), exist_ok=True)
    old = open(path).read() if os.path.exists(path) else None
    if old != data:
        with open(path, "w") as f:
            f.write(data)


if __name__ == "__main__":
    print(render())
