"""Fail-closed translator: the CURRENT source of aioquic.quic.packet.decode_packet_number
(straight-line integer code: assignments, shifts, bit operations, comparisons, if/elif/else, return)
-> Gallina (coq/gen/PnGen.v, `gen_decode_packet_number`).  coq/proofs/PacketNumberProofs.v proves the
generated function equal to the hand model coq/model/PacketNumber.v, so a change of the source
either fails translation (unsupported construct) or breaks that proof.  Nothing is guessed: any
construct outside the listed subset raises."""
import ast
import os

ROOT = os.path.dirname(os.path.dirname(os.path.dirname(os.path.abspath(__file__))))
REPO = os.environ.get("VERIF_REPO", "/repo")
SRC = os.path.join("src", "aioquic", "quic", "packet.py")
FUNC = "decode_packet_number"
OUT = os.path.join(ROOT, "coq", "gen", "PnGen.v")

BINOPS = {
    ast.LShift: "Z.shiftl (%s) (%s)", ast.RShift: "Z.shiftr (%s) (%s)", ast.FloorDiv: "Z.div (%s) (%s)",
    ast.Add: "Z.add (%s) (%s)", ast.Sub: "Z.sub (%s) (%s)", ast.Mult: "Z.mul (%s) (%s)",
    ast.BitAnd: "Z.land (%s) (%s)", ast.BitOr: "Z.lor (%s) (%s)", ast.BitXor: "Z.lxor (%s) (%s)",
    ast.Mod: "Z.modulo (%s) (%s)",
}
CMPOPS = {ast.LtE: "Z.leb", ast.Lt: "Z.ltb", ast.GtE: "Z.geb", ast.Gt: "Z.gtb", ast.Eq: "Z.eqb"}


class Unsupported(Exception):
    pass


def fail(node, why):
    raise Unsupported("%s:%s: %s (%s)" % (SRC, getattr(node, "lineno", "?"), why, type(node).__name__))


class Tr:
    def __init__(self, params):
        self.scope = set(params)

    def expr(self, e):
        if isinstance(e, ast.Constant):
            if type(e.value) is not int:
                fail(e, "non-integer constant")
            return "%d" % e.value if e.value >= 0 else "(%d)" % e.value
        if isinstance(e, ast.Name):
            if e.id not in self.scope:
                fail(e, "name %r is not a parameter or local" % e.id)
            return e.id
        if isinstance(e, ast.BinOp):
            f = BINOPS.get(type(e.op))
            if f is None:
                fail(e, "operator")
            return f % (self.expr(e.left), self.expr(e.right))
        if isinstance(e, ast.UnaryOp):
            if isinstance(e.op, ast.Invert):
                return "Z.lnot (%s)" % self.expr(e.operand)
            if isinstance(e.op, ast.USub):
                return "Z.opp (%s)" % self.expr(e.operand)
            fail(e, "unary operator")
        fail(e, "expression")

    def cond(self, e):
        if isinstance(e, ast.BoolOp):
            op = "andb" if isinstance(e.op, ast.And) else "orb" if isinstance(e.op, ast.Or) else None
            if op is None:
                fail(e, "boolean operator")
            parts = [self.cond(v) for v in e.values]
            out = parts[-1]
            for p in reversed(parts[:-1]):   # Python's and/or are right-nested lazily; pure here
                out = "%s (%s) (%s)" % (op, p, out)
            return out
        if isinstance(e, ast.Compare):
            if len(e.ops) != 1:
                fail(e, "chained comparison")
            f = CMPOPS.get(type(e.ops[0]))
            if f is None:
                fail(e, "comparison operator")
            return "%s (%s) (%s)" % (f, self.expr(e.left), self.expr(e.comparators[0]))
        if isinstance(e, ast.UnaryOp) and isinstance(e.op, ast.Not):
            return "negb (%s)" % self.cond(e.operand)
        fail(e, "condition")

    def block(self, stmts, ind):
        if not stmts:
            raise Unsupported("%s: control reaches the end of %s without return" % (SRC, FUNC))
        s, rest = stmts[0], stmts[1:]
        pad = "  " * ind
        if isinstance(s, ast.Expr) and isinstance(s.value, ast.Constant) and isinstance(s.value.value, str):
            return self.block(rest, ind)  # docstring
        if isinstance(s, ast.Assign):
            if len(s.targets) != 1 or not isinstance(s.targets[0], ast.Name):
                fail(s, "assignment target")
            v = self.expr(s.value)
            name = s.targets[0].id
            self.scope.add(name)
            return "%slet %s := %s in\n%s" % (pad, name, v, self.block(rest, ind))
        if isinstance(s, ast.Return):
            if s.value is None:
                fail(s, "return without value")
            if rest:
                fail(rest[0], "statement after return")
            return "%s%s" % (pad, self.expr(s.value))
        if isinstance(s, ast.If):
            c = self.cond(s.test)
            saved = set(self.scope)
            then = self.block(s.body, ind + 1)   # must end in return (block() enforces)
            self.scope = set(saved)
            if s.orelse:
                if rest:
                    fail(rest[0], "statement after if/else whose branches all return")
                els = self.block(s.orelse, ind + 1)
            else:
                els = self.block(rest, ind + 1)
            self.scope = saved
            return "%sif %s then\n%s\n%selse\n%s" % (pad, c, then, pad, els)
        fail(s, "statement")


def translate(source):
    tree = ast.parse(source)
    fns = [n for n in tree.body if isinstance(n, ast.FunctionDef) and n.name == FUNC]
    if len(fns) != 1:
        raise Unsupported("%s: expected exactly one top-level def %s, found %d" % (SRC, FUNC, len(fns)))
    fn = fns[0]
    a = fn.args
    if a.vararg or a.kwarg or a.kwonlyargs or a.posonlyargs or a.defaults or fn.decorator_list:
        fail(fn, "signature")
    params = [x.arg for x in a.args]
    body = Tr(params).block(fn.body, 1)
    return ("(* GENERATED by tools/gen/c02_pure.py from %s (%s) -- do not edit *)\n"
            "From Coq Require Import ZArith Bool.\nOpen Scope Z_scope.\n\n"
            "Definition gen_%s (%s : Z) : Z :=\n%s.\n" % (SRC, FUNC, FUNC, " ".join(params), body))


def generate():
    text = translate(open(os.path.join(REPO, SRC)).read())
    try:
        if open(OUT).read() == text:
            return
    except FileNotFoundError:
        pass
    os.makedirs(os.path.dirname(OUT), exist_ok=True)
    tmp = OUT + ".tmp%d" % os.getpid()
    with open(tmp, "w") as f:
        f.write(text)
    os.replace(tmp, OUT)


if __name__ == "__main__":
    generate()
    print(open(OUT).read())
