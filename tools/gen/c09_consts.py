"""C09 constants, probed from the source of the tree under check (fail closed).

Writes coq/gen/C09Consts.v:
  PACING_RESET (bool)   does `datagrams_to_send` clear the pacing deadline at the top of its non-closing branch
                        (`self._pacing_at = None` as the first statement of the `else:` of `if self._close_pending:`,
                        docs/C09-fix-1.patch)?  false when datagrams_to_send never assigns self._pacing_at; any other
                        assignment there fails closed.
  CLOSE_BEGIN_UNCONDITIONAL (bool)
                        are `self._close_pending = False` and `self._close_begin(is_initiator=True, now=now)` the LAST TWO
                        statements, in this order, of the body of the top-level `if self._close_pending:` of
                        `datagrams_to_send` (direct children: not under any further if / for / try), i.e. executed by every
                        close round whether or not a packet was written, with `builder.flush()` only afterwards?
                        true: yes (model/Timers.v `send`, theorem close_round_always_begins).  false: the function still
                        contains exactly one such assignment and one such call but somewhere else (e.g. in the post-flush
                        `if datagrams:` block): the proofs about the close round (proofs/TimersP.v) then fail.  Anything
                        else (missing, duplicated, other arguments, a second top-level test of _close_pending, an early
                        return / raise / break / continue inside the close branch, a flush before the branch) fails closed.
Also checks what model/TimersFull.v relies on: apart from that reset, `self._pacing_at` is assigned only in __init__
(None) and once in _write_application (`self._loss._pacer.next_send_time(now=now)`), under the pacing test
`space.ack_at is None or space.ack_at > now` (or `>= now`, C12's PACING_LE; not a C09 matter).
"""
import ast
import os

VERIF = os.path.dirname(os.path.dirname(os.path.dirname(os.path.abspath(__file__))))
REPO = os.environ.get("VERIF_REPO", "/repo")
OUTPUTS = ["gen/C09Consts.v"]


class GenError(Exception):
    pass


def _func(tree, cls, name):
    for n in ast.walk(tree):
        if isinstance(n, ast.ClassDef) and n.name == cls:
            for f in n.body:
                if isinstance(f, ast.FunctionDef) and f.name == name:
                    return f
    raise GenError("%s.%s not found" % (cls, name))


def _is_pacing(node):
    return (isinstance(node, ast.Attribute) and node.attr == "_pacing_at" and isinstance(node.value, ast.Name)
            and node.value.id == "self")


def _assigns(node):
    out = []
    for n in ast.walk(node):
        if isinstance(n, (ast.Assign, ast.AnnAssign, ast.AugAssign)):
            targets = n.targets if isinstance(n, ast.Assign) else [n.target]
            if any(_is_pacing(t) for t in targets):
                out.append(n)
    return out


def read_consts():
    src = open(os.path.join(REPO, "src", "aioquic", "quic", "connection.py")).read()
    tree = ast.parse(src)
    cls = [n for n in tree.body if isinstance(n, ast.ClassDef) and n.name == "QuicConnection"]
    if len(cls) != 1:
        raise GenError("class QuicConnection not found")
    per_func = {}
    for f in cls[0].body:
        if isinstance(f, ast.FunctionDef):
            a = _assigns(f)
            if a:
                per_func[f.name] = a
    allowed = {"__init__", "_write_application", "datagrams_to_send"}
    if set(per_func) - allowed:
        raise GenError("self._pacing_at assigned in %s" % sorted(set(per_func) - allowed))
    init = per_func.get("__init__", [])
    if len(init) != 1 or ast.unparse(init[0].value) != "None":
        raise GenError("__init__ does not set self._pacing_at = None exactly once")
    wa = per_func.get("_write_application", [])
    if len(wa) != 1 or ast.unparse(wa[0].value) != "self._loss._pacer.next_send_time(now=now)":
        raise GenError("_write_application: unexpected assignment(s) to self._pacing_at: %s" % [ast.unparse(x) for x in wa])
    waf = _func(tree, "QuicConnection", "_write_application")
    guard = [n for n in ast.walk(waf) if isinstance(n, ast.If) and any(x is wa[0] for x in n.body)]
    if len(guard) != 1 or ast.unparse(guard[0].test) not in ("space.ack_at is None or space.ack_at > now",
                                                              "space.ack_at is None or space.ack_at >= now"):
        raise GenError("pacing test of _write_application changed")
    c = {}
    dts = per_func.get("datagrams_to_send", [])
    if not dts:
        c["PACING_RESET"] = False
    else:
        f = _func(tree, "QuicConnection", "datagrams_to_send")
        ifs = [n for n in f.body if isinstance(n, ast.If) and ast.unparse(n.test) == "self._close_pending"]
        ok = (len(dts) == 1 and len(ifs) == 1 and ifs[0].orelse and ifs[0].orelse[0] is dts[0]
              and isinstance(dts[0], ast.Assign) and ast.unparse(dts[0].value) == "None")
        if not ok:
            raise GenError("datagrams_to_send assigns self._pacing_at in an unknown way: %s" % [ast.unparse(x) for x in dts])
        c["PACING_RESET"] = True
    c["CLOSE_BEGIN_UNCONDITIONAL"] = _close_round(tree)
    return c


def _is_self_attr(node, attr):
    return isinstance(node, ast.Attribute) and node.attr == attr and isinstance(node.value, ast.Name) and node.value.id == "self"


def _close_round(tree):
    """Position of the transition out of close-pending inside datagrams_to_send (see the module docstring)."""
    f = _func(tree, "QuicConnection", "datagrams_to_send")
    clears, sets_other, begins = [], [], []
    for n in ast.walk(f):
        if isinstance(n, (ast.Assign, ast.AnnAssign, ast.AugAssign)):
            targets = n.targets if isinstance(n, ast.Assign) else [n.target]
            for t in targets:
                for leaf in ast.walk(t):
                    if _is_self_attr(leaf, "_close_pending"):
                        if isinstance(n, ast.Assign) and len(n.targets) == 1 and _is_self_attr(n.targets[0], "_close_pending") \
                                and ast.unparse(n.value) == "False":
                            clears.append(n)
                        else:
                            sets_other.append(n)
        if isinstance(n, ast.Call) and _is_self_attr(n.func, "_close_begin"):
            begins.append(n)
        if isinstance(n, ast.Call) and isinstance(n.func, ast.Name) and n.func.id in ("setattr", "delattr"):
            raise GenError("datagrams_to_send uses %s()" % n.func.id)
    if sets_other:
        raise GenError("datagrams_to_send assigns self._close_pending in an unknown way: %s" % [ast.unparse(x) for x in sets_other])
    if len(clears) != 1 or len(begins) != 1:
        raise GenError("datagrams_to_send: expected exactly one `self._close_pending = False` and one `self._close_begin(...)`, "
                       "found %d and %d" % (len(clears), len(begins)))
    if ast.unparse(begins[0]) != "self._close_begin(is_initiator=True, now=now)":
        raise GenError("datagrams_to_send: unexpected call %s" % ast.unparse(begins[0]))
    tests = [n for n in f.body if isinstance(n, ast.If) and ast.unparse(n.test) == "self._close_pending"]
    if len(tests) != 1:
        raise GenError("datagrams_to_send: expected exactly one top-level `if self._close_pending:`, found %d" % len(tests))
    branch = tests[0]
    # nothing in the close branch may leave it early, and the builder must not be flushed before the branch ends
    for n in branch.body:
        for m in ast.walk(n):
            if isinstance(m, (ast.Return, ast.Raise, ast.Break, ast.Continue)):
                raise GenError("datagrams_to_send: the close branch contains `%s`" % ast.unparse(m))
    idx = f.body.index(branch)
    flushes = [i for i, st in enumerate(f.body) if any(
        isinstance(m, ast.Call) and isinstance(m.func, ast.Attribute) and m.func.attr == "flush" for m in ast.walk(st))]
    if len(flushes) != 1 or flushes[0] <= idx:
        raise GenError("datagrams_to_send: builder.flush() is not a single top-level statement after the close branch")
    for st in f.body[:idx]:
        # before the branch: only the END_STATES / no-path guard may return
        for m in ast.walk(st):
            if isinstance(m, ast.Return) and not (isinstance(st, ast.If) and ast.unparse(st.test) ==
                                                  "self._state in END_STATES or not self._network_paths"):
                raise GenError("datagrams_to_send: unexpected early return before the close branch: %s" % ast.unparse(st.test if isinstance(st, ast.If) else st))
    body = branch.body
    pinned = (len(body) >= 2 and body[-2] is clears[0] and isinstance(body[-1], ast.Expr) and body[-1].value is begins[0])
    return bool(pinned)


def generate():
    c = read_consts()
    lines = ["(* GENERATED by tools/gen/c09_consts.py from the tree under check -- do not edit *)", ""]
    for k in sorted(c):
        lines.append("Definition %s : bool := %s." % (k, "true" if c[k] else "false"))
    text = "\n".join(lines) + "\n"
    path = os.path.join(VERIF, "coq", "gen", "C09Consts.v")
    os.makedirs(os.path.dirname(path), exist_ok=True)
    try:
        if open(path).read() == text:
            return
    except FileNotFoundError:
        pass
    with open(path, "w") as f:
        f.write(text)


if __name__ == "__main__":
    generate()
    print(read_consts())
