#!/usr/bin/env python3
"""C11 translator, connection level: connection.py / tls.py -> coq/gen/TlsQuicGen.v  (fail closed)

From the CURRENT source under $VERIF_REPO/src/aioquic (Python `ast`, nothing is imported or run):

1. the constants the connection-level model coq/model/TlsQuic.v uses: MAX_PENDING_CRYPTO,
   tls.MAX_HANDSHAKE_MESSAGE_SIZE, buffer.UINT_VAR_MAX, the QuicErrorCode members it raises,
   QuicPacketType values;
2. `get_epoch` evaluated for every QuicPacketType member into a table  packet type -> tls.Epoch;
3. the epochs in which the CRYPTO frame (0x06) is accepted, from the frame handler table
   (`EPOCHS("..")` through EPOCH_SHORTCUTS);
4. *skeletons* of the functions the model transcribes: QuicConnection._handle_crypto_frame,
   _update_traffic_key, _discard_epoch and tls.Context.handle_message -- the statement tree in source
   order (if / try / while / raise / return / calls / assignments as `ast.unparse` text), with logging
   (self._logger.*, self._quic_logger.*, quic_logger_frames, `if self._quic_logger is not None:` blocks),
   docstrings and `reason_phrase=` arguments removed.  proofs/TlsQuicSkel.v pins them: any other edit of
   these functions makes the pin fail (proof violation) until the model is looked at again.
"""
import ast
import os
import sys

ROOT = os.path.dirname(os.path.dirname(os.path.dirname(os.path.abspath(__file__))))
REPO = os.environ.get("VERIF_REPO", "/repo")
OUT = os.path.join(ROOT, "coq", "gen", "TlsQuicGen.v")
OUTPUTS = ["gen/TlsQuicGen.v"]


class Untranslatable(Exception):
    pass


def fail(node, why):
    raise Untranslatable("line %s: %s" % (getattr(node, "lineno", "?"), why))


def _src(*parts):
    return os.path.join(REPO, "src", "aioquic", *parts)


def _parse(*parts):
    return ast.parse(open(_src(*parts)).read())


def module_int(tree, name):
    for n in tree.body:
        if isinstance(n, ast.Assign) and len(n.targets) == 1 and isinstance(n.targets[0], ast.Name) \
                and n.targets[0].id == name and isinstance(n.value, ast.Constant) \
                and isinstance(n.value.value, int) and not isinstance(n.value.value, bool):
            return n.value.value
    raise Untranslatable("module constant %s not found as an int literal" % name)


def find_class(tree, name):
    for n in tree.body:
        if isinstance(n, ast.ClassDef) and n.name == name:
            return n
    raise Untranslatable("class %s not found" % name)


def find_func(body, name):
    for n in body:
        if isinstance(n, ast.FunctionDef) and n.name == name:
            return n
    raise Untranslatable("function %s not found" % name)


def enum_members(cls):
    out = {}
    for st in cls.body:
        if isinstance(st, ast.Assign) and len(st.targets) == 1 and isinstance(st.targets[0], ast.Name) \
                and isinstance(st.value, ast.Constant) and isinstance(st.value.value, int):
            out[st.targets[0].id] = st.value.value
    if not out:
        raise Untranslatable("enum %s has no int members" % cls.name)
    return out


# --------------------------------------------------------------------------- get_epoch
def eval_get_epoch(fn, ptypes, epochs):
    """evaluate the if/elif chain `if packet_type == QuicPacketType.X: return tls.Epoch.Y ... else: return ...`"""
    if [a.arg for a in fn.args.args] != ["packet_type"]:
        fail(fn, "get_epoch: unexpected signature")

    def ret(node):
        if not (isinstance(node, ast.Return) and isinstance(node.value, ast.Attribute)
                and ast.unparse(node.value.value) == "tls.Epoch" and node.value.attr in epochs):
            fail(node, "get_epoch: branch is not `return tls.Epoch.<member>`")
        return epochs[node.value.attr]

    def run(stmts, value):
        for st in stmts:
            if isinstance(st, ast.Expr) and isinstance(st.value, ast.Constant):
                continue
            if isinstance(st, ast.Return):
                return ret(st)
            if isinstance(st, ast.If):
                t = st.test
                if not (isinstance(t, ast.Compare) and len(t.ops) == 1 and isinstance(t.ops[0], ast.Eq)
                        and isinstance(t.left, ast.Name) and t.left.id == "packet_type"
                        and isinstance(t.comparators[0], ast.Attribute)
                        and ast.unparse(t.comparators[0].value) == "QuicPacketType"
                        and t.comparators[0].attr in ptypes):
                    fail(st, "get_epoch: condition is not `packet_type == QuicPacketType.<member>`")
                r = run(st.body if ptypes[t.comparators[0].attr] == value else st.orelse, value)
                if r is not None:
                    return r
                continue
            fail(st, "get_epoch: unexpected statement")
        return None

    table = []
    for name, v in ptypes.items():
        r = run(fn.body, v)
        if r is None:
            fail(fn, "get_epoch: falls off the end for %s" % name)
        table.append((v, r))
    return table


# --------------------------------------------------------------------------- frame table
def crypto_epochs(conn_tree, cls, epochs):
    shortcuts = None
    for n in conn_tree.body:
        if isinstance(n, ast.Assign) and isinstance(n.targets[0], ast.Name) and n.targets[0].id == "EPOCH_SHORTCUTS":
            if not isinstance(n.value, ast.Dict):
                fail(n, "EPOCH_SHORTCUTS is not a dict literal")
            shortcuts = {}
            for k, v in zip(n.value.keys, n.value.values):
                if not (isinstance(k, ast.Constant) and isinstance(k.value, str) and isinstance(v, ast.Attribute)
                        and ast.unparse(v.value) == "tls.Epoch" and v.attr in epochs):
                    fail(n, "EPOCH_SHORTCUTS entry not understood")
                shortcuts[k.value] = epochs[v.attr]
    if shortcuts is None:
        raise Untranslatable("EPOCH_SHORTCUTS not found")
    ep_fn = find_func(conn_tree.body, "EPOCHS")
    if ast.unparse(ep_fn.body[-1]) != "return frozenset((EPOCH_SHORTCUTS[i] for i in shortcut))":
        fail(ep_fn, "EPOCHS() body changed: %s" % ast.unparse(ep_fn.body[-1]))
    init = find_func(cls.body, "__init__")
    for n in ast.walk(init):
        if isinstance(n, ast.Assign) and len(n.targets) == 1 and ast.unparse(n.targets[0]).endswith("__frame_handlers") \
                and isinstance(n.value, ast.Dict):
            found = None
            for k, v in zip(n.value.keys, n.value.values):
                if isinstance(k, ast.Constant) and k.value == 0x06:
                    if not (isinstance(v, ast.Tuple) and len(v.elts) == 2
                            and ast.unparse(v.elts[0]) == "self._handle_crypto_frame"
                            and isinstance(v.elts[1], ast.Call) and ast.unparse(v.elts[1].func) == "EPOCHS"
                            and len(v.elts[1].args) == 1 and isinstance(v.elts[1].args[0], ast.Constant)):
                        fail(v, "frame table entry 0x06 not understood")
                    found = sorted(shortcuts[ch] for ch in v.elts[1].args[0].value)
                elif ast.unparse(v).startswith("(self._handle_crypto_frame"):
                    fail(v, "_handle_crypto_frame registered for another frame type")
            if found is None:
                fail(n, "no frame table entry for 0x06")
            return found
    raise Untranslatable("frame handler table not found in __init__")


# --------------------------------------------------------------------------- skeletons
LOG_PREFIXES = ("self._logger.", "self._quic_logger.", "context.quic_logger_frames.", "secrets_log_file.")


def _is_logging(st):
    if isinstance(st, ast.Expr) and isinstance(st.value, ast.Call):
        return ast.unparse(st.value.func).startswith(LOG_PREFIXES)
    if isinstance(st, ast.If) and ast.unparse(st.test) in ("self._quic_logger is not None", "secrets_log_file is not None"):
        return True
    if isinstance(st, ast.Assign) and ast.unparse(st.targets[0]) in ("secrets_log_file", "label_row", "label"):
        return True
    return False


def _strip_reason(node):
    """drop reason_phrase=... keywords and message strings of raised exceptions"""
    node = ast.parse(ast.unparse(node), mode="eval").body if isinstance(node, ast.expr) else node
    for n in ast.walk(node):
        if isinstance(n, ast.Call):
            n.keywords = [k for k in n.keywords if k.arg != "reason_phrase"]
            if ast.unparse(n.func).startswith("Alert"):
                n.args = [a for a in n.args if not (isinstance(a, ast.Constant) and isinstance(a.value, str))]
    return ast.unparse(node)


def skeleton(fn):
    out = []

    def walk(stmts):
        for st in stmts:
            if isinstance(st, ast.Expr) and isinstance(st.value, ast.Constant):
                continue                                   # docstring
            if _is_logging(st):
                continue
            if isinstance(st, ast.If):
                out.append("if " + ast.unparse(st.test))
                walk(st.body)
                if st.orelse:
                    out.append("else")
                    walk(st.orelse)
                out.append("end")
            elif isinstance(st, ast.While):
                out.append("while " + ast.unparse(st.test))
                walk(st.body)
                out.append("end")
            elif isinstance(st, ast.For):
                out.append("for %s in %s" % (ast.unparse(st.target), ast.unparse(st.iter)))
                walk(st.body)
                out.append("end")
            elif isinstance(st, ast.Try):
                out.append("try")
                walk(st.body)
                for h in st.handlers:
                    out.append("except " + (ast.unparse(h.type) if h.type else ""))
                    walk(h.body)
                if st.orelse or st.finalbody:
                    fail(st, "try/else/finally not expected")
                out.append("end")
            elif isinstance(st, ast.Raise):
                out.append("raise " + (_strip_reason(st.exc) if st.exc is not None else ""))
            elif isinstance(st, ast.Return):
                out.append("return" + (" " + ast.unparse(st.value) if st.value is not None else ""))
            elif isinstance(st, (ast.Break, ast.Continue, ast.Pass)):
                out.append(type(st).__name__.lower())
            elif isinstance(st, (ast.Assign, ast.AugAssign, ast.AnnAssign, ast.Expr, ast.Assert)):
                out.append(ast.unparse(st))
            else:
                fail(st, "statement form %s not expected" % type(st).__name__)

    walk(fn.body)
    return ["def %s(%s)" % (fn.name, ", ".join(a.arg for a in fn.args.args))] + out


# --------------------------------------------------------------------------- render
def coq_string(s):
    if any(ord(ch) > 126 or ord(ch) < 32 for ch in s):
        raise Untranslatable("non-ASCII text in a skeleton line: %r" % s)
    return '"' + s.replace('"', '""') + '"'


def analyse():
    conn = _parse("quic", "connection.py")
    packet = _parse("quic", "packet.py")
    tlsm = _parse("tls.py")
    buffer_ = _parse("buffer.py")
    qc = find_class(conn, "QuicConnection")
    epochs = enum_members(find_class(tlsm, "Epoch"))
    ptypes = enum_members(find_class(packet, "QuicPacketType"))
    codes = enum_members(find_class(packet, "QuicErrorCode"))
    for need in ("INITIAL", "ZERO_RTT", "HANDSHAKE", "ONE_RTT"):
        if need not in epochs or need not in ptypes:
            raise Untranslatable("Epoch / QuicPacketType member %s missing" % need)
    res = {
        "consts": [
            ("MAX_PENDING_CRYPTO", module_int(conn, "MAX_PENDING_CRYPTO")),
            ("MAX_HANDSHAKE_MESSAGE_SIZE", module_int(tlsm, "MAX_HANDSHAKE_MESSAGE_SIZE")),
            ("UINT_VAR_MAX", module_int(buffer_, "UINT_VAR_MAX")),
        ] + [("QEC_" + n, codes[n]) for n in ("PROTOCOL_VIOLATION", "FRAME_ENCODING_ERROR", "CRYPTO_BUFFER_EXCEEDED",
                                               "CRYPTO_ERROR")]
          + [("PT_" + n, ptypes[n]) for n in ("INITIAL", "ZERO_RTT", "HANDSHAKE", "ONE_RTT")],
        "get_epoch": eval_get_epoch(find_func(conn.body, "get_epoch"), ptypes, epochs),
        "crypto_epochs": crypto_epochs(conn, qc, epochs),
        "skeletons": [
            ("sk_handle_crypto_frame", skeleton(find_func(qc.body, "_handle_crypto_frame"))),
            ("sk_update_traffic_key", skeleton(find_func(qc.body, "_update_traffic_key"))),
            ("sk_discard_epoch", skeleton(find_func(qc.body, "_discard_epoch"))),
            ("sk_handle_message", skeleton(find_func(find_class(tlsm, "Context").body, "handle_message"))),
        ],
    }
    return res


def render(res):
    o = ["(* GENERATED by tools/gen/c11_quic.py from connection.py / tls.py / packet.py / buffer.py -- do not edit *)",
         "From Coq Require Import ZArith List String.", "Import ListNotations.", "Open Scope Z_scope.", ""]
    for n, v in res["consts"]:
        o.append("Definition %s : Z := %d." % (n, v))
    o.append("")
    o.append("(* get_epoch: QuicPacketType value -> tls.Epoch value, every member *)")
    o.append("Definition get_epoch_table : list (Z * Z) := [%s]." % "; ".join("(%d, %d)" % p for p in res["get_epoch"]))
    o.append("(* epochs in which frame type 0x06 (CRYPTO) is accepted *)")
    o.append("Definition crypto_frame_epochs : list Z := [%s]." % "; ".join(str(e) for e in res["crypto_epochs"]))
    o.append("")
    for n, lines in res["skeletons"]:
        o.append("Definition %s : list string := [" % n)
        o.append(";\n".join("  %s%%string" % coq_string(s) for s in lines))
        o.append("].")
        o.append("")
    return "\n".join(o)


def generate():
    text = render(analyse())
    os.makedirs(os.path.dirname(OUT), exist_ok=True)
    try:
        if open(OUT).read() == text:
            return
    except FileNotFoundError:
        pass
    tmp = OUT + ".tmp%d" % os.getpid()
    with open(tmp, "w") as f:
        f.write(text)
    os.replace(tmp, OUT)


generate.__name__ = "c11_quic"

if __name__ == "__main__":
    try:
        generate()
    except Untranslatable as e:
        print("UNTRANSLATABLE:", e)
        sys.exit(1)
    print(open(OUT).read())
