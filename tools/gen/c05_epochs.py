"""C05 translator for the epoch-keyed tables of src/aioquic/quic/connection.py (`_cryptos`, `_crypto_buffers`,
`_crypto_streams`, `_spaces`), read from the CURRENT tree ($VERIF_REPO) with `ast` (nothing imported or executed),
written to coq/gen/C05Epochs.v:

  * `INIT_CRYPTOS / INIT_BUFFERS / INIT_STREAMS / INIT_SPACES` -- the keys `_initialize` creates, in creation order
    (a dict display `{tls.Epoch.X: ...}`, the `dict((epoch, f(epoch)) for epoch in (tls.Epoch.X, ...))` form, followed by
    `self._T[tls.Epoch.X] = ...` stores); the constructor must create all four tables as `{}`;
  * `DISCARD_BODY` -- `_discard_epoch` statement by statement as a program of the small instruction type `dop`
    (defined in the generated file): the whole body must be ONE `if not self._spaces[epoch].discarded:`; inside it
      self._cryptos[epoch].teardown()                                   -> DTeardown
      if epoch == tls.Epoch.INITIAL: for crypto in self._cryptos_initial.values(): ...  -> DTeardownInitials
      self._loss.discard_space(self._spaces[epoch])                     -> DLossDiscard
      self._spaces[epoch].discarded = True                              -> DMarkDiscarded
      self._T.pop(epoch, <default>)                                     -> DPop T      (no KeyError)
      self._T.pop(epoch)  /  del self._T[epoch]                         -> DDel T      (KeyError when absent)
    (logger calls dropped).  coq/model/ConnEpochs.v INTERPRETS this program, so a `_discard_epoch` that also deletes
    table entries is followed by the model, and `epoch_tables_total` (which needs `no_removal DISCARD_BODY = true`)
    stops being provable;
  * `TLS_OUTPUT_EPOCHS` -- the X of every `output_buf[Epoch.X]` in tls.py's handle_message /
    _handle_reassembled_message (the dict handed over is `self._crypto_buffers`); `TLS_KEY_EPOCHS` -- every `Epoch.X` that
    appears as a call argument in tls.py (over-approximates what reaches `update_traffic_key_cb`, i.e.
    `QuicConnection._update_traffic_key`: `self._cryptos[epoch]`);
  * `epoch_sites`: listings of EVERY statement of connection.py that assigns or mutates one of the four tables (with its
    function) and of EVERY other expression that mentions one (the innermost enclosing expression: `self._spaces[epoch]`,
    `self._crypto_buffers.items()`, ...), with its function, and of every call of `_initialize` / `_discard_epoch` /
    `_push_crypto_data` / `_close_end`.  coq/model/ConnEpochs.v states the listings it was written
    against; `proofs/ConnEpochsP.epoch_sites_known` compares.
Fails closed: anything unexpected raises (the output file is then deleted by the harness)."""
import ast
import os

ROOT = os.path.dirname(os.path.dirname(os.path.dirname(os.path.abspath(__file__))))
REPO = os.environ.get("VERIF_REPO", "/repo")
OUTPUTS = ["gen/C05Epochs.v"]

TABLES = {"_cryptos": "TCryptos", "_crypto_buffers": "TBuffers", "_crypto_streams": "TStreams", "_spaces": "TSpaces"}
DICT_MUTATORS = {"pop", "popitem", "clear", "update", "setdefault", "__setitem__", "__delitem__"}


def _parse(rel):
    path = os.path.join(REPO, "src", "aioquic", rel)
    return ast.parse(open(path).read(), path)


def _epoch_values(tls_tree):
    for n in tls_tree.body:
        if isinstance(n, ast.ClassDef) and n.name == "Epoch":
            vals = {}
            for st in n.body:
                if isinstance(st, ast.Assign) and len(st.targets) == 1 and isinstance(st.targets[0], ast.Name) \
                        and isinstance(st.value, ast.Constant) and isinstance(st.value.value, int):
                    vals[st.targets[0].id] = st.value.value
            if not vals:
                break
            return vals
    raise ValueError("c05_epochs: tls.Epoch not found")


def _is_self_attr(node, name=None):
    return isinstance(node, ast.Attribute) and isinstance(node.value, ast.Name) and node.value.id == "self" \
        and (node.attr == name if name is not None else node.attr in TABLES)


def _epoch_const(node, vals, prefix):
    """tls.Epoch.X (prefix='tls') / Epoch.X (prefix=None) -> value"""
    if isinstance(node, ast.Attribute) and node.attr in vals:
        v = node.value
        if prefix is None and isinstance(v, ast.Name) and v.id == "Epoch":
            return vals[node.attr]
        if prefix is not None and isinstance(v, ast.Attribute) and v.attr == "Epoch" and isinstance(v.value, ast.Name) \
                and v.value.id == prefix:
            return vals[node.attr]
    return None


def _is_logger_call(st):
    if not isinstance(st, ast.Expr) or not isinstance(st.value, ast.Call):
        return False
    f = st.value.func
    while isinstance(f, ast.Attribute):
        if isinstance(f.value, ast.Attribute) and f.value.attr in ("_logger", "_quic_logger"):
            return True
        f = f.value
    return False


def _methods(tree, cls):
    for n in tree.body:
        if isinstance(n, ast.ClassDef) and n.name == cls:
            return {m.name: m for m in n.body if isinstance(m, ast.FunctionDef)}
    raise ValueError("c05_epochs: class %s not found" % cls)


def _mentions_table(node):
    return any(_is_self_attr(c) for c in ast.walk(node))


# ---------------------------------------------------------------------------------------------------- _initialize / __init__
def _ctor_tables(fn):
    seen = set()
    for st in ast.walk(fn):
        tgt = None
        if isinstance(st, ast.AnnAssign):
            tgt, val = st.target, st.value
        elif isinstance(st, ast.Assign) and len(st.targets) == 1:
            tgt, val = st.targets[0], st.value
        if tgt is not None and _is_self_attr(tgt):
            if not (isinstance(val, ast.Dict) and not val.keys):
                raise ValueError("c05_epochs: __init__: self.%s is not created as {}" % tgt.attr)
            seen.add(tgt.attr)
    if seen != set(TABLES):
        raise ValueError("c05_epochs: __init__ creates %s, expected all of %s" % (sorted(seen), sorted(TABLES)))


def _init_keys(fn, vals):
    keys = {}
    for st in fn.body:
        if _is_logger_call(st):
            continue
        if isinstance(st, ast.Assign) and len(st.targets) == 1 and _is_self_attr(st.targets[0]):
            name, v = st.targets[0].attr, st.value
            ks = None
            if isinstance(v, ast.Dict):
                ks = [_epoch_const(k, vals, "tls") for k in v.keys]
            elif isinstance(v, ast.Call) and isinstance(v.func, ast.Name) and v.func.id == "dict" and len(v.args) == 1 \
                    and not v.keywords and isinstance(v.args[0], ast.GeneratorExp):
                g = v.args[0]
                if len(g.generators) == 1 and not g.generators[0].ifs and isinstance(g.generators[0].target, ast.Name) \
                        and isinstance(g.elt, ast.Tuple) and len(g.elt.elts) == 2 and isinstance(g.elt.elts[0], ast.Name) \
                        and g.elt.elts[0].id == g.generators[0].target.id \
                        and isinstance(g.generators[0].iter, (ast.Tuple, ast.List)):
                    ks = [_epoch_const(k, vals, "tls") for k in g.generators[0].iter.elts]
            if ks is None or any(k is None for k in ks):
                raise ValueError("c05_epochs: _initialize: unrecognised constructor of self.%s: %s" % (name, ast.unparse(v)))
            if name in keys:
                raise ValueError("c05_epochs: _initialize assigns self.%s twice" % name)
            keys[name] = ks
        elif isinstance(st, ast.Assign) and len(st.targets) == 1 and isinstance(st.targets[0], ast.Subscript) \
                and _is_self_attr(st.targets[0].value):
            name = st.targets[0].value.attr
            k = _epoch_const(st.targets[0].slice, vals, "tls")
            if k is None or name not in keys:
                raise ValueError("c05_epochs: _initialize: unrecognised store %s" % ast.unparse(st))
            if k not in keys[name]:
                keys[name].append(k)
        else:
            # anything else must not assign / delete / mutate a table (reads are listed in epoch_sites)
            for c in ast.walk(st):
                if isinstance(c, (ast.Assign, ast.AugAssign, ast.AnnAssign, ast.Delete)):
                    tg = c.targets if isinstance(c, (ast.Assign, ast.Delete)) else [c.target]
                    for t in tg:
                        base = t.value if isinstance(t, ast.Subscript) else t
                        if _is_self_attr(base):
                            raise ValueError("c05_epochs: _initialize: unrecognised table statement %s" % ast.unparse(c))
                if isinstance(c, ast.Call) and isinstance(c.func, ast.Attribute) and c.func.attr in DICT_MUTATORS \
                        and _is_self_attr(c.func.value):
                    raise ValueError("c05_epochs: _initialize: unrecognised table mutation %s" % ast.unparse(c))
    if set(keys) != set(TABLES):
        raise ValueError("c05_epochs: _initialize creates %s, expected all of %s" % (sorted(keys), sorted(TABLES)))
    return keys


# ---------------------------------------------------------------------------------------------------- _discard_epoch
def _sub_epoch(node, table):
    """self.<table>[epoch]"""
    return isinstance(node, ast.Subscript) and _is_self_attr(node.value, table) and isinstance(node.slice, ast.Name) \
        and node.slice.id == "epoch"


def _discard_program(fn, vals):
    if [a.arg for a in fn.args.args] != ["self", "epoch"]:
        raise ValueError("c05_epochs: _discard_epoch: unexpected parameters")
    body = [st for st in fn.body if not _is_logger_call(st)
            and not (isinstance(st, ast.Expr) and isinstance(st.value, ast.Constant))]
    if len(body) != 1 or not isinstance(body[0], ast.If) or body[0].orelse:
        raise ValueError("c05_epochs: _discard_epoch: the body is not one `if not self._spaces[epoch].discarded:`")
    t = body[0].test
    if not (isinstance(t, ast.UnaryOp) and isinstance(t.op, ast.Not) and isinstance(t.operand, ast.Attribute)
            and t.operand.attr == "discarded" and _sub_epoch(t.operand.value, "_spaces")):
        raise ValueError("c05_epochs: _discard_epoch: unexpected guard %s" % ast.unparse(t))
    prog = []
    for st in body[0].body:
        if _is_logger_call(st):
            continue
        # self._cryptos[epoch].teardown()
        if isinstance(st, ast.Expr) and isinstance(st.value, ast.Call) and isinstance(st.value.func, ast.Attribute):
            c = st.value
            f = c.func
            if f.attr == "teardown" and _sub_epoch(f.value, "_cryptos") and not c.args and not c.keywords:
                prog.append("DTeardown")
                continue
            if f.attr == "discard_space" and ast.unparse(f.value) == "self._loss" and len(c.args) == 1 \
                    and _sub_epoch(c.args[0], "_spaces") and not c.keywords:
                prog.append("DLossDiscard")
                continue
            if f.attr == "pop" and _is_self_attr(f.value) and not c.keywords and 1 <= len(c.args) <= 2 \
                    and isinstance(c.args[0], ast.Name) and c.args[0].id == "epoch":
                prog.append("%s %s" % ("DPop" if len(c.args) == 2 else "DDel", TABLES[f.value.attr]))
                continue
        if isinstance(st, ast.Delete) and len(st.targets) == 1 and isinstance(st.targets[0], ast.Subscript) \
                and _is_self_attr(st.targets[0].value) and isinstance(st.targets[0].slice, ast.Name) \
                and st.targets[0].slice.id == "epoch":
            prog.append("DDel %s" % TABLES[st.targets[0].value.attr])
            continue
        if isinstance(st, ast.Assign) and len(st.targets) == 1 and isinstance(st.targets[0], ast.Attribute) \
                and st.targets[0].attr == "discarded" and _sub_epoch(st.targets[0].value, "_spaces") \
                and isinstance(st.value, ast.Constant) and st.value.value is True:
            prog.append("DMarkDiscarded")
            continue
        if isinstance(st, ast.If) and not st.orelse and isinstance(st.test, ast.Compare) and len(st.test.ops) == 1 \
                and isinstance(st.test.ops[0], ast.Eq) and isinstance(st.test.left, ast.Name) and st.test.left.id == "epoch" \
                and _epoch_const(st.test.comparators[0], vals, "tls") == vals["INITIAL"] \
                and len(st.body) == 1 and isinstance(st.body[0], ast.For) \
                and ast.unparse(st.body[0].iter) == "self._cryptos_initial.values()" and not _mentions_table(st):
            prog.append("DTeardownInitials")
            continue
        raise ValueError("c05_epochs: _discard_epoch: unrecognised statement `%s`" % ast.unparse(st))
    return prog


# ---------------------------------------------------------------------------------------------------- listings
def _table_sites(tree):
    """(mutating statements, other mentions), each 'Class.func: text' in source order"""
    muts, uses = [], []
    for cls in tree.body:
        if not isinstance(cls, ast.ClassDef):
            continue
        for fn in cls.body:
            if not isinstance(fn, ast.FunctionDef):
                continue
            q = "%s.%s" % (cls.name, fn.name)
            parents = {}
            for p in ast.walk(fn):
                for ch in ast.iter_child_nodes(p):
                    parents[ch] = p
            mut_nodes = []
            for st in ast.walk(fn):
                tg = []
                if isinstance(st, (ast.Assign, ast.Delete)):
                    tg = st.targets
                elif isinstance(st, (ast.AugAssign, ast.AnnAssign)):
                    tg = [st.target]
                hit = False
                for t in tg:
                    base = t.value if isinstance(t, ast.Subscript) else t
                    if _is_self_attr(base):
                        hit = True
                if isinstance(st, ast.Expr) and isinstance(st.value, ast.Call) and isinstance(st.value.func, ast.Attribute) \
                        and st.value.func.attr in DICT_MUTATORS and _is_self_attr(st.value.func.value):
                    hit = True
                if hit:
                    mut_nodes.append(st)
            # a mutator call hidden inside a larger expression (x = self._T.pop(...)) is not a statement of the forms above
            for c in ast.walk(fn):
                if isinstance(c, ast.Call) and isinstance(c.func, ast.Attribute) and c.func.attr in DICT_MUTATORS \
                        and _is_self_attr(c.func.value):
                    p = parents.get(c)
                    if not (isinstance(p, ast.Expr) and p in mut_nodes):
                        st = c
                        while st in parents and not isinstance(st, ast.stmt):
                            st = parents[st]
                        if st not in mut_nodes:
                            mut_nodes.append(st)
            mut_nodes.sort(key=lambda s: (s.lineno, s.col_offset))
            covered = set()
            for st in mut_nodes:
                text = ast.unparse(st)
                if isinstance(st, ast.Assign) and isinstance(st.value, (ast.Dict, ast.Call)) and _is_self_attr(st.targets[0]):
                    text = "%s = <constructor>" % ast.unparse(st.targets[0])     # keys are INIT_*
                muts.append("%s: %s" % (q, " ".join(text.split())))
                tg = st.targets if isinstance(st, (ast.Assign, ast.Delete)) else \
                    [st.target] if isinstance(st, (ast.AugAssign, ast.AnnAssign)) else []
                for t in tg:
                    for c in ast.walk(t):
                        covered.add(c)
                if isinstance(st, ast.Expr):
                    for c in ast.walk(st):
                        covered.add(c)
            occ = [n for n in ast.walk(fn) if _is_self_attr(n) and n not in covered]
            occ.sort(key=lambda s: (s.lineno, s.col_offset))
            for n in occ:
                p = parents.get(n)
                if isinstance(p, ast.Subscript) and p.value is n:
                    text = ast.unparse(p)
                elif isinstance(p, ast.Attribute):                        # self._T.items() / .values() / .keys() / .get
                    pp = parents.get(p)
                    text = ast.unparse(pp) if isinstance(pp, ast.Call) and pp.func is p else ast.unparse(p)
                elif isinstance(p, ast.Call):                             # passed as an argument
                    text = "%s(.. %s ..)" % (ast.unparse(p.func), ast.unparse(n))
                elif isinstance(p, ast.keyword):
                    text = "%s=%s" % (p.arg, ast.unparse(n))
                else:
                    text = "%s in <%s>" % (ast.unparse(n), type(p).__name__)
                uses.append("%s: %s" % (q, " ".join(text.split())))
    return muts, uses


def _call_sites(tree):
    """every call of the methods that create / discard / walk the tables, with the calling function"""
    names = ("_initialize", "_discard_epoch", "_push_crypto_data", "_close_end")
    out = []
    for cls in tree.body:
        if not isinstance(cls, ast.ClassDef):
            continue
        for fn in cls.body:
            if not isinstance(fn, ast.FunctionDef):
                continue
            calls = [c for c in ast.walk(fn) if isinstance(c, ast.Call) and isinstance(c.func, ast.Attribute)
                     and c.func.attr in names]
            calls.sort(key=lambda c: (c.lineno, c.col_offset))
            for c in calls:
                out.append("%s.%s: %s" % (cls.name, fn.name, " ".join(ast.unparse(c).split())))
            # a bound-method reference that is not called here (a callback) must be visible too
            for n in ast.walk(fn):
                if isinstance(n, ast.Attribute) and n.attr in names and not any(c.func is n for c in calls):
                    out.append("%s.%s: <reference> %s" % (cls.name, fn.name, ast.unparse(n)))
    return out


# ---------------------------------------------------------------------------------------------------- tls.py
def _tls_epochs(tls_tree, vals):
    ms = _methods(tls_tree, "Context")
    out = set()
    dict_funcs = []
    for name, fn in ms.items():
        for a in fn.args.args:
            if a.arg == "output_buf" and a.annotation is not None and ast.unparse(a.annotation).startswith("dict["):
                dict_funcs.append(fn)
    if len(dict_funcs) < 1:
        raise ValueError("c05_epochs: tls.py: no method takes output_buf: dict[Epoch, Buffer]")
    dict_names = {f.name for f in dict_funcs}
    for fn in dict_funcs:
        parents = {}
        for p in ast.walk(fn):
            for ch in ast.iter_child_nodes(p):
                parents[ch] = p
        for n in ast.walk(fn):
            if isinstance(n, ast.Name) and n.id == "output_buf":
                p = parents[n]
                if isinstance(p, ast.Subscript) and p.value is n:
                    k = _epoch_const(p.slice, vals, None)
                    if k is None:
                        raise ValueError("c05_epochs: tls.py %s: output_buf[%s] is not a constant epoch"
                                         % (fn.name, ast.unparse(p.slice)))
                    out.add(k)
                elif isinstance(p, ast.keyword) and p.arg == "output_buf":
                    call = parents[p]
                    if not (isinstance(call, ast.Call) and isinstance(call.func, ast.Attribute)
                            and call.func.attr in dict_names):
                        raise ValueError("c05_epochs: tls.py %s: output_buf handed to %s" % (fn.name, ast.unparse(call.func)))
                else:
                    raise ValueError("c05_epochs: tls.py %s: unexpected use of the output_buf dict: %s"
                                     % (fn.name, ast.unparse(p)))
    keys = set()
    for n in ast.walk(tls_tree):
        if isinstance(n, ast.Call):
            for a in list(n.args) + [k.value for k in n.keywords]:
                k = _epoch_const(a, vals, None)
                if k is not None:
                    keys.add(k)
    # the callback's epoch argument is a constant or the parameter of _setup_traffic_protection
    for name, fn in ms.items():
        for n in ast.walk(fn):
            if isinstance(n, ast.Call) and isinstance(n.func, ast.Attribute) and n.func.attr == "update_traffic_key_cb":
                if len(n.args) < 2:
                    raise ValueError("c05_epochs: tls.py %s: update_traffic_key_cb call without epoch" % name)
                a = n.args[1]
                if _epoch_const(a, vals, None) is None and not (
                        isinstance(a, ast.Name) and a.id in [x.arg for x in fn.args.args]
                        and name == "_setup_traffic_protection"):
                    raise ValueError("c05_epochs: tls.py %s: update_traffic_key_cb(%s)" % (name, ast.unparse(a)))
    return sorted(out), sorted(keys)


def read():
    conn = _parse(os.path.join("quic", "connection.py"))
    tls_tree = _parse("tls.py")
    vals = _epoch_values(tls_tree)
    for need in ("INITIAL", "ZERO_RTT", "HANDSHAKE", "ONE_RTT"):
        if need not in vals:
            raise ValueError("c05_epochs: tls.Epoch.%s missing" % need)
    ms = _methods(conn, "QuicConnection")
    for need in ("__init__", "_initialize", "_discard_epoch"):
        if need not in ms:
            raise ValueError("c05_epochs: QuicConnection.%s not found" % need)
    _ctor_tables(ms["__init__"])
    keys = _init_keys(ms["_initialize"], vals)
    prog = _discard_program(ms["_discard_epoch"], vals)
    muts, uses = _table_sites(conn)
    calls = _call_sites(conn)
    tls_out, tls_keys = _tls_epochs(tls_tree, vals)
    return dict(keys=keys, prog=prog, muts=muts, uses=uses, calls=calls, tls_out=tls_out, tls_keys=tls_keys)


def _q(s):
    return '"%s"' % s.replace('"', '""')


def _zl(l):
    return "[" + "; ".join(str(x) for x in l) + "]"


def render(t):
    L = ["(* GENERATED by tools/gen/c05_epochs.py from src/aioquic/quic/connection.py and src/aioquic/tls.py -- do not edit. *)",
         "From Coq Require Import ZArith List String.", "Import ListNotations.", "Open Scope Z_scope.", "",
         "(* the four epoch-keyed dicts of QuicConnection *)",
         "Inductive tab : Set := TCryptos | TBuffers | TStreams | TSpaces.",
         "(* statements of _discard_epoch inside `if not self._spaces[epoch].discarded:` *)",
         "Inductive dop : Set :=",
         "| DTeardown            (* self._cryptos[epoch].teardown() *)",
         "| DTeardownInitials    (* if epoch == INITIAL: tear down every pair of _cryptos_initial *)",
         "| DLossDiscard         (* self._loss.discard_space(self._spaces[epoch]) *)",
         "| DMarkDiscarded       (* self._spaces[epoch].discarded = True *)",
         "| DPop (t : tab)       (* self.<t>.pop(epoch, default) *)",
         "| DDel (t : tab).      (* del self.<t>[epoch] / self.<t>.pop(epoch) *)",
         "",
         "(* keys created by _initialize, in creation order *)",
         "Definition INIT_CRYPTOS : list Z := %s." % _zl(t["keys"]["_cryptos"]),
         "Definition INIT_BUFFERS : list Z := %s." % _zl(t["keys"]["_crypto_buffers"]),
         "Definition INIT_STREAMS : list Z := %s." % _zl(t["keys"]["_crypto_streams"]),
         "Definition INIT_SPACES : list Z := %s." % _zl(t["keys"]["_spaces"]),
         "",
         "Definition DISCARD_BODY : list dop := [%s]." % "; ".join(t["prog"]),
         "",
         "(* tls.py: output_buf[Epoch.X] subscripts; Epoch.X call arguments *)",
         "Definition TLS_OUTPUT_EPOCHS : list Z := %s." % _zl(t["tls_out"]),
         "Definition TLS_KEY_EPOCHS : list Z := %s." % _zl(t["tls_keys"]),
         "",
         "Open Scope string_scope.",
         "Definition epoch_sites : list (string * list string) := ["]
    rows = []
    for title, ss in (("statements that assign or mutate a table", t["muts"]), ("other mentions of a table", t["uses"]),
                      ("calls of _initialize / _discard_epoch / _push_crypto_data / _close_end", t["calls"])):
        rows.append("  (%s, [\n    %s])" % (_q(title), ";\n    ".join(_q(s) for s in ss)))
    L.append(";\n".join(rows))
    L.append("].")
    L.append("Close Scope string_scope.")
    L.append("")
    return "\n".join(L)


def generate():
    text = render(read())
    out = os.path.join(ROOT, "coq", "gen", "C05Epochs.v")
    os.makedirs(os.path.dirname(out), exist_ok=True)
    try:
        if open(out).read() == text:
            return out
    except FileNotFoundError:
        pass
    tmp = out + ".tmp%d" % os.getpid()
    with open(tmp, "w") as f:
        f.write(text)
    os.replace(tmp, out)
    return out


if __name__ == "__main__":
    print(generate())
    print(open(os.path.join(ROOT, "coq", "gen", "C05Epochs.v")).read())
