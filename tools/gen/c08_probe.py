"""C08 generator: where QuicConnection._probe_pending is SET, READ and CLEARED, with the guards, from the AST of the
*current* source tree -> coq/gen/C08Probe.v.

The probe allowance of the flight budget ("one probe datagram per timeout") lives in one boolean: set by the loss-recovery
timeout (send_probe callback), read by the budget computation of datagrams_to_send (raises max_flight_bytes to one datagram)
and cleared by the frame writers where the probe is written.  model/ProbeBudget.v interprets the guards and statement
lists emitted here; proofs/ProbeBudgetProofs.v pins them by reflexivity, so a change of WHERE the flag is cleared (or under
which guard, or in which order relative to the other frame writers) regenerates this file and breaks a proof.

Fail closed (raise -> the output is deleted, the dependents stop compiling): any occurrence of `_probe_pending` or
`_send_probe` or `reschedule_data` outside the recognised places, a statement of an unknown kind inside one of the guarded
bodies or loops, a changed shape of the budget computation.  Guards themselves are translated structurally; an unknown
sub-expression becomes an opaque atom `AOther k` (the model then treats it as an arbitrary boolean and the pin lemma fails)."""
import ast
import os

OUTPUTS = ["gen/C08Probe.v"]

ROOT = os.path.dirname(os.path.dirname(os.path.dirname(os.path.abspath(__file__))))
REPO = os.environ.get("VERIF_REPO", "/repo")
SRC = "src/aioquic"
CONN = "src/aioquic/quic/connection.py"
RECO = "src/aioquic/quic/recovery.py"


class Bad(ValueError):
    pass


def _need(cond, msg):
    if not cond:
        raise Bad("c08_probe: " + msg)


def _u(node):
    return ast.unparse(node)


def _is_self_attr(node, name):
    return isinstance(node, ast.Attribute) and node.attr == name and isinstance(node.value, ast.Name) and node.value.id == "self"


class _Guards:
    def __init__(self):
        self.others = []

    def tr(self, n):
        if isinstance(n, ast.BoolOp):
            op = "GAnd" if isinstance(n.op, ast.And) else "GOr"
            parts = [self.tr(v) for v in n.values]
            out = parts[-1]
            for q in reversed(parts[:-1]):
                out = "(%s %s %s)" % (op, q, out)
            return out
        if isinstance(n, ast.UnaryOp) and isinstance(n.op, ast.Not):
            return "(GNot %s)" % self.tr(n.operand)
        src = _u(n)
        table = {
            "self._probe_pending": "APending",
            "builder.max_flight_bytes < self._max_datagram_size": "ALowBudget",
            "self._handshake_complete": "AHandshakeComplete",
            "epoch == tls.Epoch.HANDSHAKE": "AEpochHandshake",
            "self._cryptos[tls.Epoch.HANDSHAKE].send.is_valid()": "AHandshakeKeys",
        }
        if src in table:
            return "(GAtom %s)" % table[src]
        if isinstance(n, ast.Call) and _is_self_attr(n.func, "_write_crypto_frame"):
            return "(GAtom ACryptoWritten)"
        self.others.append(src)
        return "(GAtom (AOther %d))" % (len(self.others) - 1)


def _func(cls, name):
    fs = [n for n in cls.body if isinstance(n, ast.FunctionDef) and n.name == name]
    _need(len(fs) == 1, "expected exactly one method %s" % name)
    return fs[0]


def _mentions(node, attr):
    return [n for n in ast.walk(node) if isinstance(n, ast.Attribute) and n.attr == attr]


def _body_stmts(stmts, g):
    """statement list of a guarded body -> pstmt names"""
    out = []
    for st in stmts:
        src = _u(st)
        if isinstance(st, ast.Expr) and isinstance(st.value, ast.Call) and _is_self_attr(st.value.func, "_write_ping_frame"):
            out.append("SPing")
        elif src == "self._probe_pending = False":
            out.append("SClear")
        elif src == "self._probe_pending = True":
            out.append("SSet")
        elif src == "builder.max_flight_bytes = self._max_datagram_size":
            out.append("SRaiseBudget")
        else:
            raise Bad("c08_probe: unknown statement in a probe branch: %s" % src[:100])
    return out


def _writers(stmts):
    """names of the frame writers (self._write_* methods, builder.start_frame) called by these statements, in source order"""
    out = []
    for st in stmts:
        calls = [n for n in ast.walk(st) if isinstance(n, ast.Call)]
        calls.sort(key=lambda n: (n.lineno, n.col_offset))
        for n in calls:
            f = n.func
            if isinstance(f, ast.Attribute) and isinstance(f.value, ast.Name) and f.value.id == "self" and f.attr.startswith("_write_"):
                out.append(f.attr)
            elif isinstance(f, ast.Attribute) and f.attr == "start_frame":
                out.append("start_frame")
    return out


def _while_body(fn):
    ws = [n for n in fn.body if isinstance(n, ast.While)]
    _need(len(ws) == 1 and _u(ws[0].test) == "True" and not ws[0].orelse, "%s: expected one top-level `while True:`" % fn.name)
    _need(fn.body[-1] is ws[0], "%s: the packet loop is not the last statement" % fn.name)
    return ws[0].body


def probe():
    conn_src = open(os.path.join(REPO, CONN)).read()
    reco_src = open(os.path.join(REPO, RECO)).read()
    conn = ast.parse(conn_src)
    reco = ast.parse(reco_src)
    g = _Guards()
    facts = {}

    # ---- every occurrence of the three names in the whole package
    occ = {"_probe_pending": [], "_send_probe": [], "reschedule_data": []}
    for dp, _dn, fns in sorted(os.walk(os.path.join(REPO, SRC))):
        for fn in sorted(fns):
            if not fn.endswith(".py"):
                continue
            rel = os.path.relpath(os.path.join(dp, fn), REPO)
            tree = ast.parse(open(os.path.join(dp, fn)).read())
            for top in ast.walk(tree):
                if not isinstance(top, (ast.FunctionDef, ast.AsyncFunctionDef)):
                    continue
                for n in ast.walk(top):
                    if n is top:
                        continue
                    if isinstance(n, (ast.FunctionDef, ast.AsyncFunctionDef, ast.Lambda)) and n is not top:
                        continue
                    if isinstance(n, ast.Attribute) and n.attr in occ:
                        occ[n.attr].append((rel, top.name, type(n.ctx).__name__, n.lineno))
                    if isinstance(n, ast.Name) and n.id in occ:
                        occ[n.id].append((rel, top.name, "Name", n.lineno))
            # string-based access (getattr / setattr / __dict__) would escape the AST probe
            txt = open(os.path.join(dp, fn)).read()
            for name in ("_probe_pending", "_send_probe"):
                for quote in ("'", '"'):
                    _need(quote + name + quote not in txt, "%s: %s accessed by name string" % (rel, name))
    # nested functions are walked twice (once per enclosing def): de-duplicate on (file, line, ctx)
    for k in occ:
        seen, out = set(), []
        for o in occ[k]:
            key = (o[0], o[2], o[3])
            if key not in seen:
                seen.add(key)
                out.append(o)
        occ[k] = out
    pp = sorted((f, fn, ctx) for f, fn, ctx, _l in occ["_probe_pending"])
    want_pp = sorted([(CONN, "__init__", "Store"), (CONN, "datagrams_to_send", "Load"), (CONN, "_send_probe", "Store"),
                      (CONN, "_write_application", "Load"), (CONN, "_write_application", "Store"),
                      (CONN, "_write_handshake", "Load"), (CONN, "_write_handshake", "Store"), (CONN, "_write_handshake", "Store")])
    _need(pp == want_pp, "occurrences of _probe_pending changed: %r" % (pp,))
    sp = sorted((f, fn, ctx) for f, fn, ctx, _l in occ["_send_probe"])
    want_sp = sorted([(CONN, "__init__", "Load"), (RECO, "__init__", "Store"), (RECO, "reschedule_data", "Load")])
    _need(sp == want_sp, "occurrences of _send_probe changed: %r" % (sp,))
    rd = sorted((f, fn) for f, fn, _c, _l in occ["reschedule_data"])
    want_rd = sorted([(RECO, "on_loss_detection_timeout"), (CONN, "receive_datagram"), (CONN, "_handle_crypto_frame")])
    _need(rd == want_rd, "callers of reschedule_data changed: %r" % (rd,))

    qc = [n for n in conn.body if isinstance(n, ast.ClassDef) and n.name == "QuicConnection"]
    _need(len(qc) == 1, "class QuicConnection not found")
    qc = qc[0]
    qr = [n for n in reco.body if isinstance(n, ast.ClassDef) and n.name == "QuicPacketRecovery"]
    _need(len(qr) == 1, "class QuicPacketRecovery not found")
    qr = qr[0]

    # ---- SET: _send_probe, its registration, reschedule_data, the timeout
    f = _func(qc, "_send_probe")
    facts["send_probe_body"] = _body_stmts(f.body, g)
    init = _func(qc, "__init__")
    reg = [n for n in ast.walk(init) if isinstance(n, ast.keyword) and n.arg == "send_probe"]
    _need(len(reg) == 1 and _u(reg[0].value) == "self._send_probe", "send_probe= registration changed")
    inits = [st for st in init.body if _u(st) == "self._probe_pending = False"]
    _need(len(inits) == 1, "__init__ does not initialise _probe_pending = False at top level")
    rinit = _func(qr, "__init__")
    _need(any(_u(st) == "self._send_probe = send_probe" for st in rinit.body), "QuicPacketRecovery.__init__: send_probe not stored")
    rs = _func(qr, "reschedule_data")
    calls = [i for i, st in enumerate(rs.body) if _u(st) == "self._send_probe()"]
    _need(calls == [len(rs.body) - 1], "reschedule_data: self._send_probe() is not its unconditional last statement")
    _need(not any(isinstance(n, (ast.Return, ast.Raise)) for n in ast.walk(rs)), "reschedule_data: early exit before send_probe")
    to = _func(qr, "on_loss_detection_timeout")
    _need(len(to.body) == 2 and isinstance(to.body[1], ast.If) and _u(to.body[1].test) == "loss_space is not None",
          "on_loss_detection_timeout: shape changed")
    _need(not _mentions(ast.Module(body=to.body[1].body, type_ignores=[]), "reschedule_data"), "loss branch reschedules")
    els = [_u(st) for st in to.body[1].orelse]
    _need(els == ["self._pto_count += 1", "self.reschedule_data(now=now)"], "on_loss_detection_timeout: PTO branch changed: %r" % els)
    # the two one-shot early retransmissions: `if ... and not self._crypto_retransmitted: reschedule_data(); flag = True`
    oneshot = 0
    for fn_name in ("receive_datagram", "_handle_crypto_frame"):
        fn = _func(qc, fn_name)
        for n in ast.walk(fn):
            if isinstance(n, ast.If) and any(_u(st).startswith("self._loss.reschedule_data(") for st in n.body):
                body = [_u(st) for st in n.body]
                _need(len(body) == 2 and body[1] == "self._crypto_retransmitted = True", "%s: early retransmission body changed" % fn_name)
                _need(isinstance(n.test, ast.BoolOp) and isinstance(n.test.op, ast.And)
                      and "not self._crypto_retransmitted" in [_u(v) for v in n.test.values],
                      "%s: early retransmission not guarded by `not self._crypto_retransmitted`" % fn_name)
                oneshot += 1
    _need(oneshot == 2, "expected two one-shot early retransmission sites, found %d" % oneshot)
    facts["oneshot_sites"] = oneshot
    ht = _func(qc, "handle_timer")
    lt = [n for n in ast.walk(ht) if isinstance(n, ast.Call) and _u(n.func) == "self._loss.on_loss_detection_timeout"]
    _need(len(lt) == 1, "handle_timer: on_loss_detection_timeout call changed")

    # ---- READ: the budget computation of datagrams_to_send
    dts = _func(qc, "datagrams_to_send")
    top_if = [st for st in dts.body if isinstance(st, ast.If) and _u(st.test) == "self._close_pending"]
    _need(len(top_if) == 1, "datagrams_to_send: `if self._close_pending:` not found at top level")
    _need(not _mentions(ast.Module(body=top_if[0].body, type_ignores=[]), "_probe_pending"), "close round reads _probe_pending")
    _need(not _mentions(ast.Module(body=top_if[0].body, type_ignores=[]), "max_flight_bytes"), "close round sets a flight budget")
    els = top_if[0].orelse
    idx = [i for i, st in enumerate(els) if isinstance(st, ast.If) and _mentions(st.test, "_probe_pending")]
    _need(len(idx) == 1 and idx[0] >= 1, "datagrams_to_send: probe rule not found in the else branch")
    rule = els[idx[0]]
    _need(_u(els[idx[0] - 1]) == "builder.max_flight_bytes = self._loss.congestion_window - self._loss.bytes_in_flight",
          "datagrams_to_send: base budget is no longer congestion_window - bytes_in_flight: %s" % _u(els[idx[0] - 1])[:120])
    _need(not rule.orelse, "probe rule has an else branch")
    facts["dts_budget_guard"] = g.tr(rule.test)
    facts["dts_budget_body"] = _body_stmts(rule.body, g)
    other_mf = [n for st in els[idx[0] + 1:] for n in ast.walk(st) if isinstance(n, ast.Attribute) and n.attr == "max_flight_bytes"]
    _need(not other_mf, "datagrams_to_send: max_flight_bytes touched again after the probe rule")
    tries = [st for st in els[idx[0] + 1:] if isinstance(st, ast.Try)]
    _need(len(tries) == 1 and len(tries[0].handlers) == 1 and _u(tries[0].handlers[0].type) == "QuicPacketBuilderStop"
          and [_u(x) for x in tries[0].handlers[0].body] == ["pass"] and not tries[0].finalbody and not tries[0].orelse,
          "datagrams_to_send: try/except QuicPacketBuilderStop shape changed")
    tb = tries[0].body
    _need(len(tb) == 2 and isinstance(tb[0], ast.If) and _u(tb[0].test) == "not self._handshake_confirmed"
          and _u(tb[0].body[0]).replace("\n", " ").startswith("for epoch in [tls.Epoch.INITIAL, tls.Epoch.HANDSHAKE]:")
          and "self._write_handshake(builder, epoch, now)" in _u(tb[0].body[0]) and len(tb[0].body) == 1 and not tb[0].orelse
          and _u(tb[1]) == "self._write_application(builder, network_path, now)",
          "datagrams_to_send: order of _write_handshake / _write_application changed")
    rest = [st for st in dts.body[dts.body.index(top_if[0]) + 1:]]
    _need(not _mentions(ast.Module(body=rest, type_ignores=[]), "_probe_pending"), "datagrams_to_send touches the flag after building")

    # ---- CLEAR 1: _write_application
    wa = _func(qc, "_write_application")
    body = _while_body(wa)
    starts = [i for i, st in enumerate(body) if _u(st).startswith("builder.start_packet(")]
    _need(len(starts) == 1, "_write_application: start_packet is not a direct statement of the loop")
    pidx = [i for i, st in enumerate(body) if _mentions(st, "_probe_pending")]
    _need(len(pidx) == 1 and isinstance(body[pidx[0]], ast.If) and pidx[0] > starts[0],
          "_write_application: the probe branch is not one direct `if` of the packet loop after start_packet")
    pif = body[pidx[0]]
    _need(not pif.orelse, "_write_application: probe branch has an else")
    facts["app_probe_guard"] = g.tr(pif.test)
    facts["app_probe_body"] = _body_stmts(pif.body, g)
    facts["app_before_start"] = ["break" if any(isinstance(n, ast.Break) for n in ast.walk(st)) else "other" for st in body[:starts[0]]]
    facts["app_writers_before"] = _writers(body[starts[0] + 1:pidx[0]])
    facts["app_writers_after"] = _writers(body[pidx[0] + 1:])
    last = body[-1]
    _need(isinstance(last, ast.If) and _u(last.test) == "builder.packet_is_empty" and [_u(x) for x in last.body] == ["break"],
          "_write_application: loop does not end with `if builder.packet_is_empty: break`")
    # no handler between start_packet and the probe may swallow QuicPacketBuilderStop
    for st in body[starts[0] + 1:pidx[0] + 1]:
        _need(not any(isinstance(n, ast.Try) for n in ast.walk(st)), "_write_application: try block ahead of the probe PING")
    pre = [_u(st) for st in wa.body[:-1]]
    facts["app_prologue_returns"] = sum(1 for st in wa.body[:-1] for n in ast.walk(st) if isinstance(n, ast.Return))

    # ---- CLEAR 2, 3: _write_handshake
    wh = _func(qc, "_write_handshake")
    hb = _while_body(wh)
    order = []
    for st in hb:
        src = _u(st)
        if src.startswith("builder.start_packet("):
            order.append(1)
        elif isinstance(st, ast.Assign) or (isinstance(st, ast.If) and "packet_type" in src and not _writers([st])):
            order.append(0)                    # packet_type selection
        elif isinstance(st, ast.If) and _writers([st]) == ["_write_ack_frame"] and not _mentions(st, "_probe_pending"):
            order.append(2)
        elif isinstance(st, ast.If) and _writers([st]) == ["_write_crypto_frame"]:
            _need(len(st.body) == 1 and isinstance(st.body[0], ast.If) and not st.orelse and not st.body[0].orelse,
                  "_write_handshake: CRYPTO branch shape changed")
            facts["hs_crypto_guard"] = g.tr(st.body[0].test)
            facts["hs_crypto_body"] = _body_stmts(st.body[0].body, g)
            order.append(3)
        elif isinstance(st, ast.If) and _mentions(st.test, "_probe_pending"):
            _need(not st.orelse, "_write_handshake: probe branch has an else")
            facts["hs_probe_guard"] = g.tr(st.test)
            facts["hs_probe_body"] = _body_stmts(st.body, g)
            order.append(5)
        elif isinstance(st, ast.If) and src.replace("\n", " ").startswith("if builder.packet_is_empty:") and [_u(x) for x in st.body] == ["break"]:
            order.append(9)
        else:
            raise Bad("c08_probe: _write_handshake: unknown statement in the packet loop: %s" % src[:100])
    _need("hs_crypto_guard" in facts and "hs_probe_guard" in facts, "_write_handshake: CRYPTO / probe branch not found")
    facts["hs_order"] = [c for c in order if c]
    _need(not any(isinstance(n, ast.Try) for n in ast.walk(wh)), "_write_handshake: try block")
    facts["others"] = g.others
    return facts


def _lst(xs, f=str):
    return "[" + "; ".join(f(x) for x in xs) + "]"


def render(facts):
    L = []
    A = L.append
    A("(* GENERATED by tools/gen/c08_probe.py from %s and %s -- do not edit.\n"
      "   Where QuicConnection._probe_pending is set, read and cleared, with the guards, as data. *)" % (CONN, RECO))
    A("From Coq Require Import ZArith List String.")
    A("Import ListNotations.")
    A("Open Scope Z_scope.")
    A("")
    A("Inductive patom :=")
    A("| APending               (* self._probe_pending *)")
    A("| ALowBudget             (* builder.max_flight_bytes < self._max_datagram_size *)")
    A("| AHandshakeComplete     (* self._handshake_complete *)")
    A("| AEpochHandshake        (* epoch == tls.Epoch.HANDSHAKE *)")
    A("| AHandshakeKeys         (* self._cryptos[tls.Epoch.HANDSHAKE].send.is_valid() *)")
    A("| ACryptoWritten         (* self._write_crypto_frame(...) returned True *)")
    A("| AOther (k : Z).        (* an expression this generator does not know: opaque *)")
    A("Inductive pguard := GAtom (a : patom) | GNot (g : pguard) | GAnd (a b : pguard) | GOr (a b : pguard).")
    A("Inductive pstmt :=")
    A("| SRaiseBudget           (* builder.max_flight_bytes = self._max_datagram_size *)")
    A("| SPing                  (* self._write_ping_frame(builder, comment=\"probe\") *)")
    A("| SClear                 (* self._probe_pending = False *)")
    A("| SSet.                  (* self._probe_pending = True *)")
    A("")
    for i, src in enumerate(facts["others"]):
        A("(* AOther %d = %s *)" % (i, src.replace("*)", "* )")))
    A("(* SET: QuicConnection._send_probe, registered as QuicPacketRecovery(send_probe=...); called only as the unconditional last")
    A("   statement of reschedule_data(); reschedule_data() is called by the PTO branch of on_loss_detection_timeout (after")
    A("   _pto_count += 1) and by [oneshot_sites] places of the receive path, each guarded by `not self._crypto_retransmitted`")
    A("   and followed by `self._crypto_retransmitted = True` *)")
    A("Definition send_probe_body : list pstmt := %s." % _lst(facts["send_probe_body"]))
    A("Definition oneshot_sites : Z := %d." % facts["oneshot_sites"])
    A("")
    A("(* READ: datagrams_to_send, else branch of `if self._close_pending`, right after")
    A("   builder.max_flight_bytes = self._loss.congestion_window - self._loss.bytes_in_flight *)")
    A("Definition dts_budget_guard : pguard := %s." % facts["dts_budget_guard"])
    A("Definition dts_budget_body : list pstmt := %s." % _lst(facts["dts_budget_body"]))
    A("")
    A("(* CLEAR: _write_application, one direct `if` of the packet loop *)")
    A("Definition app_probe_guard : pguard := %s." % facts["app_probe_guard"])
    A("Definition app_probe_body : list pstmt := %s." % _lst(facts["app_probe_body"]))
    A("(* statements of the loop ahead of start_packet (the pacing check can leave the loop) *)")
    A("Definition app_before_start : list string := %s." % _lst(facts["app_before_start"], lambda x: '"%s"%%string' % x))
    A("(* frame writers called between start_packet and the probe branch / after it, in source order: each can raise")
    A("   QuicPacketBuilderStop, which leaves _write_application *)")
    A("Definition app_writers_before : list string := %s." % _lst(facts["app_writers_before"], lambda x: '"%s"%%string' % x))
    A("Definition app_writers_after : list string := %s." % _lst(facts["app_writers_after"], lambda x: '"%s"%%string' % x))
    A("")
    A("(* CLEAR: _write_handshake; order of the packet loop: 1 start_packet, 2 ACK, 3 CRYPTO, 5 probe PING, 9 empty-packet break *)")
    A("Definition hs_order : list Z := %s." % _lst(facts["hs_order"]))
    A("Definition hs_crypto_guard : pguard := %s." % facts["hs_crypto_guard"])
    A("Definition hs_crypto_body : list pstmt := %s." % _lst(facts["hs_crypto_body"]))
    A("Definition hs_probe_guard : pguard := %s." % facts["hs_probe_guard"])
    A("Definition hs_probe_body : list pstmt := %s." % _lst(facts["hs_probe_body"]))
    return "\n".join(L) + "\n"


def generate():
    facts = probe()
    out = os.path.join(ROOT, "coq", "gen", "C08Probe.v")
    os.makedirs(os.path.dirname(out), exist_ok=True)
    txt = render(facts)
    if not os.path.exists(out) or open(out).read() != txt:
        with open(out, "w") as f:
            f.write(txt)
    return out


if __name__ == "__main__":
    print(generate())
