#!/usr/bin/env python3
"""C20 translator for one_record_per_packet: writes coq/gen/LogRecords.v.

From the CURRENT quic/connection.py and quic/packet_builder.py (Python `ast` only) it extracts the control
skeleton (model/LogRec.v's `ws`: events, unknown decisions, loops, exits) of

  writers          every method of QuicConnection that calls builder.start_frame(...): events
                   ("frame", type) for a start_frame that returned (it may instead raise QuicPacketBuilderStop:
                   a decision) and ("log", encoder) for `builder.quic_logger_frames.append(self._quic_logger.encode_X(..))`;
                   calls of other writers are inlined;
  handlers         every _handle_*_frame method: ("log", encoder) for `context.quic_logger_frames.append(...)`;
  recv_iteration   the body of receive_datagram's `while not buf.eof()` loop: ("drop", trigger) / ("recv", "")
                   for packet_dropped / packet_received records, ("decrypt_ok"/"decrypt_fail", "") around
                   crypto.decrypt_packet, ("handler", name) for the Version Negotiation / Retry handlers;
  vn_handler, retry_handler, sent_iteration (datagrams_to_send's loop over the packets returned by
  builder.flush()), end_packet (QuicPacketBuilder._end_packet).

The logger guard `if self._quic_logger is not None:` is taken (skeleton of a run WITH a logger).  Statements
without events and exits are dropped.  Exceptions raised implicitly by calls are NOT represented (between a
start_frame and its record: buf.push_* -- C13 proves the pushes fit the reserved capacity).
Also pinned here (Fail = the generated file is removed): every use of a `quic_logger_frames` list is one of the
known forms (so the lists only ever hold encoder results), flush() returns the list _end_packet appends to,
start_packet aliases builder.quic_logger_frames to the packet's list."""
import ast
import json
import os

OUTPUTS = ["gen/LogRecords.v"]
ROOT = os.path.dirname(os.path.dirname(os.path.dirname(os.path.abspath(__file__))))


class Fail(ValueError):
    pass


def repo():
    return os.environ.get("VERIF_REPO", "/repo")


def cstr(s):
    return '"' + str(s).replace('"', '""').replace("\n", " ") + '"'


def is_logger_guard(t):
    return isinstance(t, ast.Compare) and len(t.ops) == 1 and isinstance(t.ops[0], ast.IsNot) \
        and ast.unparse(t.left) == "self._quic_logger" and isinstance(t.comparators[0], ast.Constant) and t.comparators[0].value is None


def encoder_call(e):
    if isinstance(e, ast.Call) and isinstance(e.func, ast.Attribute) and ast.unparse(e.func.value) == "self._quic_logger" \
            and (e.func.attr.startswith("encode_")):
        return e.func.attr
    return None


class Sk:
    def __init__(self, cls, unit, allow_continue=False, inline_depth=0):
        self.cls, self.unit, self.allow_continue, self.inline_depth = cls, unit, allow_continue, inline_depth

    # -- events of one simple statement
    def events(self, st):
        evs = []
        for n in ast.walk(st):
            if not isinstance(n, ast.Call) or not isinstance(n.func, ast.Attribute):
                continue
            f = n.func
            src = ast.unparse(f)
            if f.attr == "start_frame":
                if ast.unparse(f.value) != "builder":
                    raise Fail("%s: start_frame on %s" % (self.unit, ast.unparse(f.value)))
                kw = {k.arg: k.value for k in n.keywords}
                ft = n.args[0] if n.args else kw.get("frame_type")
                if ft is None:
                    raise Fail("%s: start_frame without a frame type" % self.unit)
                txt = ft.attr if (isinstance(ft, ast.Attribute) and ast.unparse(ft.value) == "QuicFrameType") \
                    else ast.unparse(ft) + "@" + self.unit.split(">")[-1]
                evs.append(("start", txt))
            elif f.attr == "append" and ast.unparse(f.value).endswith("quic_logger_frames"):
                enc = encoder_call(n.args[0]) if len(n.args) == 1 and not n.keywords else None
                if enc is None:
                    raise Fail("%s: quic_logger_frames.append of something that is not an encoder result: %s" % (self.unit, ast.unparse(n)[:80]))
                evs.append(("log", enc))
            elif f.attr == "log_event" and ast.unparse(f.value) == "self._quic_logger":
                kw = {k.arg: k.value for k in n.keywords}
                evn = kw.get("event")
                if not (isinstance(evn, ast.Constant) and isinstance(evn.value, str)):
                    raise Fail("%s: log_event without a constant event name" % self.unit)
                if evn.value == "packet_dropped":
                    d = kw.get("data")
                    trig = None
                    if isinstance(d, ast.Dict):
                        for k, v in zip(d.keys, d.values):
                            if isinstance(k, ast.Constant) and k.value == "trigger" and isinstance(v, ast.Constant) and isinstance(v.value, str):
                                trig = v.value
                    if trig is None:
                        raise Fail("%s: packet_dropped without a constant trigger" % self.unit)
                    evs.append(("drop", trig))
                elif evn.value == "packet_received":
                    evs.append(("recv", ""))
                elif evn.value == "packet_sent":
                    evs.append(("sent", ""))
            elif src == "self._packets.append":
                evs.append(("packet_appended", ""))
            elif f.attr == "push_bytes" and self.unit == "_end_packet" and len(n.args) == 1 and ast.unparse(n.args[0]) == "bytes(padding_size)":
                evs.append(("frame", "PADDING"))
            elif src in ("self._receive_version_negotiation_packet", "self._receive_retry_packet"):
                evs.append(("handler", f.attr))
            elif isinstance(f.value, ast.Name) and f.value.id == "self" and f.attr.startswith("_write_") and f.attr in self.cls \
                    and any(isinstance(x, ast.Call) and isinstance(x.func, ast.Attribute) and x.func.attr == "start_frame" for x in ast.walk(self.cls[f.attr])):
                evs.append(("call", f.attr))
        return evs

    def simple(self, st):
        evs = self.events(st)
        if not evs:
            return "WSkip"
        if len(evs) > 1:
            raise Fail("%s: several events in one statement: %s" % (self.unit, ast.unparse(st)[:80]))
        k, a = evs[0]
        if k == "start":
            # start_frame either raises QuicPacketBuilderStop (nothing written) or the frame type is written
            return '(WIf (WExit "stop") (WEv ("frame", %s)))' % cstr(a)
        if k == "call":
            if self.inline_depth >= 2:
                raise Fail("%s: writer calls nested too deep" % self.unit)
            sub = Sk(self.cls, self.unit + ">" + a, False, self.inline_depth + 1)
            body = sub.block(self.cls[a].body)
            if '"return"' in body:
                raise Fail("%s: inlined writer %s returns early" % (self.unit, a))
            return body
        return "(WEv (%s, %s))" % (cstr(k), cstr(a))

    def trivial(self, t):
        return "WEv" not in t and "WExit" not in t

    def seq(self, parts):
        parts = [p for p in parts if p != "WSkip"]
        if not parts:
            return "WSkip"
        out = parts[-1]
        for p in reversed(parts[:-1]):
            out = "(WSeq %s %s)" % (p, out)
        return out

    def block(self, body, depth=0):
        parts = []
        for i, s in enumerate(body):
            t = self.stmt(s, depth)
            # an `if` whose branches start different frames: the statements that follow (the record) are placed
            # in both branches -- the same paths, but the checker then sees one pending frame type per path
            if isinstance(s, ast.If) and t.startswith("(WIf ") and '("frame"' in t and i + 1 < len(body) and not is_logger_guard(s.test):
                rest = self.block(body[i + 1:], depth)
                a = self.block(s.body, depth)
                b = self.block(s.orelse, depth) if s.orelse else "WSkip"
                parts.append("(WIf %s %s)" % (self.seq([a, rest]), self.seq([b, rest])))
                return self.seq(parts)
            parts.append(t)
        return self.seq(parts)

    def stmt(self, s, depth):
        if isinstance(s, (ast.Expr, ast.Assign, ast.AugAssign, ast.AnnAssign, ast.Delete, ast.Pass, ast.Global, ast.Nonlocal)):
            return self.simple(s)
        if isinstance(s, ast.Return):
            pre = self.simple(s)
            return self.seq([pre, '(WExit "return")'])
        if isinstance(s, ast.Raise):
            if self.events(s):
                raise Fail("%s: event inside a raise" % self.unit)
            name = ast.unparse(s.exc) if s.exc is not None else ""
            return '(WExit "stop")' if name.startswith("QuicPacketBuilderStop") else '(WExit "raise")'
        if isinstance(s, ast.Assert):
            return '(WIf (WExit "raise") WSkip)'
        if isinstance(s, ast.Continue):
            if depth == 0 and self.allow_continue:
                return '(WExit "continue")'
            return "WSkip" if depth > 0 else self.fail("continue outside the analysed loop")
        if isinstance(s, ast.Break):
            return "WSkip" if depth > 0 else self.fail("break in the analysed unit")
        if isinstance(s, ast.If):
            if self.events(ast.Expr(value=s.test)):
                raise Fail("%s: event in an if test" % self.unit)
            a = self.block(s.body, depth)
            b = self.block(s.orelse, depth) if s.orelse else "WSkip"
            if is_logger_guard(s.test):
                if not self.trivial(b):
                    raise Fail("%s: logger guard with a non-trivial else branch" % self.unit)
                return a
            if self.trivial(a) and self.trivial(b):
                return "WSkip"
            return "(WIf %s %s)" % (a, b)
        if isinstance(s, (ast.For, ast.While)):
            body = self.block(s.body, depth + 1)
            if s.orelse and not self.trivial(self.block(s.orelse, depth)):
                raise Fail("%s: loop else with events" % self.unit)
            if self.trivial(body):
                return "WSkip"
            # break / continue of this loop were translated to WSkip: an over-approximation (more paths) that is only
            # harmless when the body has no events (the extra paths can then only add exits in the same state)
            if "WEv" in body:
                for n in ast.walk(ast.Module(body=s.body, type_ignores=[])):
                    if isinstance(n, (ast.Break, ast.Continue)):
                        raise Fail("%s: break/continue in a loop with events" % self.unit)
            return "(WLoop %s)" % body
        if isinstance(s, ast.Try):
            if s.finalbody or s.orelse:
                raise Fail("%s: try with else/finally" % self.unit)
            hs = [self.block(h.body, depth) for h in s.handlers]
            is_decrypt = any(isinstance(n, ast.Call) and isinstance(n.func, ast.Attribute) and n.func.attr == "decrypt_packet"
                             for n in ast.walk(ast.Module(body=s.body, type_ignores=[])))
            body = self.block(s.body, depth)
            if not self.trivial(body):
                raise Fail("%s: try body with events" % self.unit)
            if is_decrypt:
                hs = ['(WSeq (WEv ("decrypt_fail", "")) %s)' % h for h in hs]
                ok = '(WEv ("decrypt_ok", ""))'
            else:
                if all(self.trivial(h) for h in hs):
                    return "WSkip"
                ok = "WSkip"
            alt = hs[-1]
            for h in reversed(hs[:-1]):
                alt = "(WIf %s %s)" % (h, alt)
            return "(WIf %s %s)" % (ok, alt)
        if isinstance(s, ast.With):
            return self.block(s.body, depth)
        return self.fail("statement %s" % type(s).__name__)

    def fail(self, what):
        raise Fail("%s: %s" % (self.unit, what))


def check_frames_lists(trees):
    """every mention of a quic_logger_frames list is one of the known forms, so the lists hold encoder results only"""
    n = 0
    for rel, tree in trees.items():
        parents = {}
        for p in ast.walk(tree):
            for c in ast.iter_child_nodes(p):
                parents[id(c)] = p
        for node in ast.walk(tree):
            is_name = isinstance(node, ast.Name) and node.id == "quic_logger_frames"
            is_attr = isinstance(node, ast.Attribute) and node.attr == "quic_logger_frames"
            if not (is_name or is_attr):
                continue
            n += 1
            par = parents.get(id(node))
            where = "%s:%d" % (rel, node.lineno)
            # x.quic_logger_frames.append(encoder(...))
            if isinstance(par, ast.Attribute) and par.attr == "append":
                call = parents.get(id(par))
                if isinstance(call, ast.Call) and len(call.args) == 1 and encoder_call(call.args[0]):
                    continue
                raise Fail("%s: append of a non-encoder value to quic_logger_frames" % where)
            if isinstance(par, ast.Attribute):
                raise Fail("%s: quic_logger_frames.%s" % (where, par.attr))
            # assignment target / annotated declaration
            if isinstance(par, (ast.Assign, ast.AnnAssign)) and (node in getattr(par, "targets", []) or node is getattr(par, "target", None)):
                v = par.value
                ok = v is None or (isinstance(v, ast.Constant) and v.value is None) or (isinstance(v, ast.List) and not v.elts) \
                    or ast.unparse(v) in ("field(default_factory=list)", "self._packet.quic_logger_frames")
                if not ok:
                    raise Fail("%s: quic_logger_frames assigned %s" % (where, ast.unparse(v)[:60]))
                continue
            # read: aliasing into the builder, keyword pass-through, value of the "frames" key of a record
            if isinstance(par, ast.Assign) and par.value is node and all(ast.unparse(t).endswith("quic_logger_frames") for t in par.targets):
                continue
            if isinstance(par, ast.keyword) and par.arg == "quic_logger_frames":
                continue
            if isinstance(par, ast.Dict):
                idx = [i for i, v in enumerate(par.values) if v is node]
                if idx and isinstance(par.keys[idx[0]], ast.Constant) and par.keys[idx[0]].value == "frames":
                    continue
            raise Fail("%s: use of quic_logger_frames not understood: %s" % (where, ast.unparse(par)[:80]))
    return n


def find_loop(fn, pred):
    hits = [n for n in ast.walk(fn) if isinstance(n, (ast.For, ast.While)) and pred(n)]
    if len(hits) != 1:
        raise Fail("%s: expected exactly one matching loop, found %d" % (fn.name, len(hits)))
    return hits[0]


def extract():
    base = os.path.join(repo(), "src", "aioquic", "quic")
    trees = {rel: ast.parse(open(os.path.join(base, rel)).read()) for rel in ("connection.py", "packet_builder.py")}
    conn = {n.name: n for c in trees["connection.py"].body if isinstance(c, ast.ClassDef) and c.name == "QuicConnection"
            for n in c.body if isinstance(n, ast.FunctionDef)}
    bld = {n.name: n for c in trees["packet_builder.py"].body if isinstance(c, ast.ClassDef) and c.name == "QuicPacketBuilder"
           for n in c.body if isinstance(n, ast.FunctionDef)}
    if not conn or not bld:
        raise Fail("QuicConnection / QuicPacketBuilder not found")
    nmentions = check_frames_lists(trees)

    writers = []
    for name, fn in conn.items():
        if any(isinstance(x, ast.Call) and isinstance(x.func, ast.Attribute) and x.func.attr == "start_frame" for x in ast.walk(fn)):
            writers.append((name, Sk(conn, name).block(fn.body)))
    if len(writers) < 10:
        raise Fail("only %d frame writers found" % len(writers))
    # start_frame outside QuicConnection methods?
    total_sf = sum(1 for t in trees.values() for x in ast.walk(t) if isinstance(x, ast.Call) and isinstance(x.func, ast.Attribute) and x.func.attr == "start_frame")
    in_writers = sum(1 for n, fn in conn.items() for x in ast.walk(fn) if isinstance(x, ast.Call) and isinstance(x.func, ast.Attribute) and x.func.attr == "start_frame")
    if total_sf != in_writers:
        raise Fail("a start_frame call outside the methods of QuicConnection")

    handlers, handler_encs = [], []
    for name, fn in conn.items():
        if name.startswith("_handle_") and name.endswith("_frame"):
            sk = Sk(conn, name)
            handlers.append((name, sk.block(fn.body)))
            encs = sorted({a for n in ast.walk(fn) if isinstance(n, ast.Expr) for (k, a) in sk.events(n) if k == "log"})
            handler_encs.append((name, encs))
    # every receive-side append happens in a handler
    for name, fn in conn.items():
        if name.startswith("_handle_") or name.startswith("_write_"):
            continue
        for n in ast.walk(fn):
            if isinstance(n, ast.Attribute) and n.attr == "append" and ast.unparse(n.value).endswith("quic_logger_frames"):
                raise Fail("%s appends to quic_logger_frames" % name)

    rd = conn.get("receive_datagram")
    if rd is None:
        raise Fail("receive_datagram not found")
    loop = find_loop(rd, lambda n: isinstance(n, ast.While) and ast.unparse(n.test) == "not buf.eof()")
    recv_iteration = Sk(conn, "receive_datagram", allow_continue=True).block(loop.body)
    # the packet loop is the only place of receive_datagram with packet records
    outside = [s for s in rd.body if s is not loop]
    for s in outside:
        for n in ast.walk(s):
            if isinstance(n, ast.Call) and isinstance(n.func, ast.Attribute) and n.func.attr == "log_event":
                ev = {k.arg: k.value for k in n.keywords}.get("event")
                if isinstance(ev, ast.Constant) and ev.value in ("packet_received", "packet_dropped"):
                    raise Fail("receive_datagram logs a packet record outside the packet loop")
    vn = Sk(conn, "_receive_version_negotiation_packet").block(conn["_receive_version_negotiation_packet"].body)
    retry = Sk(conn, "_receive_retry_packet").block(conn["_receive_retry_packet"].body)

    dts = conn.get("datagrams_to_send")
    if dts is None:
        raise Fail("datagrams_to_send not found")
    flush = [n for n in ast.walk(dts) if isinstance(n, ast.Assign) and ast.unparse(n.value) == "builder.flush()"]
    if len(flush) != 1 or ast.unparse(flush[0].targets[0]) != "(datagrams, packets)" and ast.unparse(flush[0].targets[0]) != "datagrams, packets":
        raise Fail("datagrams_to_send: `datagrams, packets = builder.flush()` not found")
    ploop = find_loop(dts, lambda n: isinstance(n, ast.For) and ast.unparse(n.iter) == "packets" and ast.unparse(n.target) == "packet")
    sent_iteration = Sk(conn, "datagrams_to_send").block(ploop.body)
    sent_sites = [n for n in ast.walk(dts) if isinstance(n, ast.Call) and isinstance(n.func, ast.Attribute) and n.func.attr == "log_event"
                  and any(k.arg == "event" and isinstance(k.value, ast.Constant) and k.value.value == "packet_sent" for k in n.keywords)]
    if len(sent_sites) != 1 or not any(n is sent_sites[0] for n in ast.walk(ploop)):
        raise Fail("datagrams_to_send: packet_sent is not logged exactly once, inside the packet loop")
    kw = {k.arg: k.value for k in sent_sites[0].keywords}
    frames = [v for k, v in zip(kw["data"].keys, kw["data"].values) if isinstance(k, ast.Constant) and k.value == "frames"] \
        if isinstance(kw.get("data"), ast.Dict) else []
    if [ast.unparse(v) for v in frames] != ["packet.quic_logger_frames"]:
        raise Fail("datagrams_to_send: the packet_sent record does not carry packet.quic_logger_frames")
    # packet_sent anywhere else in the analysed files?
    for rel, tree in trees.items():
        for n in ast.walk(tree):
            if isinstance(n, ast.Constant) and n.value == "packet_sent" and not any(n is x for x in ast.walk(dts)):
                raise Fail("%s: packet_sent mentioned outside datagrams_to_send" % rel)

    # builder pins
    fl = bld.get("flush")
    if fl is None or "packets = self._packets" not in ast.unparse(fl) or "return (datagrams, packets)" not in ast.unparse(fl):
        raise Fail("QuicPacketBuilder.flush does not return self._packets")
    appends = [(name, n.lineno) for name, fn in bld.items() for n in ast.walk(fn)
               if isinstance(n, ast.Call) and ast.unparse(n.func) == "self._packets.append"]
    if [a[0] for a in appends] != ["_end_packet"]:
        raise Fail("QuicPacketBuilder._packets.append sites: %r" % appends)
    sp = ast.unparse(bld["start_packet"])
    if "self.quic_logger_frames = self._packet.quic_logger_frames" not in sp or "self._packet = QuicSentPacket(" not in sp:
        raise Fail("QuicPacketBuilder.start_packet does not alias quic_logger_frames to the new packet's list")
    end_packet = Sk(bld, "_end_packet").block(bld["_end_packet"].body)
    return {"writers": writers, "handlers": handlers, "handler_encs": handler_encs, "recv_iteration": recv_iteration,
            "vn": vn, "retry": retry, "sent_iteration": sent_iteration, "end_packet": end_packet,
            "frames_list_mentions": nmentions}


def render(x):
    summary = {"writers": len(x["writers"]), "handlers": len(x["handlers"]), "frames_list_mentions": x["frames_list_mentions"],
               "writer_frames": sum(b.count('("frame"') for _, b in x["writers"]),
               "writer_logs": sum(b.count('("log"') for _, b in x["writers"]),
               "recv_events": x["recv_iteration"].count("WEv")}
    out = ["(* GENERATED by tools/gen/c20_records.py from src/aioquic/quic/connection.py, packet_builder.py -- do not edit *)",
           "(* SUMMARY %s *)" % json.dumps(summary, sort_keys=True),
           "From Coq Require Import String.", "From AQ Require Import lib.Base model.LogRec.",
           "Open Scope string_scope.", "Open Scope Z_scope.", ""]
    for key in ("writers", "handlers"):
        out.append("Definition %s : list (string * ws) := [" % key)
        out.append(";\n".join("  (%s,\n   %s)" % (cstr(n), b) for n, b in x[key]))
        out.append("].")
        out.append("")
    out.append("(* which encoder(s) each frame handler appends *)")
    out.append("Definition handler_encs : list (string * list string) := [")
    out.append(";\n".join("  (%s, [%s])" % (cstr(n), "; ".join(cstr(e) for e in es)) for n, es in x["handler_encs"]))
    out.append("].")
    out.append("")
    for key, name in (("recv_iteration", "recv_iteration"), ("vn", "vn_handler"), ("retry", "retry_handler"),
                      ("sent_iteration", "sent_iteration"), ("end_packet", "end_packet")):
        out.append("Definition %s : ws :=\n  %s." % (name, x[key]))
        out.append("")
    return "\n".join(out)


def generate():
    text = render(extract())
    path = os.path.join(ROOT, "coq", "gen", "LogRecords.v")
    os.makedirs(os.path.dirname(path), exist_ok=True)
    try:
        if open(path).read() == text:
            return path
    except FileNotFoundError:
        pass
    tmp = path + ".tmp%d" % os.getpid()
    with open(tmp, "w") as f:
        f.write(text)
    os.replace(tmp, path)
    return path


if __name__ == "__main__":
    print(generate())
