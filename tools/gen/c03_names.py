#!/usr/bin/env python3
"""C03 translator (names): tls.py + quic/connection.py -> coq/gen/TlsNames.v   (fail closed)

WHICH name is the server certificate validated for, and where could the identity / chain checks be skipped.
From the CURRENT source (Python `ast`, nothing imported or run):

1. the NAME FLOW of tls.Context as expressions over  NParam (the constructor parameter `server_name`),
   NAttr (self._server_name), NNone, NIfIp s a b (= try: ipaddress.ip_address(s) / except ValueError: a / else: b):
     * every assignment to self._server_name anywhere in class Context, with its place (0 = a top-level, hence
       unconditional, statement of __init__; 1 = anywhere else) and its value;
     * the `server_name=` argument of ClientHello(...) in _client_send_hello (locals resolved through the
       try / except ValueError / else that computes them): the SNI;
     * the `server_name=` argument of verify_certificate(...) in _client_handle_certificate_verify, the condition
       guarding the call, the `certificate=` / `chain=` / cadata / cafile / capath arguments;
     * the `server_name=` argument of SessionTicket(...) in _build_session_ticket;
     * connection.py: the tls.Context(...) call passes cadata / cafile / capath / server_name / verify_mode of the
       QuicConfiguration unchanged; the default of _verify_mode in Context.__init__.
   proofs/TlsNamesP.v proves that this flow hands the CONFIGURED name to the verifier (verify_name) and the
   IP-stripped name to the ClientHello only (sni_of_name): routing the SNI-normalised value into the verifier, or
   normalising the attribute itself, makes that lemma fail.
2. the DECISION STRUCTURE of verify_certificate(): validity dates, the `if server_name is not None` guard, the
   ip_address() test choosing verify_certificate_ip_address / verify_certificate_hostname (with WHICH arguments),
   the exception handlers and their alerts (every handler must end in `raise`), trust-store loading, chain
   verification and its alert - as a `vstmt` list; proofs/TlsNamesP.v: it is the one model/TlsVerifyCert.v was
   transcribed from.
Anything not recognised is untranslatable: no output, dependents stop compiling.
"""
import ast
import os
import sys

ROOT = os.path.dirname(os.path.dirname(os.path.dirname(os.path.abspath(__file__))))
REPO = os.environ.get("VERIF_REPO", "/repo")
OUT = os.path.join(ROOT, "coq", "gen", "TlsNames.v")
OUTPUTS = ["gen/TlsNames.v"]


class Untranslatable(Exception):
    pass


def fail(node, why):
    raise Untranslatable("line %s: %s" % (getattr(node, "lineno", "?"), why))


def is_self_attr(node, name=None):
    return (isinstance(node, ast.Attribute) and isinstance(node.value, ast.Name) and node.value.id == "self"
            and (name is None or node.attr == name))


def is_ip_call(node):
    """ipaddress.ip_address(<x>) -> x"""
    if (isinstance(node, ast.Call) and ast.unparse(node.func) == "ipaddress.ip_address" and len(node.args) == 1
            and not node.keywords):
        return node.args[0]
    return None


def kw(call, name):
    for k in call.keywords:
        if k.arg == name:
            return k.value
    return None


def calls_named(node, name):
    out = []
    for n in ast.walk(node):
        if isinstance(n, ast.Call):
            f = n.func
            if (isinstance(f, ast.Name) and f.id == name) or (isinstance(f, ast.Attribute) and f.attr == name):
                out.append(n)
    return out


# ---------------------------------------------------------------------------------------------------------
# name expressions

def nexpr(node, env, param_ok):
    """env: local variable name -> nexpr text"""
    if isinstance(node, ast.Constant) and node.value is None:
        return "NNone"
    if is_self_attr(node, "_server_name"):
        return "NAttr"
    if isinstance(node, ast.Name):
        if node.id in env:
            return env[node.id]
        if node.id == "server_name" and param_ok:
            return "NParam"
    fail(node, "name expression `%s` not recognised" % ast.unparse(node))


def try_ip_assign(st, env, param_ok):
    """try: ipaddress.ip_address(S) / except ValueError: T = A / else: T = B   -> (target text, nexpr) or None"""
    if not isinstance(st, ast.Try) or st.finalbody or len(st.body) != 1 or len(st.handlers) != 1 or len(st.orelse) != 1:
        return None
    if not isinstance(st.body[0], ast.Expr):
        return None
    scrut = is_ip_call(st.body[0].value)
    h = st.handlers[0]
    if scrut is None or h.type is None or ast.unparse(h.type) != "ValueError" or len(h.body) != 1:
        return None
    a, b = h.body[0], st.orelse[0]
    if not (isinstance(a, ast.Assign) and isinstance(b, ast.Assign) and len(a.targets) == 1 and len(b.targets) == 1):
        return None
    if ast.unparse(a.targets[0]) != ast.unparse(b.targets[0]):
        return None
    tgt = a.targets[0]
    if isinstance(a.value, ast.Constant) and isinstance(a.value.value, bool):
        return None              # the is_ip flag of verify_certificate, not a name
    e = "NIfIp (%s) (%s) (%s)" % (nexpr(scrut, env, param_ok), nexpr(a.value, env, param_ok), nexpr(b.value, env, param_ok))
    return tgt, e


def assigns_to_attr(fn, in_init):
    """every store to self._server_name inside function `fn` -> [(place, nexpr)]"""
    out = []
    top = set(id(s) for s in fn.body)
    handled = set()
    env = {}
    for st in fn.body:
        r = try_ip_assign(st, env, in_init) if isinstance(st, ast.Try) else None
        if r is not None and is_self_attr(r[0], "_server_name"):
            out.append((0 if in_init else 1, r[1]))
            for n in ast.walk(st):
                handled.add(id(n))
    for n in ast.walk(fn):
        tgts = []
        if isinstance(n, ast.Assign):
            tgts = n.targets
        elif isinstance(n, (ast.AugAssign, ast.AnnAssign)):
            tgts = [n.target]
        elif isinstance(n, (ast.Delete,)):
            tgts = n.targets
        for t in tgts:
            for sub in ast.walk(t):
                if is_self_attr(sub, "_server_name") and id(n) not in handled:
                    if isinstance(n, ast.Delete) or isinstance(n, ast.AugAssign) or getattr(n, "value", None) is None:
                        fail(n, "self._server_name deleted / augmented")
                    if not (isinstance(t, ast.Attribute) and len(tgts) == 1):
                        fail(n, "self._server_name assigned through a compound target")
                    out.append((0 if (in_init and id(n) in top) else 1, nexpr(n.value, {}, in_init)))
        if isinstance(n, ast.Call) and ast.unparse(n.func) in ("setattr", "object.__setattr__", "self.__dict__.update",
                                                              "self.__setattr__", "delattr"):
            fail(n, "reflective attribute write in class Context")
    return out


def local_env(fn, upto_call):
    """name-valued locals of `fn` defined by top-level statements before the statement containing `upto_call`"""
    env = {}
    for st in fn.body:
        if any(n is upto_call for n in ast.walk(st)):
            break
        r = try_ip_assign(st, env, False) if isinstance(st, ast.Try) else None
        if r is not None and isinstance(r[0], ast.Name):
            env[r[0].id] = r[1]
        elif isinstance(st, ast.Assign) and len(st.targets) == 1 and isinstance(st.targets[0], ast.Name) \
                and st.targets[0].id == "server_name":
            env["server_name"] = nexpr(st.value, env, False)
    return env


def enclosing_conditions(fn, call):
    """source text of the `if` tests enclosing `call` (outermost first); anything but plain `if` bodies is refused"""
    path = []

    def walk(stmts, conds):
        for st in stmts:
            if any(n is call for n in ast.walk(st)):
                if isinstance(st, ast.If):
                    if any(n is call for n in ast.walk(st.test)):
                        fail(st, "call inside an if test")
                    if any(n is call for b in st.body for n in ast.walk(b)):
                        return walk(st.body, conds + [ast.unparse(st.test)])
                    return walk(st.orelse, conds + ["not (%s)" % ast.unparse(st.test)])
                if isinstance(st, (ast.Expr, ast.Assign, ast.Return)):
                    path.extend(conds)
                    return True
                fail(st, "call under an unexpected statement kind %s" % type(st).__name__)
        return False

    if not walk(fn.body, []):
        fail(fn, "call not found")
    return path


# ---------------------------------------------------------------------------------------------------------
# verify_certificate

ALERTS = {"AlertCertificateExpired": 45, "AlertBadCertificate": 42, "AlertUnknownCa": 48, "AlertDecryptError": 51,
          "AlertHandshakeFailure": 40, "AlertIllegalParameter": 47, "AlertInternalError": 80}
MATCHERS = {"service_identity.cryptography.verify_certificate_ip_address": 1,
            "service_identity.cryptography.verify_certificate_hostname": 2}
ARGS = {"certificate": 1, "server_name": 2, "chain": 3}


def alert_of_raise(st):
    if not isinstance(st, ast.Raise) or st.exc is None:
        return None
    exc = st.exc.func if isinstance(st.exc, ast.Call) else st.exc
    if isinstance(exc, ast.Name) and exc.id in ALERTS:
        return ALERTS[exc.id]
    return None


def handler_alert(h):
    """an except handler that always ends in `raise Alert...` (no return / break / continue / bare pass inside)"""
    for n in ast.walk(h):
        if isinstance(n, (ast.Return, ast.Break, ast.Continue, ast.Yield)):
            fail(n, "except handler of verify_certificate can leave without raising")
    a = alert_of_raise(h.body[-1])
    if a is None:
        fail(h, "except handler does not end in `raise Alert...`")
    # every path through the handler body must reach the final raise: only straight-line code, if/elif/else and
    # nested try whose handlers do not raise-and-leave are accepted before it
    for st in h.body[:-1]:
        for n in ast.walk(st):
            if isinstance(n, ast.Raise):
                if alert_of_raise(n) is None:
                    fail(n, "except handler raises something that is not an Alert")
    return a


def matcher_call(st):
    if not (isinstance(st, ast.Expr) and isinstance(st.value, ast.Call)):
        fail(st, "expected a matcher call")
    c = st.value
    name = ast.unparse(c.func)
    if name not in MATCHERS or c.keywords or len(c.args) != 2:
        fail(st, "matcher call `%s` not recognised" % ast.unparse(c))
    a = [ast.unparse(x) for x in c.args]
    if a[0] not in ARGS or a[1] not in ARGS:
        fail(st, "matcher arguments `%s` not recognised" % ", ".join(a))
    return MATCHERS[name], ARGS[a[0]], ARGS[a[1]]


def vc_subject(body):
    """body of `if server_name is not None:` -> [vstmt]"""
    out = []
    i = 0
    if i < len(body) and isinstance(body[i], ast.Try):
        st = body[i]
        scrut = is_ip_call(st.body[0].value) if (len(st.body) == 1 and isinstance(st.body[0], ast.Expr)) else None
        ok = (scrut is not None and len(st.handlers) == 1 and st.handlers[0].type is not None
              and ast.unparse(st.handlers[0].type) == "ValueError" and not st.finalbody
              and [ast.unparse(x) for x in st.handlers[0].body] == ["is_ip = False"]
              and [ast.unparse(x) for x in st.orelse] == ["is_ip = True"])
        if not ok or ast.unparse(scrut) not in ARGS:
            fail(st, "is_ip computation not recognised")
        out.append("VIsIp %d" % ARGS[ast.unparse(scrut)])
        i += 1
    else:
        fail(body[0] if body else None, "expected the ip_address() test")
    if i >= len(body) or not isinstance(body[i], ast.Try):
        fail(body[i] if i < len(body) else None, "expected the matcher try")
    st = body[i]
    if st.finalbody or st.orelse or len(st.body) != 1 or not isinstance(st.body[0], ast.If):
        fail(st, "matcher try not recognised")
    sel = st.body[0]
    if ast.unparse(sel.test) != "is_ip" or len(sel.body) != 1 or len(sel.orelse) != 1:
        fail(sel, "matcher selection not recognised")
    m_ip, m_host = matcher_call(sel.body[0]), matcher_call(sel.orelse[0])
    hs = []
    for h in st.handlers:
        t = "Exception*" if h.type is None else ast.unparse(h.type)
        kind = {"(service_identity.CertificateError, service_identity.VerificationError)": 1, "Exception": 2}.get(t)
        if kind is None:
            fail(h, "handler type `%s` not recognised" % t)
        hs.append("(%d, %d)" % (kind, handler_alert(h)))
    out.append("VMatch (%d, %d, %d) (%d, %d, %d) [%s]" % (m_ip + m_host + ("; ".join(hs),)))
    if i + 1 != len(body):
        fail(body[i + 1], "unexpected statement after the matcher try")
    return out


def vc_skeleton(fn):
    params = [a.arg for a in fn.args.args]
    if params != ["certificate", "chain", "server_name", "cadata", "cafile", "capath"]:
        fail(fn, "verify_certificate parameters are %s" % params)
    out = []
    for st in fn.body:
        src = ast.unparse(st)
        if isinstance(st, ast.Expr) and isinstance(st.value, ast.Constant) and isinstance(st.value.value, str):
            continue
        if src == "now = utcnow()":
            out.append("VNow")
        elif isinstance(st, ast.If) and not st.orelse and len(st.body) == 1 and alert_of_raise(st.body[0]) is not None:
            t = ast.unparse(st.test)
            which = {"now < certificate.not_valid_before_utc": 0, "now > certificate.not_valid_after_utc": 1}.get(t)
            if which is None:
                fail(st, "guard `%s` not recognised" % t)
            out.append("VDate %d %d" % (which, alert_of_raise(st.body[0])))
        elif isinstance(st, ast.If) and not st.orelse and ast.unparse(st.test) == "server_name is not None":
            out.append("VSubject [%s]" % "; ".join(vc_subject(st.body)))
        elif src == "store = crypto.X509Store()":
            out.append("VNewStore")
        elif isinstance(st, ast.If) and not st.orelse:
            t = ast.unparse(st.test)
            b = [ast.unparse(x) for x in st.body]
            if t == "cadata is None and cafile is None and (capath is None)" and b == ["store.load_locations(certifi.where())"]:
                out.append("VTrust 0")
            elif t == "cadata is not None" and b == ["for cert in load_pem_x509_certificates(cadata):\n    store.add_cert(crypto.X509.from_cryptography(cert))"]:
                out.append("VTrust 1")
            elif t == "cafile is not None or capath is not None" and b == ["store.load_locations(cafile, capath)"]:
                out.append("VTrust 2")
            else:
                fail(st, "statement `%s` not recognised" % t)
        elif isinstance(st, ast.Assign) and ast.unparse(st.targets[0]) == "store_ctx":
            want = ("crypto.X509StoreContext(store, crypto.X509.from_cryptography(certificate), "
                    "[crypto.X509.from_cryptography(cert) for cert in chain])")
            if ast.unparse(st.value) != want:
                fail(st, "X509StoreContext arguments changed")
            out.append("VStoreCtx 1 3")
        elif isinstance(st, ast.Try):
            if (st.finalbody or st.orelse or [ast.unparse(x) for x in st.body] != ["store_ctx.verify_certificate()"]
                    or len(st.handlers) != 1 or st.handlers[0].type is None
                    or ast.unparse(st.handlers[0].type) != "crypto.X509StoreContextError"):
                fail(st, "chain verification try not recognised")
            out.append("VChain %d" % handler_alert(st.handlers[0]))
        else:
            fail(st, "statement `%s` not recognised" % src.splitlines()[0])
    return out


# ---------------------------------------------------------------------------------------------------------

def analyse():
    path = os.path.join(REPO, "src", "aioquic", "tls.py")
    tree = ast.parse(open(path).read())
    ctx = next((n for n in tree.body if isinstance(n, ast.ClassDef) and n.name == "Context"), None)
    vc = next((n for n in tree.body if isinstance(n, ast.FunctionDef) and n.name == "verify_certificate"), None)
    if ctx is None or vc is None:
        raise Untranslatable("class Context / verify_certificate missing")
    # every definition of verify_certificate / rebinding of the name at module level
    for n in tree.body:
        if n is not vc and isinstance(n, (ast.FunctionDef, ast.Assign, ast.Import, ast.ImportFrom)) and \
                "verify_certificate" in [getattr(n, "name", None)] + [ast.unparse(t) for t in getattr(n, "targets", [])] + \
                [a.asname or a.name for a in getattr(n, "names", [])]:
            fail(n, "verify_certificate is bound twice at module level")
    methods = {n.name: n for n in ctx.body if isinstance(n, ast.FunctionDef)}
    for need in ("__init__", "_client_send_hello", "_client_handle_certificate_verify", "_build_session_ticket"):
        if need not in methods:
            raise Untranslatable("Context.%s missing" % need)
    init = methods["__init__"]
    if "server_name" not in [a.arg for a in init.args.args]:
        fail(init, "Context.__init__ has no server_name parameter")
    assigns = []
    for name, fn in methods.items():
        assigns += assigns_to_attr(fn, name == "__init__")
    # class-level / property definitions of _server_name
    for n in ctx.body:
        if isinstance(n, (ast.Assign, ast.AnnAssign)) and "_server_name" in ast.unparse(n):
            fail(n, "class-level _server_name")
        if isinstance(n, ast.FunctionDef) and n.name in ("_server_name", "__getattr__", "__getattribute__", "__setattr__"):
            fail(n, "attribute hook %s in class Context" % n.name)
    # the parameter must not be rebound before it is stored
    for n in ast.walk(init):
        if isinstance(n, ast.Assign) and any(isinstance(t, ast.Name) and t.id == "server_name" for t in n.targets):
            fail(n, "Context.__init__ rebinds its server_name parameter")
    # SNI
    hello = methods["_client_send_hello"]
    chs = calls_named(hello, "ClientHello")
    if len(chs) != 1 or kw(chs[0], "server_name") is None:
        fail(hello, "expected exactly one ClientHello(..., server_name=...)")
    sni = nexpr(kw(chs[0], "server_name"), local_env(hello, chs[0]), False)
    # verifier
    hcv = methods["_client_handle_certificate_verify"]
    vcs = calls_named(hcv, "verify_certificate")
    if len(vcs) != 1:
        fail(hcv, "expected exactly one verify_certificate call in _client_handle_certificate_verify")
    all_vcs = [(name, c) for name, fn in methods.items() for c in calls_named(fn, "verify_certificate")]
    if [n for n, _ in all_vcs] != ["_client_handle_certificate_verify"]:
        raise Untranslatable("verify_certificate is called from %s" % [n for n, _ in all_vcs])
    call = vcs[0]
    if call.args or sorted(k.arg or "**" for k in call.keywords) != ["cadata", "cafile", "capath", "certificate", "chain", "server_name"]:
        fail(call, "verify_certificate call shape changed")
    vname = nexpr(kw(call, "server_name"), local_env(hcv, call), False)
    conds = enclosing_conditions(hcv, call)
    guard = {("self._verify_mode != ssl.CERT_NONE",): 2}.get(tuple(conds))
    if guard is None:
        fail(call, "verify_certificate is guarded by %s" % conds)
    others = {k: ast.unparse(kw(call, k)) for k in ("cadata", "cafile", "capath", "certificate", "chain")}
    want = {"cadata": "self._cadata", "cafile": "self._cafile", "capath": "self._capath",
            "certificate": "self._peer_certificate", "chain": "self._peer_certificate_chain"}
    passthrough = int(others == want)
    # where the trust attributes and the verify mode come from
    init_src = [ast.unparse(s) for s in init.body]
    for line in ("self._cadata = cadata", "self._cafile = cafile", "self._capath = capath"):
        if line not in init_src:
            passthrough = 0
    vm = [ast.unparse(s) for s in init.body if isinstance(s, ast.If) and "verify_mode" in ast.unparse(s.test)]
    vm_default = int(vm == ["if verify_mode is not None:\n    self._verify_mode = verify_mode\nelse:\n"
                            "    self._verify_mode = ssl.CERT_REQUIRED if is_client else ssl.CERT_NONE"])
    vm_stores = sum(1 for fn in methods.values() for n in ast.walk(fn)
                    if isinstance(n, (ast.Assign, ast.AugAssign, ast.AnnAssign))
                    for t in (n.targets if isinstance(n, ast.Assign) else [n.target]) if is_self_attr(t, "_verify_mode"))
    # ticket
    bst = methods["_build_session_ticket"]
    sts = calls_named(bst, "SessionTicket")
    if len(sts) != 1 or kw(sts[0], "server_name") is None:
        fail(bst, "expected exactly one SessionTicket(..., server_name=...)")
    tname = nexpr(kw(sts[0], "server_name"), local_env(bst, sts[0]), False)
    # other readers of self._server_name (anything else would be a new consumer of the name)
    readers = sorted(set(name for name, fn in methods.items() for n in ast.walk(fn)
                         if is_self_attr(n, "_server_name") and isinstance(n.ctx, ast.Load)))
    if readers != ["_build_session_ticket", "_client_handle_certificate_verify", "_client_send_hello"]:
        raise Untranslatable("self._server_name is read in %s" % readers)
    # connection.py
    ctree = ast.parse(open(os.path.join(REPO, "src", "aioquic", "quic", "connection.py")).read())
    qc = next((n for n in ctree.body if isinstance(n, ast.ClassDef) and n.name == "QuicConnection"), None)
    if qc is None:
        raise Untranslatable("QuicConnection missing")
    tcs = [c for c in calls_named(qc, "Context") if ast.unparse(c.func) == "tls.Context"]
    if len(tcs) != 1:
        raise Untranslatable("expected exactly one tls.Context(...) in QuicConnection")
    qpass = 1
    for k in ("cadata", "cafile", "capath", "server_name", "verify_mode"):
        v = kw(tcs[0], k)
        if v is None or ast.unparse(v) != "self._configuration." + k:
            qpass = 0
    return dict(assigns=assigns, sni=sni, vname=vname, guard=guard, passthrough=passthrough, vm_default=vm_default,
                vm_stores=vm_stores, tname=tname, qpass=qpass, vc=vc_skeleton(vc))


def render(a):
    o = []
    w = o.append
    w("(* GENERATED by tools/gen/c03_names.py from src/aioquic/tls.py and quic/connection.py -- do not edit *)")
    w("From AQ Require Import lib.Base.")
    w("")
    w("(* name expressions: the constructor parameter, self._server_name, None,")
    w("   NIfIp s a b = try: ipaddress.ip_address(s) / except ValueError: a / else: b *)")
    w("Inductive nexpr : Set := NParam | NAttr | NNone | NIfIp (scrut on_value_error on_success : nexpr).")
    w("")
    w("Record name_flow := mkFlow {")
    w("  nf_assigns : list (Z * nexpr);   (* every store to self._server_name in class Context: (0 = unconditional statement of __init__ | 1 = elsewhere, value) *)")
    w("  nf_sni : nexpr;                  (* ClientHello(server_name=...) in _client_send_hello *)")
    w("  nf_verify : nexpr;               (* verify_certificate(server_name=...) in _client_handle_certificate_verify *)")
    w("  nf_verify_guard : Z;             (* 2 = the call is under exactly `if self._verify_mode != ssl.CERT_NONE` *)")
    w("  nf_trust_passthrough : Z;        (* 1 = certificate / chain / cadata / cafile / capath are the peer's certificate list and the constructor's arguments *)")
    w("  nf_verify_mode_default : Z;      (* 1 = _verify_mode = verify_mode if given, else CERT_REQUIRED for a client *)")
    w("  nf_verify_mode_stores : Z;       (* number of stores to self._verify_mode in class Context *)")
    w("  nf_ticket : nexpr;               (* SessionTicket(server_name=...) in _build_session_ticket *)")
    w("  nf_quic_passthrough : Z          (* 1 = QuicConnection hands cadata / cafile / capath / server_name / verify_mode of its configuration to tls.Context *)")
    w("}.")
    w("")
    w("Definition gen_name_flow : name_flow :=")
    w("  mkFlow [%s]" % "; ".join("(%d, %s)" % p for p in a["assigns"]))
    w("         (%s)" % a["sni"])
    w("         (%s) %d %d %d %d" % (a["vname"], a["guard"], a["passthrough"], a["vm_default"], a["vm_stores"]))
    w("         (%s) %d." % (a["tname"], a["qpass"]))
    w("")
    w("(* verify_certificate(certificate, chain, server_name, cadata, cafile, capath); argument ids: 1 certificate, 2 server_name,")
    w("   3 chain; matcher ids: 1 verify_certificate_ip_address, 2 verify_certificate_hostname; VMatch ip host handlers:")
    w("   try: if is_ip: ip(...) else: host(...), handlers (1 = CertificateError / VerificationError, 2 = Exception) -> alert *)")
    w("Inductive vstmt : Set :=")
    w("| VNow | VDate (which alert : Z) | VSubject (body : list vstmt) | VIsIp (arg : Z)")
    w("| VMatch (ip host : Z * Z * Z) (handlers : list (Z * Z)) | VNewStore | VTrust (which : Z) | VStoreCtx (leaf chain : Z)")
    w("| VChain (alert : Z).")
    w("")
    w("Definition gen_verify_certificate : list vstmt :=")
    w("  [%s]." % ";\n   ".join(a["vc"]))
    return "\n".join(o) + "\n"


def generate():
    text = render(analyse())
    os.makedirs(os.path.dirname(OUT), exist_ok=True)
    try:
        if open(OUT).read() == text:
            return
    except FileNotFoundError:
        pass
    tmp = OUT + ".tmp%d" % os.getpid()
    with open(tmp, "w") as f:
        f.write(text)
    os.replace(tmp, OUT)


generate.__name__ = "c03_names"

if __name__ == "__main__":
    try:
        if len(sys.argv) > 1 and sys.argv[1] == "--print":
            print(render(analyse()))
        else:
            generate()
            print(open(OUT).read())
    except Untranslatable as e:
        print("UNTRANSLATABLE:", e)
        sys.exit(1)
