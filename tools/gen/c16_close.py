"""C16 translator: the (error code, reason phrase) pairs the HTTP/3 layer hands to QuicConnection.close, and the
constants of QuicConnection._write_connection_close_frame, read from the current source tree.

Writes coq/gen/C16Close.v:
  * H3_CLOSE_SITES : list (Z * Z * Z) -- one entry per `raise <ProtocolError subclass>(...)` site of h3/connection.py:
    (error code, length of the fixed ASCII text of the message, number of format arguments).  A format argument is the
    repr of peer-chosen bytes (header names) or a number: its length is NOT bounded by anything in the HTTP/3 layer.
  * H3_CLOSE_CODES : the error codes of all ProtocolError subclasses
  * TRANSPORT_CLOSE_FRAME_CAPACITY, APPLICATION_CLOSE_FRAME_CAPACITY, FT_TRANSPORT_CLOSE, FT_APPLICATION_CLOSE,
    QUIC_APPLICATION_ERROR, UINT_VAR_MAX_SIZE
Fails closed (raises) when a construct is not found in the expected syntactic form, when a message is not ASCII, or when
_write_connection_close_frame no longer shortens the reason phrase against builder.remaining_buffer_space."""
import ast
import os

OUTPUTS = ["gen/C16Close.v"]
VERIF = os.path.dirname(os.path.dirname(os.path.dirname(os.path.abspath(__file__))))
REPO = os.environ.get("VERIF_REPO", "/repo")
SRC = os.path.join(REPO, "src", "aioquic")


def _parse(rel):
    return ast.parse(open(os.path.join(SRC, rel)).read())


def _const_int(node, env):
    """evaluate an int expression made of literals, names in env, + and *"""
    if isinstance(node, ast.Constant) and isinstance(node.value, int):
        return node.value
    if isinstance(node, ast.Name) and node.id in env:
        return env[node.id]
    if isinstance(node, ast.BinOp) and isinstance(node.op, (ast.Add, ast.Mult)):
        a, b = _const_int(node.left, env), _const_int(node.right, env)
        return a + b if isinstance(node.op, ast.Add) else a * b
    raise ValueError("not a constant int expression: %s" % ast.dump(node))


def _module_consts(tree, names, env):
    out = {}
    for n in tree.body:
        if isinstance(n, ast.Assign) and len(n.targets) == 1 and isinstance(n.targets[0], ast.Name) \
                and n.targets[0].id in names:
            out[n.targets[0].id] = _const_int(n.value, env)
    missing = [k for k in names if k not in out]
    if missing:
        raise ValueError("module constants not found: %s" % missing)
    return out


def _enum(tree, name):
    for n in tree.body:
        if isinstance(n, ast.ClassDef) and n.name == name:
            out = {}
            for a in n.body:
                if isinstance(a, ast.Assign) and isinstance(a.targets[0], ast.Name) and isinstance(a.value, ast.Constant) \
                        and isinstance(a.value.value, int):
                    out[a.targets[0].id] = a.value.value
            if out:
                return out
    raise ValueError("enum %s not found" % name)


def _protocol_errors(tree, codes):
    """class name -> error code, for ProtocolError and its (transitive) subclasses"""
    cls = {}
    for n in tree.body:
        if isinstance(n, ast.ClassDef):
            bases = [b.id for b in n.bases if isinstance(b, ast.Name)]
            code = None
            for a in n.body:
                if isinstance(a, ast.Assign) and isinstance(a.targets[0], ast.Name) and a.targets[0].id == "error_code":
                    v = a.value
                    if not (isinstance(v, ast.Attribute) and isinstance(v.value, ast.Name) and v.value.id == "ErrorCode"
                            and v.attr in codes):
                        raise ValueError("%s.error_code is not ErrorCode.<member>" % n.name)
                    code = codes[v.attr]
            cls[n.name] = (bases, code)
    out = {}

    def resolve(name, depth=0):
        if name in out:
            return out[name]
        if name not in cls or depth > 10:
            return None
        bases, code = cls[name]
        if name == "ProtocolError":
            out[name] = code
            return code
        for b in bases:
            bc = resolve(b, depth + 1)
            if bc is not None or b == "ProtocolError":
                out[name] = code if code is not None else bc
                return out[name]
        return None

    for name in cls:
        resolve(name)
    if "ProtocolError" not in out or out["ProtocolError"] is None:
        raise ValueError("ProtocolError.error_code not found")
    return out


def _message(arg):
    """(fixed ASCII text length, number of format arguments) of a reason-phrase expression"""
    if isinstance(arg, ast.Constant) and isinstance(arg.value, str):
        arg.value.encode("ascii")
        return len(arg.value), 0
    if isinstance(arg, ast.BinOp) and isinstance(arg.op, ast.Mod) and isinstance(arg.left, ast.Constant) \
            and isinstance(arg.left.value, str):
        text = arg.left.value
        text.encode("ascii")
        nargs = len(arg.right.elts) if isinstance(arg.right, ast.Tuple) else 1
        fixed = text
        n = 0
        for spec in ("%r", "%s", "%x", "%d"):
            n += fixed.count(spec)
            fixed = fixed.replace(spec, "")
        if n != nargs or "%" in fixed:
            raise ValueError("unsupported format string %r" % text)
        return len(fixed), nargs
    if isinstance(arg, ast.JoinedStr):
        fixed, nargs = 0, 0
        for v in arg.values:
            if isinstance(v, ast.Constant):
                v.value.encode("ascii")
                fixed += len(v.value)
            else:
                nargs += 1
        return fixed, nargs
    if isinstance(arg, ast.IfExp):
        a, b = _message(arg.body), _message(arg.orelse)
        return max(a[0], b[0]), max(a[1], b[1])
    raise ValueError("unsupported reason phrase expression: %s" % ast.dump(arg))


def _sites(tree, perr):
    sites = []
    for n in ast.walk(tree):
        if isinstance(n, ast.Raise) and n.exc is not None:
            e = n.exc
            if isinstance(e, ast.Name) and e.id in perr:
                sites.append((n.lineno, e.id, perr[e.id], 0, 0))
            elif isinstance(e, ast.Call) and isinstance(e.func, ast.Name) and e.func.id in perr:
                if e.keywords or len(e.args) > 1:
                    raise ValueError("line %d: unexpected arguments to %s" % (n.lineno, e.func.id))
                fixed, nargs = _message(e.args[0]) if e.args else (0, 0)
                sites.append((n.lineno, e.func.id, perr[e.func.id], fixed, nargs))
    if len(sites) < 20:
        raise ValueError("only %d ProtocolError raise sites found" % len(sites))
    return sorted(sites)


def _check_write_close(tree):
    """_write_connection_close_frame must shorten the reason against the room left in the packet"""
    for n in ast.walk(tree):
        if isinstance(n, ast.FunctionDef) and n.name == "_write_connection_close_frame":
            src = ast.unparse(n)
            for needle in ("max(0, builder.remaining_buffer_space - TRANSPORT_CLOSE_FRAME_CAPACITY)",
                           "if len(reason_bytes) > max_reason_length:",
                           "reason_bytes[:max_reason_length].decode('utf8', 'ignore').encode('utf8')",
                           "capacity=APPLICATION_CLOSE_FRAME_CAPACITY + reason_length",
                           "capacity=TRANSPORT_CLOSE_FRAME_CAPACITY + reason_length",
                           "error_code = QuicErrorCode.APPLICATION_ERROR",
                           "frame_type = QuicFrameType.PADDING"):
                if needle not in src:
                    raise ValueError("_write_connection_close_frame: expected construct not found: %s" % needle)
            return
    raise ValueError("_write_connection_close_frame not found")


def _check_close_round(tree):
    """the closing round of datagrams_to_send: start_packet + _write_connection_close_frame inside
    try/except QuicPacketBuilderStop: pass, followed (outside the loop) by builder.flush()"""
    for n in ast.walk(tree):
        if isinstance(n, ast.FunctionDef) and n.name == "datagrams_to_send":
            for t in ast.walk(n):
                if isinstance(t, ast.Try):
                    body = ast.unparse(ast.Module(body=t.body, type_ignores=[]))
                    if "builder.start_packet(packet_type, crypto)" in body and "self._write_connection_close_frame(" in body:
                        ok = [h for h in t.handlers if isinstance(h.type, ast.Name) and h.type.id == "QuicPacketBuilderStop"
                              and len(h.body) == 1 and isinstance(h.body[0], ast.Pass)]
                        if len(t.handlers) == 1 and ok and not t.finalbody and not t.orelse:
                            if "builder.flush()" not in ast.unparse(n):
                                raise ValueError("datagrams_to_send: builder.flush() not found")
                            return
            raise ValueError("datagrams_to_send: closing round is not start_packet + _write_connection_close_frame "
                             "inside try/except QuicPacketBuilderStop: pass")
    raise ValueError("datagrams_to_send not found")


def collect():
    h3 = _parse("h3/connection.py")
    conn = _parse("quic/connection.py")
    packet = _parse("quic/packet.py")
    buf = ast.parse(open(os.path.join(SRC, "buffer.py")).read())
    uvar = _module_consts(buf, ["UINT_VAR_MAX_SIZE"], {})
    caps = _module_consts(conn, ["TRANSPORT_CLOSE_FRAME_CAPACITY", "APPLICATION_CLOSE_FRAME_CAPACITY"], uvar)
    ft = _enum(packet, "QuicFrameType")
    qerr = _enum(packet, "QuicErrorCode")
    codes = _enum(h3, "ErrorCode")
    perr = _protocol_errors(h3, codes)
    sites = _sites(h3, perr)
    _check_write_close(conn)
    _check_close_round(conn)
    return dict(uvar=uvar["UINT_VAR_MAX_SIZE"], caps=caps, ft=ft, qerr=qerr, perr=perr, sites=sites)


def generate():
    d = collect()
    L = ["(* GENERATED by tools/gen/c16_close.py from src/aioquic/h3/connection.py, quic/connection.py, quic/packet.py, buffer.py"
         " -- do not edit *)",
         "From Coq Require Import ZArith List.", "Import ListNotations.", "Open Scope Z_scope.", "",
         "Definition UINT_VAR_MAX_SIZE : Z := %d." % d["uvar"],
         "Definition TRANSPORT_CLOSE_FRAME_CAPACITY : Z := %d." % d["caps"]["TRANSPORT_CLOSE_FRAME_CAPACITY"],
         "Definition APPLICATION_CLOSE_FRAME_CAPACITY : Z := %d." % d["caps"]["APPLICATION_CLOSE_FRAME_CAPACITY"],
         "Definition FT_TRANSPORT_CLOSE : Z := %d." % d["ft"]["TRANSPORT_CLOSE"],
         "Definition FT_APPLICATION_CLOSE : Z := %d." % d["ft"]["APPLICATION_CLOSE"],
         "Definition FT_CLOSE_PADDING : Z := %d." % d["ft"]["PADDING"],
         "Definition QUIC_APPLICATION_ERROR : Z := %d." % d["qerr"]["APPLICATION_ERROR"], "",
         "(* error codes of ProtocolError and its subclasses: %s *)" % ", ".join(sorted(d["perr"])),
         "Definition H3_CLOSE_CODES : list Z := [%s]." % "; ".join(str(c) for c in sorted(set(d["perr"].values()))), "",
         "(* (error code, length of the fixed ASCII text, number of unbounded format arguments), one per raise site *)",
         "Definition H3_CLOSE_SITES : list (Z * Z * Z) := ["]
    rows = ["  (%d, %d, %d)  (* line %d %s *)" % (code, fixed, nargs, line, cls) for (line, cls, code, fixed, nargs) in d["sites"]]
    L.append(";\n".join(rows))
    L.append("].")
    os.makedirs(os.path.join(VERIF, "coq", "gen"), exist_ok=True)
    with open(os.path.join(VERIF, "coq", OUTPUTS[0]), "w") as f:
        f.write("\n".join(L) + "\n")


if __name__ == "__main__":
    generate()
    print(open(os.path.join(VERIF, "coq", OUTPUTS[0])).read())
