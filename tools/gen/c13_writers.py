"""C13 translator for the FRAME WRITERS of connection.py: writes coq/gen/C13Writers.v.

For every `_write_*` method of QuicConnection that calls `builder.start_frame(...)` it extracts, by AST only,
  * the frame-type expression and the `capacity=EXPR` expression of every start_frame call (in source order),
  * the sequence of `buf.push_*` calls that follow it in the same block, with their argument expressions
    (a push guarded by `if <name>:` becomes a conditional segment),
  * the local definitions the capacity depends on (`frame_overhead`, `frame_size`, `max_reason_length`, ...),
and translates the expressions to Gallina terms over Z.  Free variables of an expression (locals, attribute chains,
`len(x)`) become parameters of the generated definition, in order of first appearance, so a change of a writer's
shape changes a definition's body or arity and breaks the model / the proofs that use it.
Also extracted: the *_CAPACITY constants (evaluated from the module constants they are built from), MAX_ACK_RANGES,
the push shape of packet.push_ack_frame, and the order in which _write_application / _write_handshake /
datagrams_to_send call the writers.  Fails closed (raises) on anything it does not understand, on a `buf.push_*`
outside the known writers and on a writer that is not in EXPECTED (a new frame writer has no model)."""
import ast
import os

OUTPUTS = ["gen/C13Writers.v"]
VERIF = os.path.dirname(os.path.dirname(os.path.dirname(os.path.abspath(__file__))))
REPO = os.environ.get("VERIF_REPO", "/repo")
SRC = os.path.join(REPO, "src", "aioquic")

# writers that have a hand-written model in coq/model/Writers.v (name -> number of start_frame call sites)
EXPECTED = {
    "_write_ack_frame": 1, "_write_connection_close_frame": 2, "_write_connection_limits": 1,
    "_write_crypto_frame": 1, "_write_datagram_frame": 1, "_write_handshake_done_frame": 1,
    "_write_new_connection_id_frame": 1, "_write_path_challenge_frame": 1, "_write_path_response_frame": 1,
    "_write_ping_frame": 1, "_write_reset_stream_frame": 1, "_write_retire_connection_id_frame": 1,
    "_write_stop_sending_frame": 1, "_write_stream_frame": 1, "_write_stream_limits": 1,
    "_write_streams_blocked_frame": 1,
}
# local definitions that the model uses (writer -> names that must be plain translatable assignments)
LETS = {
    "_write_crypto_frame": ["frame_overhead"],
    "_write_stream_frame": ["frame_overhead"],
    "_write_datagram_frame": ["frame_size"],
    "_write_connection_close_frame": ["max_reason_length"],
    "_write_new_connection_id_frame": ["retire_prior_to"],
}
PUSH_KIND = {"push_uint_var": 0, "push_bytes": 1, "push_uint8": 2, "push_uint16": 3}


class Fail(ValueError):
    pass


def _parse(rel):
    return ast.parse(open(os.path.join(SRC, rel)).read())


def _enum(tree, name):
    out = {}
    for n in tree.body:
        if isinstance(n, ast.ClassDef) and n.name == name:
            for a in n.body:
                if isinstance(a, ast.Assign) and isinstance(a.targets[0], ast.Name) and isinstance(a.value, ast.Constant) \
                        and isinstance(a.value.value, int):
                    out[a.targets[0].id] = a.value.value
    if not out:
        raise Fail("enum %s not found" % name)
    return out


def _module_consts(tree, env):
    """int module constants built from literals, earlier constants, + - * and parentheses."""
    def ev(e):
        if isinstance(e, ast.Constant) and isinstance(e.value, int) and not isinstance(e.value, bool):
            return e.value
        if isinstance(e, ast.Name) and e.id in env:
            return env[e.id]
        if isinstance(e, ast.BinOp) and isinstance(e.op, (ast.Add, ast.Sub, ast.Mult)):
            a, b = ev(e.left), ev(e.right)
            return a + b if isinstance(e.op, ast.Add) else a - b if isinstance(e.op, ast.Sub) else a * b
        raise Fail("not constant")
    for n in tree.body:
        if isinstance(n, ast.Assign) and len(n.targets) == 1 and isinstance(n.targets[0], ast.Name):
            try:
                env[n.targets[0].id] = ev(n.value)
            except Fail:
                pass
    return env


def _ident(s):
    out = "".join(ch if (ch.isalnum() or ch == "_") else "_" for ch in s)
    while "__" in out:
        out = out.replace("__", "_")
    return out.strip("_")


class Tr:
    """Python expression -> Gallina term over Z; collects parameters in order of first appearance."""

    def __init__(self, consts, ftypes, lets=()):
        self.consts, self.ftypes, self.params, self.lets = consts, ftypes, [], dict(lets)

    def param(self, name):
        name = _ident(name)
        if name in ("fun", "let", "in", "if", "then", "else", "match", "end", "at", "as", "length", "type", "Type"):
            name = name + "_v"
        if name not in self.params:
            self.params.append(name)
        return name

    def chain(self, e):
        parts = []
        while isinstance(e, ast.Attribute):
            parts.append(e.attr)
            e = e.value
        if not isinstance(e, ast.Name):
            raise Fail("attribute chain on %s" % ast.dump(e))
        parts.append(e.id)
        return list(reversed(parts))

    def tr(self, e):
        if isinstance(e, ast.Constant) and isinstance(e.value, int) and not isinstance(e.value, bool):
            return str(e.value) if e.value >= 0 else "(%d)" % e.value
        if isinstance(e, ast.Name):
            if e.id in self.consts:
                return e.id
            if e.id in self.lets:
                return self.lets[e.id]
            return self.param(e.id)
        if isinstance(e, ast.Attribute):
            ch = self.chain(e)
            if ch[0] == "QuicFrameType" and len(ch) == 2:
                if ch[1] not in self.ftypes:
                    raise Fail("unknown frame type %s" % ch[1])
                return str(self.ftypes[ch[1]])
            if ch[0] == "self":
                ch = ch[1:]
            return self.param("_".join(ch))
        if isinstance(e, ast.BinOp):
            a, b = self.tr(e.left), self.tr(e.right)
            if isinstance(e.op, ast.Add):
                return "(%s + %s)" % (a, b)
            if isinstance(e.op, ast.Sub):
                return "(%s - %s)" % (a, b)
            if isinstance(e.op, ast.Mult):
                return "(%s * %s)" % (a, b)
            if isinstance(e.op, ast.BitOr):
                return "(Z.lor %s %s)" % (a, b)
            raise Fail("operator %s" % type(e.op).__name__)
        if isinstance(e, ast.Call) and isinstance(e.func, ast.Name) and not e.keywords:
            f = e.func.id
            if f == "len" and len(e.args) == 1:
                return self.param("len_" + ast.unparse(e.args[0]).replace("self.", ""))
            if f == "size_uint_var" and len(e.args) == 1:
                return "(vsz %s)" % self.tr(e.args[0])
            if f in ("max", "min") and len(e.args) == 2:
                return "(Z.%s %s %s)" % (f, self.tr(e.args[0]), self.tr(e.args[1]))
            raise Fail("call %s" % f)
        if isinstance(e, ast.IfExp):
            return "(if (%s =? 0) then %s else %s)" % (self.tr(e.test), self.tr(e.orelse), self.tr(e.body))
        raise Fail("expression %s" % ast.unparse(e))


def _is_start_frame(call):
    return isinstance(call, ast.Call) and isinstance(call.func, ast.Attribute) and call.func.attr == "start_frame" \
        and isinstance(call.func.value, ast.Name) and call.func.value.id == "builder"


def _buf_push(stmt):
    """(kind, arg expr) when stmt is `buf.push_X(arg)`; 'ack' for `... = push_ack_frame(buf, ...)`."""
    v = stmt.value if isinstance(stmt, (ast.Expr, ast.Assign)) else None
    if isinstance(v, ast.Call) and isinstance(v.func, ast.Attribute) and isinstance(v.func.value, ast.Name) \
            and v.func.value.id == "buf" and v.func.attr.startswith("push_"):
        if v.func.attr not in PUSH_KIND or len(v.args) != 1 or v.keywords:
            raise Fail("unsupported push %s" % ast.unparse(v))
        return (PUSH_KIND[v.func.attr], v.args[0])
    if isinstance(v, ast.Call) and isinstance(v.func, ast.Name) and v.func.id == "push_ack_frame":
        if not (len(v.args) == 3 and isinstance(v.args[0], ast.Name) and v.args[0].id == "buf"):
            raise Fail("push_ack_frame call shape")
        return "ack"
    return None


def _start_frame_of(stmt):
    v = stmt.value if isinstance(stmt, (ast.Expr, ast.Assign)) else None
    return v if _is_start_frame(v) else None


def _frames_in_block(body, out):
    """walk a statement list in source order; every start_frame opens a frame whose pushes are the buf.push_*
    statements that follow in the same block (also inside `if <name>:` without else)."""
    cur = None
    for st in body:
        sf = _start_frame_of(st)
        if sf is not None:
            cur = {"call": sf, "pushes": []}
            out.append(cur)
            continue
        p = _buf_push(st)
        if p is not None:
            if cur is None:
                raise Fail("push before start_frame: %s" % ast.unparse(st))
            cur["pushes"].append((None, p))
            continue
        if isinstance(st, ast.If) and cur is not None and not st.orelse and st.body \
                and all(_buf_push(x) is not None for x in st.body):
            if not isinstance(st.test, (ast.Name, ast.Attribute)):
                raise Fail("conditional push with a complex test")
            for x in st.body:
                cur["pushes"].append((st.test, _buf_push(x)))
            continue
        # nested blocks: frames inside them are separate call sites; a frame opened outside does not continue inside
        for fld in ("body", "orelse", "finalbody"):
            sub = getattr(st, fld, None)
            if isinstance(sub, list) and sub and isinstance(sub[0], ast.stmt):
                inner = []
                _frames_in_block(sub, inner)
                if inner:
                    out.extend(inner)
                else:
                    for x in ast.walk(ast.Module(body=sub, type_ignores=[])):
                        if isinstance(x, ast.stmt) and _buf_push(x) is not None:
                            raise Fail("push in a nested block without its start_frame")
    return out


def _lets(fn, names, consts, ftypes):
    out = {}
    for name in names:
        found = None
        for st in fn.body:
            if isinstance(st, ast.Assign) and len(st.targets) == 1 and isinstance(st.targets[0], ast.Name) \
                    and st.targets[0].id == name:
                if found is not None:
                    raise Fail("%s: %s assigned twice at top level" % (fn.name, name))
                found = st.value
        if found is None:
            raise Fail("%s: local %s not found" % (fn.name, name))
        t = Tr(consts, ftypes)
        body = t.tr(found)
        out[name] = (t.params, body)
    return out


def _defn(name, params, body, typ="Z"):
    ps = " ".join("(%s : Z)" % p for p in params)
    return "Definition %s %s: %s := %s." % (name, ps + " " if ps else "", typ, body)


def _push_term(t, guard, p):
    if p == "ack":
        term = "[(4, 0)]"
    else:
        kind, arg = p
        term = "[(%d, %s)]" % (kind, t.tr(arg))
    if guard is not None:
        term = "(if (%s =? 0) then [] else %s)" % (t.tr(guard), term)
    return term


def _ack_shape(ptree):
    fn = None
    for n in ptree.body:
        if isinstance(n, ast.FunctionDef) and n.name == "push_ack_frame":
            fn = n
    if fn is None:
        raise Fail("packet.push_ack_frame not found")
    head, loop = [], None
    for st in fn.body:
        p = _buf_push(st)
        if p is not None:
            if loop is not None:
                raise Fail("push_ack_frame: push after the loop")
            head.append(ast.unparse(p[1]) if p[0] == 0 else "?")
        elif isinstance(st, ast.While):
            if loop is not None:
                raise Fail("push_ack_frame: two loops")
            loop = [ast.unparse(_buf_push(x)[1]) for x in st.body if _buf_push(x) is not None]
            for x in st.body:
                if isinstance(x, (ast.If, ast.For, ast.While)):
                    raise Fail("push_ack_frame: nested control flow")
            if ast.unparse(st.test) != "index > 0":
                raise Fail("push_ack_frame: loop test")
    if head != ["r.stop - 1", "delay", "index", "r.stop - 1 - r.start"] or \
            loop != ["start - r.stop - 1", "r.stop - r.start - 1"]:
        raise Fail("push_ack_frame: unexpected push shape %r %r" % (head, loop))
    return len(head), len(loop)


def _call_order(fn):
    """names of self._write_* calls in source order (a name once per call site)."""
    sites = []
    for n in ast.walk(fn):
        if isinstance(n, ast.Call) and isinstance(n.func, ast.Attribute) and isinstance(n.func.value, ast.Name) \
                and n.func.value.id == "self" and n.func.attr.startswith("_write_"):
            sites.append((n.lineno, n.col_offset, n.func.attr))
    return [s[2] for s in sorted(sites)]


def extract():
    ctree = _parse("quic/connection.py")
    ptree = _parse("quic/packet.py")
    btree = _parse("buffer.py")
    ftypes = _enum(ptree, "QuicFrameType")
    ecodes = _enum(ptree, "QuicErrorCode")
    if "APPLICATION_ERROR" not in ecodes:
        raise Fail("QuicErrorCode.APPLICATION_ERROR missing")
    env = _module_consts(btree, {})
    env = _module_consts(ptree, env)
    consts = _module_consts(ctree, dict(env))
    wanted = sorted(k for k in consts if k.endswith("_CAPACITY")) + \
        ["MAX_ACK_RANGES", "UINT_VAR_MAX_SIZE", "CONNECTION_ID_MAX_SIZE", "STATELESS_RESET_TOKEN_SIZE"]
    for k in wanted:
        if k not in consts:
            raise Fail("constant %s not found" % k)
    cls = None
    for n in ctree.body:
        if isinstance(n, ast.ClassDef) and n.name == "QuicConnection":
            cls = n
    if cls is None:
        raise Fail("QuicConnection not found")
    lines = []
    ids = {name: i for i, name in enumerate(sorted(EXPECTED))}
    seen = {}
    for fn in cls.body:
        if not isinstance(fn, ast.FunctionDef):
            continue
        has_sf = any(_is_start_frame(x) for x in ast.walk(fn))
        has_push = any(isinstance(x, ast.stmt) and _buf_push(x) is not None for x in ast.walk(fn))
        if not (has_sf or has_push):
            continue
        if fn.name not in EXPECTED:
            raise Fail("%s calls start_frame / buf.push_* but has no writer model" % fn.name)
        frames = _frames_in_block(fn.body, [])
        if len(frames) != EXPECTED[fn.name]:
            raise Fail("%s: %d start_frame call sites, expected %d" % (fn.name, len(frames), EXPECTED[fn.name]))
        n_sf = sum(1 for x in ast.walk(fn) if _is_start_frame(x))
        if n_sf != len(frames):
            raise Fail("%s: a start_frame call is not a statement of its own" % fn.name)
        short = fn.name[len("_write_"):]
        lets = _lets(fn, LETS.get(fn.name, []), consts, ftypes)
        for lname, (params, body) in lets.items():
            lines.append(_defn("W_%s_%s" % (short, lname), params, body))
        for i, fr in enumerate(frames):
            call = fr["call"]
            kw = {k.arg: k.value for k in call.keywords}
            if "frame_type" in kw and not call.args:
                ft = kw["frame_type"]
            elif len(call.args) == 1:
                ft = call.args[0]
            else:
                raise Fail("%s: start_frame argument shape" % fn.name)
            if "capacity" not in kw:
                raise Fail("%s: start_frame without capacity=" % fn.name)
            for key in kw:
                if key not in ("frame_type", "capacity", "handler", "handler_args"):
                    raise Fail("%s: start_frame keyword %s" % (fn.name, key))
            t = Tr(consts, ftypes); body = t.tr(ft)
            lines.append(_defn("W_%s_%d_ft" % (short, i), t.params, body))
            t = Tr(consts, ftypes); body = t.tr(kw["capacity"])
            lines.append(_defn("W_%s_%d_cap" % (short, i), t.params, body))
            t = Tr(consts, ftypes)
            terms = [_push_term(t, g, p) for (g, p) in fr["pushes"]]
            body = " ++ ".join(terms) if terms else "[]"
            lines.append(_defn("W_%s_%d_pushes" % (short, i), t.params, body, "list (Z * Z)"))
        seen[fn.name] = len(frames)
    for name in EXPECTED:
        if name not in seen:
            raise Fail("writer %s not found" % name)
    ack_head, ack_loop = _ack_shape(ptree)
    order = {}
    for name in ("_write_application", "_write_handshake", "datagrams_to_send"):
        fn = None
        for n in cls.body:
            if isinstance(n, ast.FunctionDef) and n.name == name:
                fn = n
        if fn is None:
            raise Fail("%s not found" % name)
        order[name] = _call_order(fn)
    # the ACK writer itself may trigger a PING
    for n in cls.body:
        if isinstance(n, ast.FunctionDef) and n.name.startswith("_write_") and n.name in EXPECTED:
            o = [x for x in _call_order(n)]
            if o and not (n.name == "_write_ack_frame" and o == ["_write_ping_frame"]):
                raise Fail("%s calls other writers: %r" % (n.name, o))
    ids2 = dict(ids)
    ids2["_write_handshake"] = 100
    ids2["_write_application"] = 101
    return {"consts": {k: consts[k] for k in wanted}, "lines": lines, "ack": (ack_head, ack_loop),
            "order": {k: [ids2[x] for x in v] for k, v in order.items()}, "ids": ids,
            "ftypes": ftypes, "app_error": ecodes["APPLICATION_ERROR"]}


def render(x):
    out = ["(* GENERATED by tools/gen/c13_writers.py from src/aioquic/quic/connection.py, quic/packet.py, buffer.py -- do not edit *)",
           "From Coq Require Import ZArith List.", "From AQ Require Import lib.Base model.Varint.",
           "Import ListNotations.", "Open Scope Z_scope.", "",
           "(* size_uint_var as a total function (0 where the code raises ValueError; the model checks the range first) *)",
           "Definition vsz (v : Z) : Z := match Varint.size_uint_var v with Ok n => n | Err _ => 0 end.", "",
           "(* pushes: (0, v) push_uint_var v | (1, n) push_bytes of n bytes | (2, v) push_uint8 | (3, v) push_uint16 |",
           "   (4, 0) packet.push_ack_frame(buf, ranges, delay) *)", ""]
    for k in sorted(x["consts"]):
        out.append("Definition %s : Z := %d." % (k, x["consts"][k]))
    out.append("")
    for name in ("ACK", "ACK_ECN", "PADDING", "PING", "RESET_STREAM", "STOP_SENDING", "CRYPTO", "STREAM_BASE", "MAX_DATA",
                 "MAX_STREAM_DATA", "MAX_STREAMS_BIDI", "MAX_STREAMS_UNI", "STREAMS_BLOCKED_BIDI", "STREAMS_BLOCKED_UNI",
                 "NEW_CONNECTION_ID", "RETIRE_CONNECTION_ID", "PATH_CHALLENGE", "PATH_RESPONSE", "TRANSPORT_CLOSE",
                 "APPLICATION_CLOSE", "HANDSHAKE_DONE", "DATAGRAM_WITH_LENGTH"):
        if name not in x["ftypes"]:
            raise Fail("QuicFrameType.%s missing" % name)
        out.append("Definition WFT_%s : Z := %d." % (name, x["ftypes"][name]))
    out.append("")
    out.append("Definition QEC_APPLICATION_ERROR : Z := %d." % x["app_error"])
    out.append("Definition ACK_HEAD_VARINTS : Z := %d." % x["ack"][0])
    out.append("Definition ACK_RANGE_VARINTS : Z := %d." % x["ack"][1])
    out.append("")
    out.append("(* writer ids (alphabetical): " + ", ".join("%d=%s" % (i, n) for n, i in sorted(x["ids"].items(), key=lambda t: t[1]))
               + "; 100=_write_handshake 101=_write_application *)")
    for k in ("_write_application", "_write_handshake", "datagrams_to_send"):
        out.append("Definition ORDER%s : list Z := [%s]." % (k if k.startswith("_") else "_" + k,
                                                             "; ".join(str(v) for v in x["order"][k])))
    out.append("")
    out.extend(x["lines"])
    return "\n".join(out) + "\n"


def generate():
    text = render(extract())
    path = os.path.join(VERIF, "coq", "gen", "C13Writers.v")
    os.makedirs(os.path.dirname(path), exist_ok=True)
    try:
        if open(path).read() == text:
            return
    except FileNotFoundError:
        pass
    tmp = path + ".tmp%d" % os.getpid()
    with open(tmp, "w") as f:
        f.write(text)
    os.replace(tmp, path)


if __name__ == "__main__":
    generate()
    print(open(os.path.join(VERIF, "coq", "gen", "C13Writers.v")).read())
