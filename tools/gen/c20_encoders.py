#!/usr/bin/env python3
"""C20 translator for the qlog ENCODERS and the RECORDS handed to log_event: writes coq/gen/LogEncoders.v.

From the CURRENT source under $VERIF_REPO/src/aioquic (Python `ast` only, nothing imported or executed):

  enc_methods   every method of quic/logger.py's QuicLoggerTrace (encode_*, packet_type, encode_time,
                _encode_http3_headers, log_event, to_dict) and the module function hexdump, as a term of
                model/LogVal.v's statement language, with the parameter types of its annotations;
  enc_sites     every call of such a method in connection.py / recovery.py / packet_builder.py /
                h3/connection.py / congestion/*.py with the INFERRED type of each argument expression;
  event_records every `log_event(category=, event=, data=...)` call: the `data` expression (or the statements
                that build it, with get_log_data of each congestion controller spliced in) as a method
                whose parameters are the leaf expressions of the record, typed by inference;
  enc_tabs      class attribute tables, plain-Enum member lists, PACKET_TYPE_NAMES.

Type inference of call-site expressions (trusted, fail closed): annotations of parameters / dataclass fields /
`self.x: T` / return types are believed; un-annotated locals and attributes get the join of the types of
everything assigned to them; a type that cannot be inferred is TUnknown, which no Coq check accepts.
Constructs of logger.py outside the recognised set raise (the generated file is removed, the proofs stop
compiling)."""
import ast
import glob
import json
import os

OUTPUTS = ["gen/LogEncoders.v"]
ROOT = os.path.dirname(os.path.dirname(os.path.dirname(os.path.abspath(__file__))))


class Fail(ValueError):
    pass


def repo():
    return os.environ.get("VERIF_REPO", "/repo")


def cstr(s):
    return '"' + str(s).replace('"', '""').replace("\n", " ") + '"'


# ------------------------------------------------------------------------------------------------------
# source index

class Cls:
    def __init__(self, name, node, mod):
        self.name, self.node, self.mod = name, node, mod
        self.bases = [ast.unparse(b).split(".")[-1] for b in node.bases]
        self.methods = {n.name: n for n in node.body if isinstance(n, ast.FunctionDef)}
        self.ann = {}        # attr -> annotation node
        self.rhs = {}        # attr -> [(expr, func)]
        self.members = []    # enum members (name, value)
        for st in node.body:
            if isinstance(st, ast.AnnAssign) and isinstance(st.target, ast.Name):
                self.ann[st.target.id] = st.annotation
            elif isinstance(st, ast.Assign) and len(st.targets) == 1 and isinstance(st.targets[0], ast.Name):
                self.members.append((st.targets[0].id, st.value))
        for fn in self.methods.values():
            for n in ast.walk(fn):
                tgts, val = [], None
                if isinstance(n, ast.Assign):
                    tgts, val = n.targets, n.value
                elif isinstance(n, ast.AnnAssign):
                    tgts, val = [n.target], n.value
                    if isinstance(n.target, ast.Attribute) and isinstance(n.target.value, ast.Name) and n.target.value.id == "self":
                        self.ann.setdefault(n.target.attr, n.annotation)
                elif isinstance(n, ast.AugAssign):
                    tgts, val = [n.target], ast.BinOp(left=n.target, op=n.op, right=n.value)
                for t in tgts:
                    if isinstance(t, ast.Attribute) and isinstance(t.value, ast.Name) and t.value.id == "self" and val is not None:
                        self.rhs.setdefault(t.attr, []).append((val, fn))


class Index:
    FILES = ["quic/connection.py", "quic/packet.py", "quic/packet_builder.py", "quic/recovery.py", "quic/stream.py",
             "quic/rangeset.py", "quic/configuration.py", "quic/logger.py", "quic/crypto.py", "h3/connection.py",
             "h3/events.py", "tls.py", "quic/events.py"]

    def __init__(self):
        self.base = os.path.join(repo(), "src", "aioquic")
        rels = list(self.FILES) + sorted(os.path.relpath(p, self.base) for p in glob.glob(os.path.join(self.base, "quic", "congestion", "*.py")))
        self.mods, self.classes, self.funcs, self.consts, self.aliases = {}, {}, {}, {}, {}
        for rel in rels:
            path = os.path.join(self.base, rel)
            if not os.path.exists(path):
                raise Fail("source file %s missing" % rel)
            tree = ast.parse(open(path).read(), filename=path)
            self.mods[rel] = tree
            for n in tree.body:
                if isinstance(n, ast.ClassDef):
                    self.classes.setdefault(n.name, Cls(n.name, n, rel))
                elif isinstance(n, ast.FunctionDef):
                    self.funcs.setdefault(n.name, n)
                elif isinstance(n, ast.Assign) and len(n.targets) == 1 and isinstance(n.targets[0], ast.Name):
                    self.consts.setdefault(n.targets[0].id, n.value)
        self._field_memo, self._busy, self._round = {}, set(), []

    # -- class helpers
    def mro(self, cname):
        out, todo = [], [cname]
        while todo:
            c = todo.pop(0)
            if c in self.classes and c not in out:
                out.append(c)
                todo += self.classes[c].bases
        return out

    def is_enum(self, cname):
        return any(b in ("Enum", "IntEnum", "IntFlag") for c in self.mro(cname) for b in self.classes[c].bases)

    def is_intenum(self, cname):
        return any(b in ("IntEnum", "IntFlag") for c in self.mro(cname) for b in self.classes[c].bases)

    def enum_value(self, cname, member):
        for m, v in self.classes[cname].members:
            if m == member and isinstance(v, ast.Constant) and isinstance(v.value, int):
                return v.value
        raise Fail("enum member %s.%s not an int constant" % (cname, member))

    def find_method(self, cname, name):
        for c in self.mro(cname):
            if name in self.classes[c].methods:
                return self.classes[c].methods[name], c
        return None, None

    # -- annotations
    def conv(self, a):
        if a is None:
            return "unknown"
        if isinstance(a, ast.Constant) and a.value is None:
            return "none"
        if isinstance(a, ast.Constant) and isinstance(a.value, str):
            try:
                return self.conv(ast.parse(a.value, mode="peval").body)
            except SyntaxError:
                return "unknown"
        if isinstance(a, ast.Attribute):
            a = ast.Name(id=a.attr)
        if isinstance(a, ast.Name):
            n = a.id
            if n in ("int", "float", "bool", "str", "bytes"):
                return n
            if n == "RangeSet":
                return "listobj:range"
            if n == "Headers":
                return "headers"
            if n == "Buffer":
                return "buffer"
            if n in self.classes:
                if self.is_intenum(n):
                    return "int"
                if self.is_enum(n):
                    return "enum:" + n
                return "obj:" + n
            if n in self.consts:      # type alias
                return self.conv(self.consts[n])
            return "unknown"
        if isinstance(a, ast.Subscript):
            head = ast.unparse(a.value).split(".")[-1]
            args = a.slice.elts if isinstance(a.slice, ast.Tuple) else [a.slice]
            if head == "Optional" and len(args) == 1:
                return join("none", self.conv(args[0]))
            if head in ("list", "List", "Sequence", "Deque", "deque") and len(args) == 1:
                t = self.conv(args[0])
                if head in ("list", "List") and t.startswith("tuple:") and t == "tuple:bytes,bytes":
                    return "headers"
                if t.startswith("obj:"):
                    return "iter:" + t
                return "jsonlist" if jsonable(t) and head in ("list", "List") else "unknown"
            if head in ("Iterable", "Iterator") and len(args) == 1 and self.conv(args[0]).startswith("obj:"):
                return "iter:" + self.conv(args[0])
            if head in ("dict", "Dict") and len(args) == 2 and self.conv(args[1]).startswith("obj:"):
                return "iter:" + self.conv(args[1])       # values; only .pop()/.get()/[...]/.values() are used
            if head in ("tuple", "Tuple"):
                return "tuple:" + ",".join(self.conv(x) for x in args)
            return "unknown"
        return "unknown"

    # -- attribute types
    def _field_join(self, cname, attr):
        for c in self.mro(cname):
            if attr in self.classes[c].ann:
                return self.conv(self.classes[c].ann[attr])
            if attr in self.classes[c].methods and any(ast.unparse(d) == "property" for d in self.classes[c].methods[attr].decorator_list):
                return self.conv(self.classes[c].methods[attr].returns)
        parts = []
        for c in self.mro(cname) + [x for x in self.classes if cname in self.mro(x) and x != cname]:
            for (rhs, fn) in self.classes[c].rhs.get(attr, []):
                parts.append(infer(self, rhs, Ctx(self.classes[c].mod, c, fn)))
        parts = [p for p in parts if p is not None]
        t = "unknown" if not parts else parts[0]
        for p in parts[1:]:
            t = join(t, p)
        return t

    def field(self, cname, attr):
        """type of attribute attr of class cname: its annotation, else the join of everything assigned to it.
        Recursive occurrences are first ignored (optimistic), then every result of the round is re-checked with
        the results as assumptions; what is not confirmed becomes unknown."""
        key = (cname, attr)
        if key in self._field_memo:
            return self._field_memo[key]
        if key in self._busy:
            return None
        outermost = not self._busy
        if outermost:
            self._round = []
        self._busy.add(key)
        try:
            t = self._field_join(cname, attr)
        finally:
            self._busy.discard(key)
        self._field_memo[key] = t
        self._round.append(key)
        if outermost:
            changed = True
            while changed:
                changed = False
                for k in list(self._round):
                    if self._field_memo[k] == "unknown":
                        continue
                    t2 = self._field_join(*k)
                    if t2 != self._field_memo[k]:
                        self._field_memo[k] = "unknown"
                        changed = True
            t = self._field_memo[key]
        return t


class Ctx:
    def __init__(self, mod, cls, func):
        self.mod, self.cls, self.func = mod, cls, func


JSONABLE = {"none", "bool", "int", "float", "str", "optint", "optfloat", "json", "jsondict", "jsonlist"}


def jsonable(t):
    return t in JSONABLE


def join(a, b):
    if a is None:
        return b
    if b is None:
        return a
    if a == b:
        return a
    if "unknown" in (a, b):
        return "unknown"
    s = {a, b}
    if s <= {"none", "int", "optint"}:
        return "optint"
    if s <= {"none", "float", "optfloat"}:
        return "optfloat"
    if s <= {"none", "bytes", "optbytes"}:
        return "optbytes"
    for x, y in ((a, b), (b, a)):
        if x == "none" and y.startswith("obj:"):
            return "opt:" + y
        if x.startswith("opt:obj:") and y in ("none", x[4:]):
            return x
    if jsonable(a) and jsonable(b):
        return "json"
    return "unknown"


NUM = {"int", "bool", "float"}
BUF_INT = {"pull_uint8", "pull_uint16", "pull_uint32", "pull_uint64", "pull_uint_var", "tell"}


def local_bindings(func, name):
    """every expression bound to local `name` in func: ('expr', e) | ('elem', e, i) tuple-unpacking | ('iter', e)"""
    out = []
    for n in ast.walk(func):
        if isinstance(n, ast.Assign):
            for t in n.targets:
                if isinstance(t, ast.Name) and t.id == name:
                    out.append(("expr", n.value))
                elif isinstance(t, (ast.Tuple, ast.List)):
                    for i, el in enumerate(t.elts):
                        if isinstance(el, ast.Name) and el.id == name:
                            out.append(("elem", n.value, i))
        elif isinstance(n, ast.AnnAssign) and isinstance(n.target, ast.Name) and n.target.id == name:
            out.append(("ann", n.annotation))
        elif isinstance(n, ast.AugAssign) and isinstance(n.target, ast.Name) and n.target.id == name:
            out.append(("expr", ast.BinOp(left=ast.Name(id=name, ctx=ast.Load()), op=n.op, right=n.value)))
        elif isinstance(n, (ast.For, ast.comprehension)):
            t = n.target
            if isinstance(t, ast.Name) and t.id == name:
                out.append(("iter", n.iter))
            elif isinstance(t, (ast.Tuple, ast.List)) and any(isinstance(el, ast.Name) and el.id == name for el in t.elts):
                out.append(("unknown", None))
        elif isinstance(n, (ast.With,)):
            for it in n.items:
                if isinstance(it.optional_vars, ast.Name) and it.optional_vars.id == name:
                    out.append(("unknown", None))
        elif isinstance(n, ast.ExceptHandler) and n.name == name:
            out.append(("unknown", None))
    return out


_infer_busy = set()


def infer(ix, e, ctx):
    """type of expression e (string), None = recursive occurrence (ignored by joins)"""
    if isinstance(e, ast.Constant):
        v = e.value
        return ("none" if v is None else "bool" if isinstance(v, bool) else "int" if isinstance(v, int) else
                "float" if isinstance(v, float) else "str" if isinstance(v, str) else "bytes" if isinstance(v, bytes) else "unknown")
    if isinstance(e, ast.Name):
        if e.id == "quic_logger_frames":
            return "json"
        return infer_name(ix, e.id, ctx)
    if isinstance(e, ast.Attribute):
        if e.attr == "quic_logger_frames":
            return "json"        # None or a list of encoder results: pinned by check_frames_lists
        if isinstance(e.value, ast.Name) and e.value.id == "math" and e.attr in ("inf", "nan", "pi", "e"):
            return "float"
        if isinstance(e.value, ast.Name) and e.value.id == "self" and ctx.cls:
            return ix.field(ctx.cls, e.attr)
        # Enum member
        tail = e.value.attr if isinstance(e.value, ast.Attribute) else e.value.id if isinstance(e.value, ast.Name) else None
        if tail in ix.classes and ix.is_enum(tail) and any(m == e.attr for m, _ in ix.classes[tail].members):
            return "int" if ix.is_intenum(tail) else "enum:" + tail
        tv = infer(ix, e.value, ctx)
        if tv is None:
            return None
        if tv.startswith("obj:"):
            return ix.field(tv[4:], e.attr)
        if tv == "buffer" and e.attr == "capacity":
            return "int"
        if tv.startswith("enum:") and e.attr == "value":
            return "int"
        if tv == "listobj:range" or tv == "obj:range":
            return "int" if e.attr in ("start", "stop") else "unknown"
        return "unknown"
    if isinstance(e, ast.Call):
        return infer_call(ix, e, ctx)
    if isinstance(e, ast.BinOp):
        a, b = infer(ix, e.left, ctx), infer(ix, e.right, ctx)
        if a is None or b is None:
            return a if b is None else b
        # arithmetic on None raises in core code, with or without logging
        a = {"optint": "int", "optfloat": "float"}.get(a, a)
        b = {"optint": "int", "optfloat": "float"}.get(b, b)
        if isinstance(e.op, ast.Mod) and a in ("str", "bytes"):
            return a
        if a in NUM and b in NUM:
            if isinstance(e.op, ast.Div):
                return "float"
            if "float" in (a, b):
                return "float" if isinstance(e.op, (ast.Add, ast.Sub, ast.Mult, ast.Pow, ast.Mod, ast.FloorDiv)) else "unknown"
            if isinstance(e.op, ast.Pow):
                return "unknown"       # int ** negative int is a float
            return "int"
        if a == b and a in ("str", "bytes") and isinstance(e.op, ast.Add):
            return a
        return "unknown"
    if isinstance(e, ast.UnaryOp):
        if isinstance(e.op, ast.Not):
            return "bool"
        t = infer(ix, e.operand, ctx)
        return t if t in ("int", "float") else "int" if t == "bool" else "unknown"
    if isinstance(e, ast.Compare):
        return "bool"            # rich comparisons of the builtin types used here return bool
    if isinstance(e, ast.BoolOp):
        t = None
        for v in e.values:
            t = join(t, infer(ix, v, ctx))
        return t
    if isinstance(e, ast.IfExp):
        return join(infer(ix, e.body, ctx), infer(ix, e.orelse, ctx))
    if isinstance(e, ast.JoinedStr):
        return "str"
    if isinstance(e, ast.List):
        ts = [infer(ix, x, ctx) for x in e.elts]
        if ts and all(t is not None and t.startswith("obj:") and t == ts[0] for t in ts):
            return "iter:" + ts[0]
        return "jsonlist" if all(t is not None and jsonable(t) for t in ts) else "unknown"
    if isinstance(e, ast.Dict):
        ok = all(isinstance(k, ast.Constant) and isinstance(k.value, str) for k in e.keys)
        ts = [infer(ix, x, ctx) for x in e.values]
        return "jsondict" if ok and all(t is not None and jsonable(t) for t in ts) else "unknown"
    if isinstance(e, ast.Subscript):
        tv = infer(ix, e.value, ctx)
        if tv and tv.startswith("tuple:") and isinstance(e.slice, ast.Constant) and isinstance(e.slice.value, int):
            parts = tv[6:].split(",")
            return parts[e.slice.value] if 0 <= e.slice.value < len(parts) else "unknown"
        if tv in ("bytes", "str") and isinstance(e.slice, ast.Slice):
            return tv
        if tv == "jsonlist" and not isinstance(e.slice, ast.Slice):
            return "json"          # an element of a list of JSON values (IndexError would be core code)
        if tv and tv.startswith("iter:") and not isinstance(e.slice, ast.Slice):
            return tv[5:]
        return "unknown"
    if isinstance(e, ast.ListComp) and len(e.generators) == 1 and isinstance(e.generators[0].target, ast.Name) \
            and isinstance(e.elt, ast.Name) and e.elt.id == e.generators[0].target.id:
        return "jsonlist" if infer(ix, e.generators[0].iter, ctx) == "jsonlist" else "unknown"
    return "unknown"


def infer_name(ix, name, ctx):
    fn = ctx.func
    if fn is not None:
        args = fn.args
        allargs = args.posonlyargs + args.args + args.kwonlyargs
        defaults = dict(zip([a.arg for a in (args.posonlyargs + args.args)][-len(args.defaults):] if args.defaults else [], args.defaults))
        defaults.update({a.arg: d for a, d in zip(args.kwonlyargs, args.kw_defaults) if d is not None})
        for a in allargs:
            if a.arg == name:
                if a.annotation is not None:
                    return ix.conv(a.annotation)
                if name in defaults and isinstance(defaults[name], ast.Constant):
                    return infer(ix, defaults[name], ctx)
                return "unknown"
        key = (id(fn), name)
        if key in _infer_busy:
            return None
        binds = local_bindings(fn, name)
        if binds:
            _infer_busy.add(key)
            try:
                t = None
                for b in binds:
                    if b[0] == "expr":
                        t = join(t, infer(ix, b[1], ctx))
                    elif b[0] == "ann":
                        return ix.conv(b[1])
                    elif b[0] == "elem":
                        tv = infer(ix, b[1], ctx)
                        if tv and tv.startswith("tuple:"):
                            parts = tv[6:].split(",")
                            t = join(t, parts[b[2]] if b[2] < len(parts) else "unknown")
                        elif tv is not None:
                            t = join(t, "unknown")
                    elif b[0] == "iter":
                        if isinstance(b[1], (ast.Tuple, ast.List)):
                            for el in b[1].elts:
                                t = join(t, infer(ix, el, ctx))
                        else:
                            tv = infer(ix, b[1], ctx)
                            if tv is not None:
                                t = join(t, "obj:range" if tv == "listobj:range" else tv[5:] if tv.startswith("iter:") else "unknown")
                    else:
                        t = join(t, "unknown")
                return t
            finally:
                _infer_busy.discard(key)
    if name in ix.consts:
        return infer(ix, ix.consts[name], Ctx(None, None, None))
    return "unknown"


def infer_call(ix, e, ctx):
    f = e.func
    args = [infer(ix, a, ctx) for a in e.args]
    if isinstance(f, ast.Name):
        n = f.id
        if n == "len":
            return "int"
        if n in ("int", "bool", "str", "float", "bytes"):
            return n
        if n in ("min", "max"):
            ts = [a for a in args if a is not None]
            if ts and all(t in ("int", "optint", "bool") for t in ts):
                return "int"     # max/min with a None operand raises in core code, with or without logging
            if ts and all(t in ("float", "optfloat") for t in ts):
                return "float"
            return "unknown"
        if n in ("abs",):
            return args[0] if args and args[0] in ("int", "float") else "unknown"
        if n in ("hexdump", "dump_cid"):
            return "str" if args and args[0] == "bytes" else "unknown"
        if n in ix.classes or n == "Buffer":
            return ix.conv(ast.Name(id=n))
        if n in ix.funcs:
            return ix.conv(ix.funcs[n].returns)
        return "unknown"
    if isinstance(f, ast.Attribute):
        m = f.attr
        if isinstance(f.value, ast.Attribute) and f.value.attr == "_quic_logger":
            return "float" if m == "encode_time" else "str" if m == "packet_type" else "json"
        if isinstance(f.value, ast.Name) and f.value.id == "time" and m == "time":
            return "float"
        if m in BUF_INT:
            return "int"
        if m in ("pop", "popleft"):
            tv = infer(ix, f.value, ctx)
            if tv and tv.startswith("iter:"):
                return tv[5:]
        if m == "pull_bytes":
            return "bytes"
        if m in ("decode", "hex"):
            return "str"
        if m == "encode":
            return "bytes"
        if m == "get" and isinstance(f.value, ast.Dict) and len(e.args) == 2:
            t = args[1]
            for v in f.value.values:
                t = join(t, infer(ix, v, ctx))
            return t
        # method with a return annotation
        if isinstance(f.value, ast.Name) and f.value.id == "self" and ctx.cls:
            fn, _ = ix.find_method(ctx.cls, m)
            if fn is not None:
                return ix.conv(fn.returns)
        if isinstance(f.value, ast.Call) and isinstance(f.value.func, ast.Name) and f.value.func.id == "super" and ctx.cls:
            for c in ix.mro(ctx.cls)[1:]:
                if m in ix.classes[c].methods:
                    return ix.conv(ix.classes[c].methods[m].returns)
        tv = infer(ix, f.value, ctx)
        if tv and tv.startswith("obj:"):
            fn, _ = ix.find_method(tv[4:], m)
            if fn is not None:
                return ix.conv(fn.returns)
        # receiver of unknown type: by name, when every method of that name in the analysed files agrees
        rets = {ix.conv(c.methods[m].returns) for c in ix.classes.values() if m in c.methods}
        if len(rets) == 1:
            return rets.pop()
        return "unknown"
    return "unknown"


def log_safe(ix, e, ctx, notnone=frozenset()):
    """The expression e is EVALUATED INSIDE LOG CODE (a record leaf or an encoder argument): its own operations must be of
    forms that cannot raise on values of the inferred types.  (What names / attributes hold is decided by infer(), which
    looks at core code; an operation that can raise there raises with and without logging.)"""
    if isinstance(e, (ast.Constant, ast.Name)):
        return True
    if isinstance(e, ast.Attribute):
        # reading an attribute of an object of a known class (or an Enum member); the object expression itself must be safe
        t = infer(ix, e, ctx)
        if t is None or t == "unknown":
            return False
        if isinstance(e.value, ast.Name):
            return True
        return log_safe(ix, e.value, ctx) and (infer(ix, e.value, ctx) or "").startswith(("obj:", "enum:"))
    if isinstance(e, ast.BinOp):
        if not isinstance(e.op, (ast.Add, ast.Sub, ast.Mult)):
            return False          # / // % ** << can raise (ZeroDivisionError, OverflowError, MemoryError)
        a, b = infer(ix, e.left, ctx), infer(ix, e.right, ctx)
        if a in ("int", "bool") and b in ("int", "bool") or (a == "float" and b == "float"):
            return log_safe(ix, e.left, ctx) and log_safe(ix, e.right, ctx)
        return False              # int*float conversions can overflow, None arithmetic raises
    if isinstance(e, ast.Compare):
        ok_ops = all(isinstance(o, (ast.Is, ast.IsNot, ast.Eq, ast.NotEq)) for o in e.ops)
        return ok_ops and log_safe(ix, e.left, ctx) and all(log_safe(ix, c, ctx) for c in e.comparators)
    if isinstance(e, ast.IfExp):
        nb, no = set(notnone), set(notnone)
        t = e.test
        if isinstance(t, ast.Compare) and len(t.ops) == 1 and isinstance(t.left, ast.Name) \
                and isinstance(t.comparators[0], ast.Constant) and t.comparators[0].value is None:
            if isinstance(t.ops[0], ast.Is):
                no.add(t.left.id)
            elif isinstance(t.ops[0], ast.IsNot):
                nb.add(t.left.id)
        return log_safe(ix, e.test, ctx, notnone) and log_safe(ix, e.body, ctx, frozenset(nb)) and log_safe(ix, e.orelse, ctx, frozenset(no))
    if isinstance(e, ast.UnaryOp) and isinstance(e.op, ast.Not):
        return log_safe(ix, e.operand, ctx, notnone)
    if isinstance(e, ast.Call) and not e.keywords and len(e.args) == 1 and isinstance(e.func, ast.Name):
        t = infer(ix, e.args[0], ctx)
        if t == "optbytes" and isinstance(e.args[0], ast.Name) and e.args[0].id in notnone:
            t = "bytes"
        if e.func.id == "len":
            return t in ("bytes", "str", "jsonlist", "jsondict", "headers") and log_safe(ix, e.args[0], ctx)
        if e.func.id in ("hexdump", "dump_cid"):
            return t == "bytes" and log_safe(ix, e.args[0], ctx)      # encoders_total_hexdump
        if e.func.id == "int":
            return t in ("int", "bool") and log_safe(ix, e.args[0], ctx)   # int(float) raises on inf / NaN
        return False
    if isinstance(e, ast.Call) and isinstance(e.func, ast.Attribute) and isinstance(e.func.value, ast.Attribute) \
            and e.func.value.attr == "_quic_logger":
        return True               # an encoder call: its own site entry in enc_sites carries the obligation
    return False


COQ_TY = {"optfloat": "TJson", "none": "TNone", "bool": "TBool", "int": "TInt", "float": "TFloat", "str": "TStr", "bytes": "TBytes",
          "optint": "TOptInt", "json": "TJson", "jsondict": "TJsonDict", "jsonlist": "TJsonList", "any": "TAny",
          "headers": "THeaders", "unknown": "TUnknown"}


def coq_ty(t, used_classes=None):
    if t is None:
        return "TUnknown"
    if t in COQ_TY:
        return COQ_TY[t]
    if t.startswith("obj:"):
        if used_classes is not None:
            used_classes.add(t[4:])
        return "(TObj %s)" % cstr(t[4:])
    if t.startswith("listobj:"):
        if used_classes is not None:
            used_classes.add(t[8:])
        return "(TListObj %s)" % cstr(t[8:])
    if t.startswith("enum:"):
        return "(TEnumOf %s)" % cstr(t[5:])
    return "TUnknown"


# ------------------------------------------------------------------------------------------------------
# Python -> pe / ps

TOTAL_ERRORS = {"replace", "backslashreplace", "ignore", "surrogateescape", "namereplace", "xmlcharrefreplace"}


class Tx:
    """translator of one function body.  leaf(e) decides what a non-structural expression becomes."""

    def __init__(self, ix, ctx, mode, logger_cls=None):
        self.ix, self.ctx, self.mode = ix, ctx, mode     # mode: 'logger' (strict) | 'event' (leaves allowed)
        self.params = []          # [(name, coq type, comment)]
        self.locals = set()
        self.bound = set()
        self.sites = []           # encoder call sites met in event mode
        self.used_classes = set()
        self.extra = {}

    def need_time(self):
        if "%time" not in [p[0] for p in self.params]:
            self.params.append(("%time", "TFloat", "time.time()"))
        return '(EVar "%time")'

    def leaf(self, e):
        if self.mode != "event":
            raise Fail("logger.py: expression outside the recognised set: %s" % ast.unparse(e)[:80])
        src = ast.unparse(e)
        for (n, _, c) in self.params:
            if c == src:
                return "(EVar %s)" % cstr(n)
        t = infer(self.ix, e, self.ctx)
        if not log_safe(self.ix, e, self.ctx):
            t = "unknown"
        # an encoder call: record the site, the value is JSON by meth_sound
        if isinstance(e, ast.Call) and isinstance(e.func, ast.Attribute) and isinstance(e.func.value, ast.Attribute) \
                and e.func.value.attr == "_quic_logger":
            self.sites.append(e)
        name = "a%d" % len(self.params)
        self.params.append((name, coq_ty(t, self.used_classes), src))
        return "(EVar %s)" % cstr(name)

    def expr(self, e):
        ix = self.ix
        if isinstance(e, ast.Constant):
            v = e.value
            if v is None:
                return "ENone"
            if isinstance(v, bool):
                return "(EBool %s)" % ("true" if v else "false")
            if isinstance(v, int):
                return "(EInt (%d))" % v
            if isinstance(v, str):
                return "(EStr %s)" % cstr(v)
            return self.leaf(e)
        if isinstance(e, ast.Dict):
            out = "EDictNil"
            seen = set()
            for k, v in zip(e.keys, e.values):
                if not (isinstance(k, ast.Constant) and isinstance(k.value, str)):
                    raise Fail("dict key is not a str constant: %s" % ast.unparse(e)[:80])
                if k.value in seen:
                    raise Fail("duplicate dict key %r" % k.value)
                seen.add(k.value)
            for k, v in reversed(list(zip(e.keys, e.values))):
                out = "(EDictCons (EStr %s) %s %s)" % (cstr(k.value), self.expr(v), out)
            return out
        if isinstance(e, ast.List):
            out = "EListNil"
            for v in reversed(e.elts):
                out = "(EListCons %s %s)" % (self.expr(v), out)
            return out
        if isinstance(e, ast.Name):
            if e.id in self.locals or e.id in self.bound or self.mode == "logger":
                return "(EVar %s)" % cstr(e.id)
            return self.leaf(e)
        if self.mode == "event":
            if isinstance(e, ast.IfExp) and isinstance(e.body, (ast.Dict, ast.List)):
                pass
            else:
                return self.leaf(e)
        # ---- logger.py only below
        if isinstance(e, ast.Attribute):
            tail = e.value.id if isinstance(e.value, ast.Name) else None
            if tail in ix.classes and ix.is_enum(tail):
                if ix.is_intenum(tail):
                    return "(EInt (%d))" % ix.enum_value(tail, e.attr)
                return "(EEnum %s %s)" % (cstr(tail), cstr(e.attr))
            return "(EAttr %s %s)" % (self.expr(e.value), cstr(e.attr))
        if isinstance(e, ast.Subscript):
            if isinstance(e.slice, ast.Constant) and isinstance(e.slice.value, int) and not isinstance(e.slice.value, bool):
                return "(EIdx %s (%d))" % (self.expr(e.value), e.slice.value)
            if isinstance(e.value, ast.Name) and e.value.id in ix.consts and isinstance(ix.consts[e.value.id], ast.Dict) \
                    and e.value.id not in self.locals:
                self.extra.setdefault("tables", set()).add(e.value.id)
                return "(ETable %s %s)" % (cstr(e.value.id), self.expr(e.slice))
            raise Fail("subscript not understood: %s" % ast.unparse(e)[:80])
        if isinstance(e, ast.BinOp):
            op = {ast.Sub: "BSub", ast.Add: "BAdd", ast.Mult: "BMul"}.get(type(e.op))
            if op is None:
                raise Fail("operator not understood: %s" % ast.unparse(e)[:80])
            return "(EBin %s %s %s)" % (op, self.expr(e.left), self.expr(e.right))
        if isinstance(e, ast.Compare) and len(e.ops) == 1:
            r = e.comparators[0]
            if isinstance(e.ops[0], ast.Is) and isinstance(r, ast.Constant) and r.value is None:
                return "(EIsNone %s)" % self.expr(e.left)
            if isinstance(e.ops[0], ast.IsNot) and isinstance(r, ast.Constant) and r.value is None:
                return "(EIsNotNone %s)" % self.expr(e.left)
            if isinstance(e.ops[0], ast.Eq):
                return "(EEq %s %s)" % (self.expr(e.left), self.expr(r))
            raise Fail("comparison not understood: %s" % ast.unparse(e)[:80])
        if isinstance(e, ast.IfExp):
            return "(EIf %s %s %s)" % (self.expr(e.test), self.expr(e.body), self.expr(e.orelse))
        if isinstance(e, ast.ListComp):
            if len(e.generators) != 1 or e.generators[0].ifs or e.generators[0].is_async or not isinstance(e.generators[0].target, ast.Name):
                raise Fail("comprehension not understood: %s" % ast.unparse(e)[:80])
            g = e.generators[0]
            it = self.expr(g.iter)
            saved = set(self.bound)
            self.bound.add(g.target.id)
            elt = self.expr(e.elt)
            self.bound = saved
            return "(EComp %s %s %s)" % (elt, cstr(g.target.id), it)
        if isinstance(e, ast.Call):
            return self.call(e)
        raise Fail("expression not understood: %s" % ast.unparse(e)[:80])

    def call(self, e):
        ix, f = self.ix, e.func
        if isinstance(f, ast.Name):
            if f.id == "len" and len(e.args) == 1 and not e.keywords:
                return "(ELen %s)" % self.expr(e.args[0])
            if f.id == "int" and len(e.args) == 1 and not e.keywords:
                return "(EIntOf %s)" % self.expr(e.args[0])
            if f.id == "list" and len(e.args) == 1 and not e.keywords:
                return "(EListOf %s)" % self.expr(e.args[0])
            if f.id == "isinstance" and len(e.args) == 2 and isinstance(e.args[1], ast.Name):
                return "(EIsInstance %s %s)" % (self.expr(e.args[0]), cstr(e.args[1].id))
            if f.id in ix.funcs and ix.funcs[f.id] in ix.mods["quic/logger.py"].body:
                return self.inline(ix.funcs[f.id], e, skip_self=False)
            raise Fail("call not understood: %s" % ast.unparse(e)[:80])
        if isinstance(f, ast.Attribute):
            if isinstance(f.value, ast.Name) and f.value.id == "self" and f.attr in ix.classes["QuicLoggerTrace"].methods:
                return self.inline(ix.classes["QuicLoggerTrace"].methods[f.attr], e, skip_self=True)
            if isinstance(f.value, ast.Name) and f.value.id == "binascii" and f.attr == "hexlify" and len(e.args) == 1:
                return "(EHexlify %s)" % self.expr(e.args[0])
            if isinstance(f.value, ast.Name) and f.value.id == "time" and f.attr == "time" and not e.args:
                return self.need_time()
            if f.attr == "decode":
                a = [x.value if isinstance(x, ast.Constant) else None for x in e.args]
                kw = {k.arg: (k.value.value if isinstance(k.value, ast.Constant) else None) for k in e.keywords}
                codec = a[0] if a else kw.get("encoding", "utf-8")
                errors = a[1] if len(a) > 1 else kw.get("errors", "strict")
                if not isinstance(codec, str) or not isinstance(errors, str):
                    raise Fail("decode() with non-constant codec / error mode")
                codec = codec.lower().replace("_", "-")
                if codec in ("latin-1", "latin1", "iso-8859-1") or (codec in ("utf8", "utf-8", "ascii") and errors in TOTAL_ERRORS):
                    mode = "DLenient"
                elif codec == "ascii" and errors == "strict":
                    mode = "DAsciiStrict"
                elif codec in ("utf8", "utf-8") and errors == "strict":
                    mode = "DUtf8Strict"
                else:
                    raise Fail("decode(%r, %r) not understood" % (codec, errors))
                return "(EDecode %s %s)" % (mode, self.expr(f.value))
            if f.attr == "items" and not e.args and isinstance(f.value, ast.Attribute) and f.value.attr == "__dict__":
                return "(EItems %s)" % self.expr(f.value.value)
        raise Fail("call not understood: %s" % ast.unparse(e)[:80])

    def inline(self, fn, call, skip_self):
        params = [a.arg for a in fn.args.args]
        if skip_self:
            params = params[1:]
        body = [s for s in fn.body if not (isinstance(s, ast.Expr) and isinstance(s.value, ast.Constant))]
        if len(body) != 1 or not isinstance(body[0], ast.Return) or fn.args.kwonlyargs or fn.args.vararg or fn.args.kwarg:
            raise Fail("cannot inline %s: not a one-expression function" % fn.name)
        if len(params) != 1:
            raise Fail("cannot inline %s: %d parameters" % (fn.name, len(params)))
        if len(call.args) == 1 and not call.keywords:
            arg = call.args[0]
        elif not call.args and len(call.keywords) == 1 and call.keywords[0].arg == params[0]:
            arg = call.keywords[0].value
        else:
            raise Fail("cannot inline call %s" % ast.unparse(call)[:80])
        a = self.expr(arg)
        free = {n.id for n in ast.walk(body[0].value) if isinstance(n, ast.Name) and isinstance(n.ctx, ast.Load)}
        comp = {n.target.id for n in ast.walk(body[0].value) if isinstance(n, ast.comprehension) and isinstance(n.target, ast.Name)}
        if not free - comp - {"binascii", "time"} <= {params[0]}:
            raise Fail("cannot inline %s: free variables %r" % (fn.name, sorted(free - comp)))
        sub = Tx(self.ix, self.ctx, "logger")
        sub.params = self.params
        b = sub.expr(body[0].value)
        self.extra.setdefault("tables", set()).update(sub.extra.get("tables", set()))
        return "(ELet %s %s %s)" % (cstr(params[0]), a, b)

    # -- statements (logger.py methods, get_log_data, record-building blocks)
    def stmts(self, body, final_append=False):
        out = []
        for i, s in enumerate(body):
            out.append(self.stmt(s))
        out = [o for o in out if o != "PSkip"] or ["PSkip"]
        r = out[-1]
        for o in reversed(out[:-1]):
            r = "(PSeq %s %s)" % (o, r)
        return r

    def stmt(self, s):
        if isinstance(s, ast.Expr) and isinstance(s.value, ast.Constant):
            return "PSkip"
        if isinstance(s, ast.Pass):
            return "PSkip"
        if isinstance(s, ast.Return):
            return "(PRet %s)" % (self.expr(s.value) if s.value is not None else "ENone")
        if isinstance(s, (ast.Assign, ast.AnnAssign)):
            tgts = s.targets if isinstance(s, ast.Assign) else [s.target]
            if len(tgts) != 1 or s.value is None:
                raise Fail("assignment not understood: %s" % ast.unparse(s)[:80])
            t = tgts[0]
            if isinstance(t, ast.Name):
                v = self.value_expr(s.value)
                self.locals.add(t.id)
                return "(PAssign %s %s)" % (cstr(t.id), v)
            if isinstance(t, ast.Subscript) and isinstance(t.value, ast.Name) and t.value.id in self.locals:
                return "(PSetItem %s %s %s)" % (cstr(t.value.id), self.expr(t.slice), self.expr(s.value))
            raise Fail("assignment target not understood: %s" % ast.unparse(s)[:80])
        if isinstance(s, ast.If):
            t = s.test
            a = self.stmts(s.body)
            b = self.stmts(s.orelse) if s.orelse else "PSkip"
            if isinstance(t, ast.Call) and isinstance(t.func, ast.Name) and t.func.id == "isinstance" and len(t.args) == 2 \
                    and isinstance(t.args[0], ast.Name) and isinstance(t.args[1], ast.Name) and t.args[0].id in self.locals | self.bound:
                return "(PIfInst %s %s %s %s)" % (cstr(t.args[0].id), cstr(t.args[1].id), a, b)
            return "(PIf %s %s %s)" % (self.cond(t), a, b)
        if isinstance(s, ast.For) and not s.orelse and isinstance(s.target, ast.Tuple) and len(s.target.elts) == 2 \
                and all(isinstance(x, ast.Name) for x in s.target.elts):
            it = self.expr(s.iter)
            k, v = s.target.elts[0].id, s.target.elts[1].id
            self.locals |= {k, v}
            return "(PForPair %s %s %s %s)" % (cstr(k), cstr(v), it, self.stmts(s.body))
        if isinstance(s, ast.Expr) and isinstance(s.value, ast.Call) and isinstance(s.value.func, ast.Attribute):
            f = s.value.func
            # x.update({...}) on a local dict
            if f.attr == "update" and isinstance(f.value, ast.Name) and f.value.id in self.locals and len(s.value.args) == 1 \
                    and isinstance(s.value.args[0], ast.Dict) and not s.value.keywords:
                d = s.value.args[0]
                out = []
                for k, v in zip(d.keys, d.values):
                    if not (isinstance(k, ast.Constant) and isinstance(k.value, str)):
                        raise Fail("update() key not a str constant")
                    out.append("(PSetItem %s (EStr %s) %s)" % (cstr(f.value.id), cstr(k.value), self.expr(v)))
                r = out[-1] if out else "PSkip"
                for o in reversed(out[:-1]):
                    r = "(PSeq %s %s)" % (o, r)
                return r
            # self._events.append(record): the value appended is what the method "returns" in the model
            if f.attr == "append" and ast.unparse(f.value) == "self._events" and len(s.value.args) == 1:
                self.extra["appends"] = True
                return "(PRet %s)" % self.expr(s.value.args[0])
            # the record handed to log_event
            if f.attr == "log_event" and self.mode == "event":
                kw = {k.arg: k.value for k in s.value.keywords}
                self.extra["event"] = (ast.unparse(kw.get("category")), ast.unparse(kw.get("event")))
                return "(PRet %s)" % self.expr(kw["data"])
        raise Fail("statement not understood: %s" % ast.unparse(s)[:80])

    def cond(self, t):
        if self.mode == "event":
            if isinstance(t, ast.Compare) and len(t.ops) == 1 and isinstance(t.ops[0], (ast.Is, ast.IsNot)) \
                    and isinstance(t.comparators[0], ast.Constant) and t.comparators[0].value is None:
                return "(%s %s)" % ("EIsNone" if isinstance(t.ops[0], ast.Is) else "EIsNotNone", self.leaf(t.left))
            lf = self.leaf(t)
            return lf
        return self.expr(t)

    def value_expr(self, v):
        """RHS of a local assignment; in event mode `self._cc.get_log_data()` / `super().get_log_data()` are spliced by the caller"""
        return self.expr(v)


# ------------------------------------------------------------------------------------------------------

def logger_methods(ix):
    lt = ix.classes.get("QuicLoggerTrace")
    if lt is None:
        raise Fail("quic/logger.py: class QuicLoggerTrace not found")
    used = set()
    out, tables, appends = [], set(), []
    # attribute types of the trace object itself
    init = lt.methods.get("__init__")
    for name, fn in list(lt.methods.items()) + [(n.name, n) for n in ix.mods["quic/logger.py"].body if isinstance(n, ast.FunctionDef)]:
        if name == "__init__":
            continue
        is_method = name in lt.methods and lt.methods[name] is fn
        ctx = Ctx("quic/logger.py", "QuicLoggerTrace" if is_method else None, fn)
        tx = Tx(ix, ctx, "logger")
        a = fn.args
        if a.vararg or a.kwarg or a.posonlyargs:
            raise Fail("logger.py %s: *args/**kwargs" % name)
        for p in a.args + a.kwonlyargs:
            if p.arg == "self":
                tx.params.append(("self", '(TObj "QuicLoggerTrace")', "self"))
                used.add("QuicLoggerTrace")
            else:
                if p.annotation is None:
                    raise Fail("logger.py %s: parameter %s has no annotation" % (name, p.arg))
                t = ix.conv(p.annotation)
                if ast.unparse(p.annotation) in ("dict", "dict[str, Any]") and name == "log_event":
                    t = "json"        # the record data: every log_event site is checked in event_records
                tx.params.append((p.arg, coq_ty(t, used), ast.unparse(p.annotation)))
            tx.locals.add(p.arg)
        body = tx.stmts(fn.body)
        tables |= tx.extra.get("tables", set())
        if tx.extra.get("appends"):
            appends.append(name)
        out.append((name, tx.params, body, "quic/logger.py:%d" % fn.lineno))
    return out, used, tables, appends


def enclosing_functions(ix, rels):
    for rel in rels:
        tree = ix.mods[rel]
        for n in tree.body:
            if isinstance(n, ast.FunctionDef):
                yield rel, None, n
            elif isinstance(n, ast.ClassDef):
                for m in n.body:
                    if isinstance(m, ast.FunctionDef):
                        yield rel, n.name, m


def is_logger_call(n):
    return isinstance(n, ast.Call) and isinstance(n.func, ast.Attribute) and isinstance(n.func.value, ast.Attribute) \
        and n.func.value.attr == "_quic_logger" and isinstance(n.func.value.value, ast.Name) and n.func.value.value.id == "self"


def guarded_not_none(fn, node, name):
    """node lies in the body of an `if <name> is not None:` of fn, and name is not re-bound inside that body"""
    parents = {}
    for p in ast.walk(fn):
        for c in ast.iter_child_nodes(p):
            parents[id(c)] = p
    cur = node
    while id(cur) in parents:
        par = parents[id(cur)]
        if isinstance(par, ast.If) and any(cur is x for x in par.body):
            t = par.test
            if isinstance(t, ast.Compare) and len(t.ops) == 1 and isinstance(t.ops[0], ast.IsNot) and isinstance(t.left, ast.Name) \
                    and t.left.id == name and isinstance(t.comparators[0], ast.Constant) and t.comparators[0].value is None:
                rebound = any(isinstance(x, ast.Name) and x.id == name and isinstance(x.ctx, ast.Store) for b in par.body for x in ast.walk(b))
                return not rebound
        cur = par
    return False


def site_arg_type(ix, fn, call, arg, ctx):
    t = infer(ix, arg, ctx)
    if not log_safe(ix, arg, ctx):
        return "unknown"
    if t and t.startswith("opt:obj:") and isinstance(arg, ast.Name) and guarded_not_none(fn, call, arg.id):
        return t[4:]
    return t


def call_sites(ix, meths, rels, used):
    names = {m[0]: m for m in meths}
    sites = []
    for rel, cname, fn in enclosing_functions(ix, rels):
        ctx = Ctx(rel, cname, fn)
        for n in ast.walk(fn):
            if not is_logger_call(n) or n.func.attr == "log_event":
                continue
            m = names.get(n.func.attr)
            if m is None:
                raise Fail("%s:%d call of unknown logger method %s" % (rel, n.lineno, n.func.attr))
            pnames = [p[0] for p in m[1] if p[0] not in ("self", "%time")]
            given = {}
            if len(n.args) > len(pnames):
                raise Fail("%s:%d too many arguments" % (rel, n.lineno))
            for p, a in zip(pnames, n.args):
                given[p] = a
            for k in n.keywords:
                if k.arg is None or k.arg not in pnames or k.arg in given:
                    raise Fail("%s:%d keyword argument %r" % (rel, n.lineno, k.arg))
                given[k.arg] = k.value
            if set(given) != set(pnames):
                raise Fail("%s:%d arguments %r do not match parameters %r" % (rel, n.lineno, sorted(given), pnames))
            tys = []
            for p in m[1]:
                if p[0] == "self":
                    tys.append('(TObj "QuicLoggerTrace")')
                elif p[0] == "%time":
                    tys.append("TFloat")
                else:
                    tys.append(coq_ty(site_arg_type(ix, fn, n, given[p[0]], ctx), used))
            sites.append(("%s:%d %s" % (rel, n.lineno, fn.name), n.func.attr, tys,
                          [ast.unparse(given[p]) for p in pnames]))
    return sites


def splice_get_log_data(ix, cname):
    """statements of cname.get_log_data with `x = super().get_log_data()` replaced by the base class body,
    every `return e` (only allowed last) turned into an assignment to the caller's variable"""
    fn, owner = ix.find_method(cname, "get_log_data")
    if fn is None:
        raise Fail("%s has no get_log_data" % cname)
    body = [s for s in fn.body if not (isinstance(s, ast.Expr) and isinstance(s.value, ast.Constant))]
    out = []
    for s in body:
        if isinstance(s, ast.Assign) and isinstance(s.value, ast.Call) and ast.unparse(s.value) == "super().get_log_data()":
            base = ix.mro(owner)[1] if len(ix.mro(owner)) > 1 else None
            if base is None or len(s.targets) != 1 or not isinstance(s.targets[0], ast.Name):
                raise Fail("%s.get_log_data: super() call not understood" % cname)
            inner, ret = splice_get_log_data(ix, base)
            out += inner
            out.append(ast.Assign(targets=[s.targets[0]], value=ret, lineno=s.lineno))
        else:
            out.append(s)
    if not out or not isinstance(out[-1], ast.Return) or any(isinstance(n, ast.Return) for s in out[:-1] for n in ast.walk(s)):
        raise Fail("%s.get_log_data: a single final return is expected" % cname)
    return out[:-1], out[-1].value


def event_records(ix, rels, used):
    records, sites_nodes = [], []
    cc_classes = [c for c in ix.classes if "get_log_data" in ix.classes[c].methods or
                  (ix.find_method(c, "get_log_data")[0] is not None and any(b in ix.classes for b in ix.classes[c].bases))]
    cc_classes = [c for c in cc_classes if ix.find_method(c, "get_log_data")[0] is not None]
    for rel, cname, fn in enclosing_functions(ix, rels):
        # find the statement lists that contain a log_event Expr statement
        def blocks(body):
            for i, s in enumerate(body):
                if isinstance(s, ast.Expr) and isinstance(s.value, ast.Call) and isinstance(s.value.func, ast.Attribute) \
                        and s.value.func.attr == "log_event" and is_logger_call(s.value):
                    yield body, i
                for fld in ("body", "orelse", "finalbody", "handlers"):
                    sub = getattr(s, fld, None)
                    if isinstance(sub, list):
                        for x in sub:
                            if isinstance(x, ast.ExceptHandler):
                                yield from blocks(x.body)
                        if sub and isinstance(sub[0], ast.stmt):
                            yield from blocks(sub)
        seen_stmt = set()
        n_calls = sum(1 for n in ast.walk(fn) if is_logger_call(n) and n.func.attr == "log_event")
        found = 0
        for body, i in blocks(fn.body):
            found += 1
            s = body[i]
            kw = {k.arg: k.value for k in s.value.keywords}
            if s.value.args or set(kw) != {"category", "event", "data"}:
                raise Fail("%s:%d log_event call shape" % (rel, s.lineno))
            for k in ("category", "event"):
                if not (isinstance(kw[k], ast.Constant) and isinstance(kw[k].value, str)):
                    raise Fail("%s:%d log_event %s is not a str constant" % (rel, s.lineno, k))
            variants = [None]
            prefix = []
            if isinstance(kw["data"], ast.Name):
                # the statements of this block that build the record (from the first binding of the name)
                name = kw["data"].id
                start = None
                for j in range(i):
                    if any(isinstance(n, ast.Name) and n.id == name for n in ast.walk(body[j])):
                        start = j
                        break
                if start is None:
                    raise Fail("%s:%d record variable %s is not built in the same block" % (rel, s.lineno, name))
                # locals used by the builder statements that are assigned in the block before: include them too
                first = start
                names = {name}
                changed = True
                while changed:
                    changed = False
                    for j in range(first):
                        st = body[j]
                        if isinstance(st, ast.Assign) and len(st.targets) == 1 and isinstance(st.targets[0], ast.Name):
                            used_later = any(isinstance(n, ast.Name) and n.id == st.targets[0].id
                                             for k2 in range(first, i + 1) for n in ast.walk(body[k2]))
                            if used_later and isinstance(st.value, ast.Call) and isinstance(st.value.func, ast.Attribute) \
                                    and isinstance(st.value.func.value, ast.Dict):
                                pass
                    # keep simple: no backward extension
                prefix = body[start:i]
                first_stmt = prefix[0]
                if isinstance(first_stmt, (ast.Assign, ast.AnnAssign)) and isinstance(first_stmt.value, ast.Call) \
                        and ast.unparse(first_stmt.value) == "self._cc.get_log_data()":
                    variants = list(cc_classes)
            for var in variants:
                ctx = Ctx(rel, cname, fn)
                tx = Tx(ix, ctx, "event")
                stmts = list(prefix)
                label = "%s:%d %s" % (rel, s.lineno, fn.name)
                if var is not None:
                    inner, ret = splice_get_log_data(ix, var)
                    tgt = stmts[0].targets[0] if isinstance(stmts[0], ast.Assign) else stmts[0].target
                    # the spliced statements read attributes of the congestion controller: translate them with
                    # leaves inferred in the controller's class
                    sub = Tx(ix, Ctx(ix.classes[ix.find_method(var, "get_log_data")[1]].mod, var, ix.find_method(var, "get_log_data")[0]), "event")
                    sub.params = tx.params
                    sub.used_classes = tx.used_classes
                    pre = [sub.stmt(x) for x in inner] + ["(PAssign %s %s)" % (cstr(tgt.id), sub.expr(ret))]
                    tx.locals |= sub.locals | {tgt.id}
                    stmts = stmts[1:]
                    label += " [%s]" % var
                else:
                    pre = []
                parts = pre + [tx.stmt(x) for x in stmts] + [tx.stmt(s)]
                parts = [p for p in parts if p != "PSkip"]
                term = parts[-1]
                for p in reversed(parts[:-1]):
                    term = "(PSeq %s %s)" % (p, term)
                used |= tx.used_classes
                records.append((label, kw["category"].value + ":" + kw["event"].value, tx.params, term))
        if found != n_calls:
            raise Fail("%s %s: a log_event call is not a statement of its own" % (rel, fn.name))
    if not records:
        raise Fail("no log_event call found")
    return records


def class_tables(ix, used):
    out = []
    used = set(used) | {"range"}
    for c in sorted(used):
        if c == "range":
            out.append(("range", [("start", "TInt"), ("stop", "TInt")]))
            continue
        if c not in ix.classes:
            raise Fail("class %s not found" % c)
        attrs = []
        seen = set()
        for k in ix.mro(c):
            for a in list(ix.classes[k].ann) + list(ix.classes[k].rhs):
                if a in seen:
                    continue
                seen.add(a)
                t = coq_ty(ix.field(c, a))
                if t.startswith("(TObj") or t.startswith("(TListObj") or t in ("TUnknown", "THeaders"):
                    t = "TAny"
                attrs.append((a, t))
        if c == "QuicLoggerTrace":
            # the trace's own state: the invariant that _events holds JSON records is what qlog_json_serialisable proves
            fixed = {"_events": "TJsonList", "_vantage_point": "TJson"}
            attrs = [(a, fixed.get(a, t)) for a, t in attrs]
            vp = [rhs for rhs, _ in ix.classes[c].rhs.get("_vantage_point", [])]
            if len(vp) != 1 or infer(ix, vp[0], Ctx("quic/logger.py", c, ix.classes[c].methods["__init__"])) != "jsondict":
                raise Fail("QuicLoggerTrace._vantage_point is not a JSON dict literal")
            ev = [ast.unparse(rhs) for rhs, _ in ix.classes[c].rhs.get("_events", [])]
            if ev != ["deque()"]:
                raise Fail("QuicLoggerTrace._events is not initialised to an empty deque: %r" % ev)
        out.append((c, attrs))
    return out


def check_file_logger(ix):
    """QuicFileLogger.end_trace / QuicLogger.to_dict: json.dump of dict literals with str-constant keys whose only
    non-constant parts are trace.to_dict() results; subscripts on trace_dict use keys of to_dict's literal."""
    lt = ix.classes["QuicLoggerTrace"].methods["to_dict"]
    ret = [s for s in lt.body if isinstance(s, ast.Return)]
    if len(ret) != 1 or not isinstance(ret[0].value, ast.Dict):
        raise Fail("QuicLoggerTrace.to_dict does not return a dict literal")

    def keys_of(d, path):
        for k, v in zip(d.keys, d.values):
            if isinstance(k, ast.Constant) and isinstance(k.value, str):
                yield path + (k.value,)
                if isinstance(v, ast.Dict):
                    yield from keys_of(v, path + (k.value,))
    keys = set(keys_of(ret[0].value, ()))
    fl = ix.classes.get("QuicFileLogger")
    n = 0
    if fl is not None and "end_trace" in fl.methods:
        fn = fl.methods["end_trace"]
        for x in ast.walk(fn):
            if isinstance(x, ast.Subscript) and isinstance(x.ctx, ast.Load):
                path, e = [], x
                while isinstance(e, ast.Subscript):
                    if not (isinstance(e.slice, ast.Constant) and isinstance(e.slice.value, str)):
                        raise Fail("QuicFileLogger.end_trace: non-constant subscript")
                    path.append(e.slice.value)
                    e = e.value
                if not (isinstance(e, ast.Name) and e.id == "trace_dict"):
                    continue
                if tuple(reversed(path)) not in keys:
                    raise Fail("QuicFileLogger.end_trace reads key %r which to_dict does not produce" % (path,))
                n += 1
        dumps = [x for x in ast.walk(fn) if isinstance(x, ast.Call) and ast.unparse(x.func) == "json.dump"]
        if len(dumps) != 1 or dumps[0].keywords or len(dumps[0].args) != 2:
            raise Fail("QuicFileLogger.end_trace: json.dump call shape (a default=/allow_nan= argument changes what is serialisable)")
        d = dumps[0].args[0]
        if not isinstance(d, ast.Dict):
            raise Fail("QuicFileLogger.end_trace: document is not a dict literal")
        for k, v in zip(d.keys, d.values):
            if not (isinstance(k, ast.Constant) and isinstance(k.value, str)):
                raise Fail("QuicFileLogger.end_trace: document key not a str constant")
            src = ast.unparse(v)
            if not (isinstance(v, ast.Constant) and isinstance(v.value, str)) and src not in ("QLOG_VERSION", "[trace_dict]"):
                raise Fail("QuicFileLogger.end_trace: document value %s not understood" % src)
    return n


RELS = ["quic/connection.py", "quic/recovery.py", "quic/packet_builder.py", "h3/connection.py"]


def extract():
    ix = Index()
    rels = RELS + sorted(r for r in ix.mods if r.startswith("quic/congestion/"))
    meths, used, tables, appends = logger_methods(ix)
    if appends != ["log_event"]:
        raise Fail("methods appending to the trace: %r (expected only log_event)" % appends)
    sites = call_sites(ix, meths, rels, used)
    records = event_records(ix, rels, used)
    classes = class_tables(ix, used)
    enums = {}
    for c in ix.classes:
        if ix.is_enum(c) and not ix.is_intenum(c):
            enums[c] = [m for m, v in ix.classes[c].members]
    trows = {}
    for tb in sorted(tables):
        d = ix.consts[tb]
        rows = []
        for k, v in zip(d.keys, d.values):
            if not (isinstance(k, ast.Attribute) and isinstance(k.value, ast.Name) and k.value.id in enums):
                raise Fail("%s: key %s is not a plain Enum member" % (tb, ast.unparse(k)))
            if not (isinstance(v, ast.Constant) and isinstance(v.value, str)):
                raise Fail("%s: value %s is not a str constant" % (tb, ast.unparse(v)))
            rows.append((k.value.id, k.attr, v.value))
        trows[tb] = rows
    nsub = check_file_logger(ix)
    return {"meths": meths, "sites": sites, "records": records, "classes": classes,
            "enums": {k: v for k, v in enums.items() if k in ("QuicPacketType", "Epoch")}, "tables": trows,
            "file_logger_subscripts": nsub}


def render(x):
    def params(ps):
        return "[%s]" % "; ".join("(%s, %s)" % (cstr(n), t) for n, t, _ in ps)
    summary = {"methods": len(x["meths"]), "sites": len(x["sites"]), "records": len(x["records"]),
               "unknown_site_args": sum(1 for s in x["sites"] for t in s[2] if t == "TUnknown"),
               "unknown_record_leaves": sum(1 for r in x["records"] for p in r[2] if p[1] == "TUnknown"),
               "record_leaves": sum(len(r[2]) for r in x["records"]),
               "file_logger_subscripts": x["file_logger_subscripts"]}
    out = ["(* GENERATED by tools/gen/c20_encoders.py from src/aioquic/quic/logger.py and the call sites in connection.py, recovery.py, packet_builder.py, h3/connection.py, congestion/*.py -- do not edit *)",
           "(* SUMMARY %s *)" % json.dumps(summary, sort_keys=True),
           "From Coq Require Import String.", "From AQ Require Import lib.Base model.LogEnc model.LogVal.",
           "Open Scope string_scope.", "Open Scope Z_scope.", ""]
    out.append("Definition enc_tabs : tabs := mkTabs")
    out.append("  [" + ";\n   ".join("(%s, [%s])" % (cstr(c), "; ".join("(%s, %s)" % (cstr(a), t) for a, t in attrs)) for c, attrs in x["classes"]) + "]")
    out.append("  [" + "; ".join("(%s, [%s])" % (cstr(e), "; ".join(cstr(m) for m in ms)) for e, ms in sorted(x["enums"].items())) + "]")
    out.append("  [" + "; ".join("(%s, [%s])" % (cstr(tb), "; ".join("(%s, %s, VStr %s)" % (cstr(e), cstr(m), cstr(v)) for e, m, v in rows))
                               for tb, rows in sorted(x["tables"].items())) + "].")
    out.append("")
    out.append("Definition enc_methods : list meth := [")
    out.append(";\n".join("  (* %s *)\n  mkMeth %s %s\n    %s" % (where, cstr(n), params(ps), body) for n, ps, body, where in x["meths"]))
    out.append("].")
    out.append("")
    out.append("(* every call of a QuicLoggerTrace method (other than log_event), with the inferred type of each argument *)")
    out.append("Definition enc_sites : list site := [")
    out.append(";\n".join("  (* %s *)\n  mkSite %s %s [%s]" % (", ".join(srcs), cstr(w), cstr(m), "; ".join(tys)) for w, m, tys, srcs in x["sites"]))
    out.append("].")
    out.append("")
    out.append("(* every record handed to log_event: parameters = the leaf expressions of the record with their inferred types *)")
    out.append("Definition event_records : list meth := [")
    rows = []
    for w, ev, ps, body in x["records"]:
        cm = "; ".join("%s = %s" % (n, c.replace("*)", "* )").replace("(*", "( *")) for n, _, c in ps)
        rows.append("  (* %s  %s  leaves: %s *)\n  mkMeth %s %s\n    %s" % (w, ev, cm, cstr(w + " " + ev), params(ps), body))
    out.append(";\n".join(rows))
    out.append("].")
    return "\n".join(out) + "\n"


def generate():
    text = render(extract())
    path = os.path.join(ROOT, "coq", "gen", "LogEncoders.v")
    os.makedirs(os.path.dirname(path), exist_ok=True)
    try:
        if open(path).read() == text:
            return path
    except FileNotFoundError:
        pass
    tmp = path + ".tmp%d" % os.getpid()
    with open(tmp, "w") as f:
        f.write(text)
    os.replace(tmp, path)
    return path


if __name__ == "__main__":
    print(generate())
