#!/usr/bin/env python3
"""C20 translator: effect skeletons of every logger-guarded block of the CURRENT aioquic source.

generate() parses (Python `ast`, nothing is imported or executed)
    quic/connection.py  quic/recovery.py  quic/packet_builder.py  quic/congestion/*.py  h3/connection.py
and quic/logger.py under $VERIF_REPO/src/aioquic and writes coq/gen/LogSkeleton.v:

  logger_methods   one skeleton per method of logger.py's QuicLoggerTrace (the encoders + log_event),
  guarded_blocks   one skeleton per statement guarded by a test on a logger-owned name
                   (`self._quic_logger is not None`, `secrets_log_file is not None`, `configuration.quic_logger is not None`, ...),
  unguarded_uses   every other mention of a logger-owned name, classified structurally.

A skeleton is a term of model/LogErase.v's statement language: which locations (access paths) the block
assigns or mutates, which callees it calls (logger method / logger host / key-log file / by-name "pure"
candidate / OTHER), where control can leave it (return / raise / break / continue / assert = SCtl), with the
guard itself inside the SLog block.  Methods of self (and by-name methods of other objects found in the analysed
files, e.g. `self._cc.get_log_data()`) are INLINED (depth <= 3), so their effects are checked too.

Fail closed: whatever is not understood becomes `FOther` / `RUnknown` / `UOther`, which makes `skeleton_wf`
(coq/proofs/LogSkeletonP.v, by vm_compute) fail.  The translator never decides ownership or purity: it only
describes; model/LogErase.v's log_owned / fn_log_ok decide.  What it DOES decide (trusted): which locals are
never read outside guarded code (RLocalLog), which locals hold an object created inside the block (RFresh),
and which unguarded mentions are parameter / keyword / log-to-log assignment forms.
"""
import ast
import glob
import json
import os
import sys

ROOT = os.path.dirname(os.path.dirname(os.path.dirname(os.path.abspath(__file__))))
LOG_NAMES = {"_quic_logger", "quic_logger", "quic_logger_frames", "_quic_logger_frames", "secrets_log_file", "_secrets_log"}
MUTATORS = {"append", "extend", "insert", "pop", "popleft", "appendleft", "remove", "clear", "update", "setdefault", "add",
            "discard", "sort", "reverse", "popitem", "subtract", "shift", "extendleft", "rotate", "__setitem__", "__delitem__"}
MAX_INLINE = 3


def repo():
    return os.environ.get("VERIF_REPO", "/repo")


def src_files():
    base = os.path.join(repo(), "src", "aioquic")
    files = [os.path.join(base, "quic", "connection.py"), os.path.join(base, "quic", "recovery.py"),
             os.path.join(base, "quic", "packet_builder.py")]
    files += sorted(glob.glob(os.path.join(base, "quic", "congestion", "*.py")))
    files.append(os.path.join(base, "h3", "connection.py"))
    return base, files


# ------------------------------------------------------------------------------------------------
# Coq printing


def cstr(s):
    return '"' + str(s).replace('"', '""').replace("\n", " ")[:200] + '"'


def cloc(root, path, contents):
    return "(L %s [%s] %s)" % (root, "; ".join(cstr(p) for p in path), "true" if contents else "false")


def cseq(stmts):
    stmts = [s for s in stmts if s != "SSkip"]
    if not stmts:
        return "SSkip"
    out = stmts[-1]
    for s in reversed(stmts[:-1]):
        out = "(SSeq %s %s)" % (s, out)
    return out


def cexpr(reads):
    """all locations an expression reads, folded into one abstract expression"""
    seen, uniq = set(), []
    for r in reads:
        if r not in seen:
            seen.add(r)
            uniq.append(r)
    if not uniq:
        return "(EConst 0)"
    out = "(ERead %s)" % uniq[-1]
    for r in reversed(uniq[:-1]):
        out = "(EOp 0 (ERead %s) %s)" % (r, out)
    return out


# ------------------------------------------------------------------------------------------------
# source model


class Module:
    def __init__(self, path, rel):
        self.path, self.rel = path, rel
        self.tree = ast.parse(open(path).read(), filename=path)
        self.imports = set()
        self.functions = {}     # module-level functions
        self.classes = {}       # name -> {method name -> FunctionDef}
        for node in self.tree.body:
            if isinstance(node, ast.Import):
                for a in node.names:
                    self.imports.add((a.asname or a.name).split(".")[0])
            elif isinstance(node, ast.ImportFrom):
                for a in node.names:
                    self.imports.add(a.asname or a.name)
            elif isinstance(node, (ast.FunctionDef, ast.AsyncFunctionDef)):
                self.functions[node.name] = node
            elif isinstance(node, ast.ClassDef):
                self.classes[node.name] = {n.name: n for n in node.body if isinstance(n, (ast.FunctionDef, ast.AsyncFunctionDef))}


def is_log_path(e):
    """expression is an access path (Name / attribute chain) mentioning a logger-owned name"""
    while isinstance(e, ast.Attribute):
        if e.attr in LOG_NAMES:
            return True
        e = e.value
    return isinstance(e, ast.Name) and e.id in LOG_NAMES


def guard_kind(test):
    """'pos' if the test holds only when a logger-owned object is present, 'neg' for the inverted test, else None"""
    if isinstance(test, ast.Compare) and len(test.ops) == 1 and isinstance(test.comparators[0], ast.Constant) \
            and test.comparators[0].value is None and is_log_path(test.left):
        if isinstance(test.ops[0], ast.IsNot):
            return "pos"
        if isinstance(test.ops[0], ast.Is):
            return "neg"
        return None
    if is_log_path(test):
        return "pos"
    if isinstance(test, ast.BoolOp) and isinstance(test.op, ast.And):
        kinds = [guard_kind(v) for v in test.values]
        if "pos" in kinds:
            return "pos"
        if "neg" in kinds:
            return "neg"
        return None
    if isinstance(test, ast.UnaryOp) and isinstance(test.op, ast.Not) and guard_kind(test.operand) == "pos":
        return "neg"
    if isinstance(test, ast.BoolOp) and isinstance(test.op, ast.Or) and any(guard_kind(v) for v in test.values):
        return "neg"      # "x is None or ...": not a positive guard
    return None


def mentions_log_name(node):
    for n in ast.walk(node):
        if isinstance(n, ast.Attribute) and n.attr in LOG_NAMES:
            return True
        if isinstance(n, ast.Name) and n.id in LOG_NAMES:
            return True
        if isinstance(n, ast.keyword) and n.arg in LOG_NAMES:
            return True
        if isinstance(n, ast.arg) and n.arg in LOG_NAMES:
            return True
    return False


class Env:
    def __init__(self, tr, mod, cls, func, kind, depth=0, log_locals=None, self_root="RSelf", params=()):
        self.tr, self.mod, self.cls, self.func, self.kind, self.depth = tr, mod, cls, func, kind, depth
        self.log_locals = log_locals if log_locals is not None else set()
        self.fresh = set()
        self.self_root = self_root
        self.params = set(params)
        self.bound = set()          # comprehension variables (expression-local)
        self.returns_fresh = True   # for inlined functions: every tail return returns a fresh object
        self.stack = ()             # inlining stack (function names) to stop recursion
        self.saw_return = False


class Translator:
    def __init__(self):
        self.base, files = src_files()
        self.modules = []
        for f in files:
            self.modules.append(Module(f, os.path.relpath(f, self.base)))
        self.logger_mod = Module(os.path.join(self.base, "quic", "logger.py"), "quic/logger.py")
        # by-name method index over the analysed files (not logger.py: its methods are FLogger callees)
        self.methods = {}
        for m in self.modules:
            for cname, meths in m.classes.items():
                for name, fn in meths.items():
                    self.methods.setdefault(name, []).append((m, cname, fn))
        self.logger_fresh = {}      # QuicLoggerTrace method -> returns a fresh object
        self.counts = {"guarded_blocks": 0, "logger_methods": 0, "unguarded_uses": 0, "inlined_calls": 0,
                       "other_callees": 0, "unknown_locations": 0, "ctl_in_log": 0, "by_file": {}}

    # -- access paths ---------------------------------------------------------------------------

    def path_of(self, e, env):
        """(root, [path]) of an expression used as an object reference, or None when it is not an access path"""
        path = []
        while True:
            if isinstance(e, ast.Attribute):
                path.append(e.attr)
                e = e.value
            elif isinstance(e, ast.Subscript):
                path.append("[]")
                e = e.value
            else:
                break
        path.reverse()
        if isinstance(e, ast.Name):
            return self.root_of_name(e.id, env), path
        if isinstance(e, ast.Call) and isinstance(e.func, ast.Name) and e.func.id == "super" and not e.args:
            return env.self_root, path
        return None

    def root_of_name(self, name, env):
        if name == "self":
            return env.self_root
        if name in env.bound:
            return "(RLocalLog %s)" % cstr(name)
        if name in env.fresh:
            return "(RFresh %s)" % cstr(name)
        if name in env.log_locals:
            return "(RLocalLog %s)" % cstr(name)
        if name in env.params or name in self.locals_of(env.func):
            return "(RLocal %s)" % cstr(name)
        return "(RGlobal %s)" % cstr(name)

    _locals_cache = {}

    def locals_of(self, func):
        if func is None:
            return set()
        key = id(func)
        if key not in self._locals_cache:
            names = set()
            for a in func.args.args + func.args.kwonlyargs + func.args.posonlyargs:
                names.add(a.arg)
            if func.args.vararg:
                names.add(func.args.vararg.arg)
            if func.args.kwarg:
                names.add(func.args.kwarg.arg)
            for n in ast.walk(func):
                if isinstance(n, ast.Name) and isinstance(n.ctx, (ast.Store, ast.Del)):
                    names.add(n.id)
            self._locals_cache[key] = names
        return self._locals_cache[key]

    def loc_of(self, e, env, contents=False):
        p = self.path_of(e, env)
        if p is None:
            self.counts["unknown_locations"] += 1
            return cloc("RUnknown", [ast.dump(e)[:60]], contents)
        root, path = p
        return cloc(root, path, contents)

    # -- expressions ----------------------------------------------------------------------------

    def expr(self, e, env):
        """-> (calls: [Coq stmt], reads: [Coq loc]) in evaluation order"""
        calls, reads = [], []
        self._expr(e, env, calls, reads)
        return calls, reads

    def _expr(self, e, env, calls, reads):
        if e is None or isinstance(e, ast.Constant):
            return
        if isinstance(e, ast.Name):
            if e.id not in env.bound:
                reads.append(cloc(self.root_of_name(e.id, env), [], False))
            return
        if isinstance(e, (ast.Attribute, ast.Subscript)):
            p = self.path_of(e, env)
            if p is not None:
                reads.append(cloc(p[0], p[1], False))
            else:
                self._expr(e.value, env, calls, reads)
            if isinstance(e, ast.Subscript):
                self._expr(e.slice, env, calls, reads)
            # index expressions nested deeper in the chain
            v = e.value
            while isinstance(v, (ast.Attribute, ast.Subscript)):
                if isinstance(v, ast.Subscript):
                    self._expr(v.slice, env, calls, reads)
                v = v.value
            return
        if isinstance(e, ast.Call):
            calls.append(self.call(e, env, calls_out=calls, reads_out=reads))
            return
        if isinstance(e, (ast.ListComp, ast.SetComp, ast.GeneratorExp, ast.DictComp)):
            saved = set(env.bound)
            for g in e.generators:
                self._expr(g.iter, env, calls, reads)
                for n in ast.walk(g.target):
                    if isinstance(n, ast.Name):
                        env.bound.add(n.id)
                for c in g.ifs:
                    self._expr(c, env, calls, reads)
                if g.is_async:
                    calls.append("(SCall None (FOther %s) [])" % cstr("async comprehension"))
            if isinstance(e, ast.DictComp):
                self._expr(e.key, env, calls, reads)
                self._expr(e.value, env, calls, reads)
            else:
                self._expr(e.elt, env, calls, reads)
            env.bound = saved
            return
        if isinstance(e, (ast.Lambda, ast.NamedExpr, ast.Await, ast.Yield, ast.YieldFrom)):
            self.counts["other_callees"] += 1
            calls.append("(SCall None (FOther %s) [])" % cstr("unsupported expression " + type(e).__name__))
            return
        if isinstance(e, (ast.BoolOp, ast.BinOp, ast.UnaryOp, ast.Compare, ast.IfExp, ast.Dict, ast.List, ast.Tuple, ast.Set,
                          ast.JoinedStr, ast.FormattedValue, ast.Starred, ast.Slice)):
            for child in ast.iter_child_nodes(e):
                if isinstance(child, ast.expr):
                    self._expr(child, env, calls, reads)
            return
        self.counts["other_callees"] += 1
        calls.append("(SCall None (FOther %s) [])" % cstr("unsupported expression " + type(e).__name__))

    def is_fresh(self, e, env):
        """the value of e is an object created by evaluating e (no alias of pre-existing mutable state)"""
        if isinstance(e, (ast.Dict, ast.List, ast.Set, ast.ListComp, ast.SetComp, ast.DictComp, ast.Constant, ast.JoinedStr, ast.Tuple)):
            return True
        if isinstance(e, ast.Name):
            return e.id in env.fresh
        if isinstance(e, ast.BinOp):
            return True      # arithmetic / string formatting / concatenation build new values
        if isinstance(e, ast.Call):
            f = e.func
            if isinstance(f, ast.Name) and f.id in ("list", "dict", "tuple", "set", "sorted", "str", "int", "bytes", "float", "bool"):
                return True
            if isinstance(f, ast.Attribute):
                recv = self.path_of(f.value, env)
                if recv is not None and self.is_logger_recv(recv, env):
                    return self.logger_fresh.get(f.attr, False)
                key = ("inline-fresh", id(e))
                return bool(self._fresh_calls.get(key))
        return False

    _fresh_calls = {}

    # -- calls ----------------------------------------------------------------------------------

    def is_logger_recv(self, recv, env):
        root, path = recv
        if env.kind == "logger":
            return root == "RLogger" and path == []
        return path[-1:] == ["_quic_logger"]

    def call(self, e, env, calls_out, reads_out):
        """translate one Call; argument sub-calls are appended to calls_out first; returns the Coq stmt for the call itself"""
        arg_reads = []
        for a in e.args:
            self._expr(a, env, calls_out, arg_reads)
        for k in e.keywords:
            self._expr(k.value, env, calls_out, arg_reads)
        reads_out.extend(arg_reads)
        args = "[%s]" % cexpr(arg_reads)
        f = e.func
        if isinstance(f, ast.Name):
            if f.id in env.mod.functions and f.id not in self.locals_of(env.func):
                return self.inline(env.mod, None, env.mod.functions[f.id], e, env, "RUnknown")
            return "(SCall None (FPure %s) %s)" % (cstr(f.id), args)
        if isinstance(f, ast.Attribute):
            recv = self.path_of(f.value, env)
            if recv is None:
                # method of a computed value: literal.get(...), (a % b).hex() ...
                sub_calls, sub_reads = self.expr(f.value, env)
                calls_out.extend(sub_calls)
                reads_out.extend(sub_reads)
                if f.attr in MUTATORS and not self.is_fresh(f.value, env):
                    self.counts["unknown_locations"] += 1
                    return "(SAssign %s %s)" % (cloc("RUnknown", [f.attr], True), cexpr(arg_reads))
                return "(SCall None (FPure %s) %s)" % (cstr(f.attr), args)
            root, path = recv
            reads_out.append(cloc(root, path, False))
            if self.is_logger_recv(recv, env):
                return "(SCall None (FLogger %s) %s)" % (cstr(f.attr), args)
            if path[-1:] == ["quic_logger"]:
                return "(SCall None (FLoggerHost %s) %s)" % (cstr(f.attr), args)
            if (path[-1:] == ["secrets_log_file"]) or (not path and root in ('(RLocal "secrets_log_file")', '(RLocalLog "secrets_log_file")')):
                return "(SCall None (FSecretsFile %s) %s)" % (cstr(f.attr), args)
            if root.startswith("(RGlobal") and not path and isinstance(f.value, ast.Name) and f.value.id in env.mod.imports:
                return "(SCall None (FPure %s) %s)" % (cstr(f.value.id + "." + f.attr), args)
            if f.attr in MUTATORS:
                # a mutation of the receiver object's contents
                return "(SAssign %s %s)" % (cloc(root, path, True), cexpr(arg_reads + [cloc(root, path, True)]))
            # a method defined in the analysed files: inline every candidate
            is_self = isinstance(f.value, ast.Name) and f.value.id == "self"
            is_super = isinstance(f.value, ast.Call)
            cands = []
            if is_self and env.cls and f.attr in env.mod.classes.get(env.cls, {}):
                cands = [(env.mod, env.cls, env.mod.classes[env.cls][f.attr])]
            elif f.attr in self.methods:
                cands = [c for c in self.methods[f.attr] if not (is_super and c[1] == env.cls and c[0] is env.mod)]
            if cands and env.kind != "logger":
                outs = [self.inline(m, c, fn, e, env, env.self_root if (is_self or is_super) else "RSelf") for (m, c, fn) in cands]
                return cseq(outs)
            if env.kind == "logger" and is_self and f.attr in self.logger_mod.classes.get("QuicLoggerTrace", {}):
                return "(SCall None (FLogger %s) %s)" % (cstr(f.attr), args)
            if is_self:
                self.counts["other_callees"] += 1
                return "(SCall None (FOther %s) %s)" % (cstr("self." + f.attr), args)
            return "(SCall None (FPure %s) %s)" % (cstr(f.attr), args)
        self.counts["other_callees"] += 1
        return "(SCall None (FOther %s) %s)" % (cstr("call of " + type(f).__name__), args)

    def inline(self, mod, cls, fn, call, env, self_root):
        name = (cls + "." if cls else "") + fn.name
        if env.depth >= MAX_INLINE or name in env.stack:
            self.counts["other_callees"] += 1
            return "(SCall None (FOther %s) [])" % cstr("not inlined (depth/recursion): " + name)
        if isinstance(fn, ast.AsyncFunctionDef) or fn.decorator_list:
            self.counts["other_callees"] += 1
            return "(SCall None (FOther %s) [])" % cstr("not inlined (async/decorated): " + name)
        self.counts["inlined_calls"] += 1
        params = [a.arg for a in fn.args.args + fn.args.kwonlyargs + fn.args.posonlyargs]
        sub = Env(self, mod, cls, fn, "inline", env.depth + 1, log_locals=self.locals_of(fn) - set(params),
                  self_root=self_root, params=params)
        sub.stack = env.stack + (name,)
        body = self.stmts(fn.body, sub, tail=True, in_loop=False)
        self._fresh_calls[("inline-fresh", id(call))] = bool(sub.returns_fresh and sub.saw_return)
        return body

    # -- statements -----------------------------------------------------------------------------

    def stmts(self, body, env, tail, in_loop):
        out = []
        for i, s in enumerate(body):
            out.append(self.stmt(s, env, tail and i == len(body) - 1, in_loop))
        return cseq(out)

    def assign_target(self, t, env, value_reads, fresh_value):
        """Coq statements for binding / mutating target t"""
        if isinstance(t, (ast.Tuple, ast.List)):
            return [x for el in t.elts for x in self.assign_target(el, env, value_reads, False)]
        if isinstance(t, ast.Starred):
            return self.assign_target(t.value, env, value_reads, False)
        if isinstance(t, ast.Name):
            if fresh_value and (t.id in env.log_locals):
                env.fresh.add(t.id)
                return ["(SAssign %s %s)" % (cloc("(RFresh %s)" % cstr(t.id), [], False), cexpr(value_reads))]
            env.fresh.discard(t.id)
            return ["(SAssign %s %s)" % (cloc(self.root_of_name(t.id, env), [], False), cexpr(value_reads))]
        if isinstance(t, ast.Attribute):
            return ["(SAssign %s %s)" % (self.loc_of(t, env, False), cexpr(value_reads))]
        if isinstance(t, ast.Subscript):
            calls, reads = self.expr(t.slice, env)
            return calls + ["(SAssign %s %s)" % (self.loc_of(t.value, env, True), cexpr(value_reads + reads))]
        self.counts["unknown_locations"] += 1
        return ["(SAssign %s %s)" % (cloc("RUnknown", [type(t).__name__], False), cexpr(value_reads))]

    def stmt(self, s, env, tail, in_loop):
        if isinstance(s, ast.Pass):
            return "SSkip"
        if isinstance(s, ast.Expr):
            if isinstance(s.value, ast.Constant):
                return "SSkip"
            calls, _ = self.expr(s.value, env)
            return cseq(calls)
        if isinstance(s, (ast.Assign, ast.AnnAssign, ast.AugAssign)):
            if isinstance(s, ast.AnnAssign) and s.value is None:
                return "SSkip"
            calls, reads = self.expr(s.value, env)
            fresh = self.is_fresh(s.value, env)
            targets = s.targets if isinstance(s, ast.Assign) else [s.target]
            out = list(calls)
            for t in targets:
                extra = []
                if isinstance(s, ast.AugAssign):
                    _, extra = self.expr(t, env)
                    fresh = False
                out += self.assign_target(t, env, reads + extra, fresh and len(targets) == 1)
            return cseq(out)
        if isinstance(s, ast.Delete):
            out = []
            for t in s.targets:
                out += self.assign_target(t, env, [], False)
            return cseq(out)
        if isinstance(s, ast.If):
            calls, reads = self.expr(s.test, env)
            saved = set(env.fresh)
            a = self.stmts(s.body, env, tail, in_loop)
            fa = set(env.fresh)
            env.fresh = set(saved)
            b = self.stmts(s.orelse, env, tail, in_loop) if s.orelse else "SSkip"
            env.fresh = fa & env.fresh
            return cseq(calls + ["(SIf %s %s %s)" % (cexpr(reads), a, b)])
        if isinstance(s, (ast.For, ast.While)):
            if isinstance(s, ast.For):
                calls, reads = self.expr(s.iter, env)
                head = calls + self.assign_target(s.target, env, reads, False)
            else:
                calls, reads = self.expr(s.test, env)
                head = calls
            body = self.stmts(s.body, env, False, True)
            orelse = self.stmts(s.orelse, env, False, in_loop) if s.orelse else "SSkip"
            # effect over-approximation: the body's effects under an unknown condition (iteration count is
            # irrelevant to which locations / callees / exits the loop has)
            return cseq(head + ["(SIf %s %s SSkip)" % (cexpr(reads), body), orelse])
        if isinstance(s, ast.Return):
            calls, _ = self.expr(s.value, env) if s.value is not None else ([], [])
            if env.kind in ("inline", "logger") and tail:
                env.saw_return = True
                if s.value is not None and not self.is_fresh(s.value, env):
                    env.returns_fresh = False
                return cseq(calls)
            self.counts["ctl_in_log"] += 1
            return cseq(calls + ["SCtl"])
        if isinstance(s, (ast.Raise, ast.Assert)):
            self.counts["ctl_in_log"] += 1
            return "SCtl"
        if isinstance(s, (ast.Break, ast.Continue)):
            if in_loop:
                return "SSkip"      # leaves a loop that is itself inside the block
            self.counts["ctl_in_log"] += 1
            return "SCtl"
        self.counts["other_callees"] += 1
        return "(SCall None (FOther %s) [])" % cstr("unsupported statement " + type(s).__name__)

    # -- per function ---------------------------------------------------------------------------

    def guarded_ifs(self, func):
        """outermost If nodes of func whose test is a positive logger guard, + negative-guard Ifs"""
        pos, neg = [], []

        def walk(node, inside):
            for child in ast.iter_child_nodes(node):
                if isinstance(child, (ast.FunctionDef, ast.AsyncFunctionDef, ast.ClassDef, ast.Lambda)) and child is not func:
                    continue
                if isinstance(child, ast.If) and not inside:
                    k = guard_kind(child.test)
                    if k == "pos":
                        pos.append(child)
                        walk(child, True)
                        continue
                    if k == "neg":
                        neg.append(child)
                walk(child, inside)

        walk(func, False)
        return pos, neg

    def loads_outside(self, func, guarded):
        inside = set()
        for g in guarded:
            for n in ast.walk(g):
                inside.add(id(n))
        names = set()
        for n in ast.walk(func):
            if isinstance(n, ast.Name) and isinstance(n.ctx, ast.Load) and id(n) not in inside:
                names.add(n.id)
        return names

    def loop_depth_of(self, func, target):
        """is `target` nested in a loop of func (so that break/continue inside it would be a control effect on core)"""
        return None


def generate():
    tr = Translator()
    lines = []
    # ---- logger.py: QuicLoggerTrace methods (two passes so that returns_fresh of callees is known)
    logger_methods = []
    lt = tr.logger_mod.classes.get("QuicLoggerTrace")
    if lt is None:
        raise RuntimeError("quic/logger.py: class QuicLoggerTrace not found")
    for _pass in (0, 1):
        logger_methods = []
        for name, fn in lt.items():
            if name == "__init__":
                continue
            params = [a.arg for a in fn.args.args + fn.args.kwonlyargs + fn.args.posonlyargs]
            env = Env(tr, tr.logger_mod, "QuicLoggerTrace", fn, "logger", log_locals=tr.locals_of(fn) - set(params),
                      self_root="RLogger", params=params)
            env.saw_return = False
            body = tr.stmts(fn.body, env, tail=True, in_loop=False)
            tr.logger_fresh[name] = bool(env.returns_fresh and env.saw_return)
            logger_methods.append((name, "quic/logger.py:%d QuicLoggerTrace.%s" % (fn.lineno, name), body))
    # module-level helpers of logger.py used by the encoders (hexdump) are FPure candidates by name: check them here
    for name, fn in tr.logger_mod.functions.items():
        params = [a.arg for a in fn.args.args]
        env = Env(tr, tr.logger_mod, None, fn, "logger", log_locals=tr.locals_of(fn) - set(params), self_root="RUnknown", params=params)
        env.saw_return = False
        body = tr.stmts(fn.body, env, tail=True, in_loop=False)
        logger_methods.append(("<module>." + name, "quic/logger.py:%d %s" % (fn.lineno, name), body))
    tr.counts["logger_methods"] = len(logger_methods)
    for k in ("inlined_calls", "other_callees", "unknown_locations", "ctl_in_log"):
        tr.counts[k] = 0      # count only what the guarded blocks contain
    tr.counts["other_callees_logger_py"] = sum(b.count("FOther") for _, _, b in logger_methods)

    # ---- guarded blocks and unguarded uses
    blocks, uses = [], []
    helper_bodies = set()
    for mod in tr.modules:
        funcs = [(None, f) for f in mod.functions.values()]
        for cname, meths in mod.classes.items():
            funcs += [(cname, f) for f in meths.values()]
        nblocks = 0
        # which methods are only ever called from inside guarded blocks (log helpers)?
        guarded_nodes = set()
        all_guarded = {}
        for cname, f in funcs:
            pos, neg = tr.guarded_ifs(f)
            all_guarded[id(f)] = (pos, neg)
            for g in pos:
                for n in ast.walk(g):
                    guarded_nodes.add(id(n))
        call_sites = {}
        for cname, f in funcs:
            for n in ast.walk(f):
                if isinstance(n, ast.Call) and isinstance(n.func, ast.Attribute) and isinstance(n.func.value, ast.Name) \
                        and n.func.value.id == "self":
                    call_sites.setdefault((cname, n.func.attr), []).append(id(n) in guarded_nodes)
        for cname, f in funcs:
            pos, neg = all_guarded[id(f)]
            sites = call_sites.get((cname, f.name), [])
            is_helper = bool(sites) and all(sites) and not pos
            if is_helper:
                helper_bodies.add((mod.rel, f.name))
            log_locals = tr.locals_of(f) - tr.loads_outside(f, pos) - {a.arg for a in f.args.args + f.args.kwonlyargs}
            for g in pos:
                env = Env(tr, mod, cname, f, "block", log_locals=set(log_locals),
                          params=[a.arg for a in f.args.args + f.args.kwonlyargs])
                in_loop = False   # break/continue directly in the block would leave a CORE loop: control effect
                calls, reads = tr.expr(g.test, env)
                body = tr.stmts(g.body, env, tail=False, in_loop=in_loop)
                orelse = tr.stmts(g.orelse, env, tail=False, in_loop=in_loop) if g.orelse else "SSkip"
                term = "(SLog %s)" % cseq(calls + ["(SIf %s %s %s)" % (cexpr(reads), body, orelse)])
                blocks.append(("%s:%d %s%s" % (mod.rel, g.lineno, (cname + "." if cname else ""), f.name), term))
                nblocks += 1
            for g in neg:
                uses.append(("%s:%d %s" % (mod.rel, g.lineno, f.name), "(UOther %s)" % cstr("negative logger test: " + ast.unparse(g.test)[:80])))
            # unguarded mentions
            inside = set()
            for g in pos:
                for n in ast.walk(g):
                    inside.add(id(n))
            uses += unguarded_uses(mod, cname, f, inside, is_helper)
        # class-level / module-level mentions (dataclass fields, constants)
        for node in ast.walk(mod.tree):
            if isinstance(node, ast.ClassDef):
                for st in node.body:
                    if isinstance(st, (ast.AnnAssign, ast.Assign)) and mentions_log_name(st):
                        tgt = st.target if isinstance(st, ast.AnnAssign) else st.targets[0]
                        ok = isinstance(tgt, ast.Name) and tgt.id in LOG_NAMES
                        uses.append(("%s:%d class %s" % (mod.rel, st.lineno, node.name),
                                     "UParam" if ok else "(UOther %s)" % cstr("class-level statement: " + ast.unparse(st)[:80])))
        for st in mod.tree.body:
            if not isinstance(st, (ast.FunctionDef, ast.AsyncFunctionDef, ast.ClassDef, ast.Import, ast.ImportFrom)) and mentions_log_name(st):
                uses.append(("%s:%d <module>" % (mod.rel, st.lineno), "(UOther %s)" % cstr("module-level statement: " + ast.unparse(st)[:80])))
        tr.counts["by_file"][mod.rel] = nblocks
    tr.counts["guarded_blocks"] = len(blocks)
    tr.counts["unguarded_uses"] = len(uses)
    tr.counts["unguarded_other"] = sum(1 for _, u in uses if u.startswith("(UOther"))
    tr.counts["log_helper_methods"] = sorted("%s:%s" % h for h in helper_bodies)
    if not blocks:
        raise RuntimeError("no logger-guarded block found: the guard idiom changed, the translator must be extended")

    lines.append("(* GENERATED by tools/gen/c20_skeleton.py from %s -- do not edit *)" % ", ".join(m.rel for m in tr.modules + [tr.logger_mod]))
    lines.append("(* SUMMARY %s *)" % json.dumps(tr.counts, sort_keys=True))
    lines.append("From Coq Require Import String.")
    lines.append("From AQ Require Import lib.Base model.LogErase model.LogEnc.")
    lines.append("Open Scope string_scope.")
    lines.append("Open Scope Z_scope.")
    lines.append("")
    members, keys = packet_type_tables(tr)
    lines.append("(* members of packet.py's QuicPacketType / keys of logger.py's PACKET_TYPE_NAMES *)")
    lines.append("Definition packet_type_members : list string := [%s]." % "; ".join(cstr(m) for m in members))
    lines.append("Definition packet_type_name_keys : list string := [%s]." % "; ".join(cstr(k) for k in keys))
    lines.append("Definition packet_type_named : list bool := [%s]." % "; ".join("true" if m in keys else "false" for m in members))
    lines.append("(* EXTRACT: exec_logenc *)")
    strict = http3_decode_strict(tr)
    lines.append("(* error mode of the .decode(...) calls in QuicLoggerTrace._encode_http3_headers: true = strict UTF-8 *)")
    lines.append("Definition http3_decode_strict : bool := %s." % ("true" if strict else "false"))
    lines.append("Definition exec_logenc (toks : list Z) : list Z :=")
    lines.append("  exec_logenc_with packet_type_named http3_decode_strict toks.")
    lines.append("")
    lines.append("Definition logger_methods : list (string * stmt) := [")
    lines.append(";\n".join("  (* %s *)\n  (%s, %s)" % (where, cstr(name), body) for name, where, body in logger_methods))
    lines.append("].")
    lines.append("")
    lines.append("Definition guarded_blocks : list (string * stmt) := [")
    lines.append(";\n".join("  (%s,\n   %s)" % (cstr(where), term) for where, term in blocks))
    lines.append("].")
    lines.append("")
    lines.append("Definition unguarded_uses : list (string * use) := [")
    lines.append(";\n".join("  (%s, %s)" % (cstr(where), u) for where, u in uses))
    lines.append("].")
    text = "\n".join(lines) + "\n"
    out = os.path.join(ROOT, "coq", "gen", "LogSkeleton.v")
    os.makedirs(os.path.dirname(out), exist_ok=True)
    try:
        if open(out).read() == text:
            return out
    except FileNotFoundError:
        pass
    tmp = out + ".tmp%d" % os.getpid()
    with open(tmp, "w") as f:
        f.write(text)
    os.replace(tmp, out)
    return out


TOTAL_ERROR_MODES = {"replace", "backslashreplace", "ignore", "surrogateescape", "namereplace", "xmlcharrefreplace"}
TOTAL_CODECS = {"latin-1", "latin1", "latin_1", "iso-8859-1", "iso8859-1", "l1"}


def http3_decode_strict(tr):
    """True if QuicLoggerTrace._encode_http3_headers decodes header bytes with a strict UTF-8 decoder (can raise),
    False if every decode in it is total; anything else stops the translation."""
    fn = tr.logger_mod.classes["QuicLoggerTrace"].get("_encode_http3_headers")
    if fn is None:
        raise RuntimeError("quic/logger.py: QuicLoggerTrace._encode_http3_headers not found")
    modes = []
    for n in ast.walk(fn):
        if isinstance(n, ast.Call) and isinstance(n.func, ast.Attribute) and n.func.attr == "decode":
            args = [a.value if isinstance(a, ast.Constant) else None for a in n.args]
            kws = {k.arg: (k.value.value if isinstance(k.value, ast.Constant) else None) for k in n.keywords}
            codec = args[0] if args else kws.get("encoding", "utf-8")
            errors = args[1] if len(args) > 1 else kws.get("errors", "strict")
            if not isinstance(codec, str) or not isinstance(errors, str):
                raise RuntimeError("quic/logger.py:%d decode() with non-constant codec / error mode" % n.lineno)
            codec = codec.lower()
            if codec in TOTAL_CODECS:
                modes.append(False)
            elif codec in ("utf8", "utf-8", "utf_8", "ascii"):
                if errors == "strict":
                    modes.append(True)
                elif errors in TOTAL_ERROR_MODES:
                    modes.append(False)
                else:
                    raise RuntimeError("quic/logger.py:%d decode() error mode %r not understood" % (n.lineno, errors))
            else:
                raise RuntimeError("quic/logger.py:%d decode() codec %r not understood" % (n.lineno, codec))
        elif isinstance(n, ast.Call) and isinstance(n.func, ast.Name) and n.func.id == "str" and len(n.args) + len(n.keywords) > 1:
            raise RuntimeError("quic/logger.py:%d str(bytes, ...) decoding not understood" % n.lineno)
    if not modes:
        # no decode at all (e.g. hex / repr of the bytes): total
        return False
    return any(modes)


def packet_type_tables(tr):
    """(member names of QuicPacketType in quic/packet.py, QuicPacketType.<X> keys of PACKET_TYPE_NAMES in quic/logger.py)"""
    ptree = ast.parse(open(os.path.join(tr.base, "quic", "packet.py")).read())
    members = None
    for node in ptree.body:
        if isinstance(node, ast.ClassDef) and node.name == "QuicPacketType":
            members = []
            for st in node.body:
                if isinstance(st, ast.Assign) and len(st.targets) == 1 and isinstance(st.targets[0], ast.Name):
                    members.append(st.targets[0].id)
                elif isinstance(st, ast.Expr) and isinstance(st.value, ast.Constant):
                    continue
                else:
                    raise RuntimeError("quic/packet.py: QuicPacketType has a member the translator does not understand: %s" % ast.unparse(st)[:80])
    if not members:
        raise RuntimeError("quic/packet.py: enum QuicPacketType not found")
    keys = None
    for node in tr.logger_mod.tree.body:
        if isinstance(node, ast.Assign) and any(isinstance(t, ast.Name) and t.id == "PACKET_TYPE_NAMES" for t in node.targets):
            if not isinstance(node.value, ast.Dict):
                raise RuntimeError("quic/logger.py: PACKET_TYPE_NAMES is not a dict literal")
            keys = []
            for k in node.value.keys:
                if isinstance(k, ast.Attribute) and isinstance(k.value, ast.Name) and k.value.id == "QuicPacketType":
                    keys.append(k.attr)
                else:
                    raise RuntimeError("quic/logger.py: PACKET_TYPE_NAMES key not of the form QuicPacketType.X: %s" % ast.unparse(k)[:60])
    if keys is None:
        raise RuntimeError("quic/logger.py: PACKET_TYPE_NAMES not found")
    return members, keys


def unguarded_uses(mod, cname, f, inside, is_helper):
    """classify every mention of a logger-owned name in f that is outside its guarded blocks"""
    where = lambda n: "%s:%d %s%s" % (mod.rel, getattr(n, "lineno", f.lineno), (cname + "." if cname else ""), f.name)
    out = []
    parents = {}
    for n in ast.walk(f):
        for c in ast.iter_child_nodes(n):
            parents[id(c)] = n
    claimed = set()

    def claim(node):
        for n in ast.walk(node):
            claimed.add(id(n))

    # parameters
    for a in f.args.args + f.args.kwonlyargs + f.args.posonlyargs:
        if a.arg in LOG_NAMES:
            out.append((where(a), "UParam"))
        if a.annotation is not None:
            claim(a.annotation)
    for n in ast.walk(f):
        if id(n) in inside or id(n) in claimed:
            continue
        if isinstance(n, (ast.FunctionDef, ast.AsyncFunctionDef, ast.Lambda)) and n is not f and mentions_log_name(n):
            out.append((where(n), "(UOther %s)" % cstr("nested function mentions a logger name")))
            claim(n)
            continue
        if isinstance(n, (ast.Assign, ast.AnnAssign)) and n is not None:
            targets = n.targets if isinstance(n, ast.Assign) else [n.target]
            if any(is_log_path(t) for t in targets):
                v = n.value
                ok = all(is_log_path(t) for t in targets) and (
                    v is None or (isinstance(v, ast.Constant) and v.value is None) or is_log_path(v)
                    or (isinstance(v, ast.Call) and isinstance(v.func, ast.Attribute) and v.func.attr == "start_trace"
                        and is_log_path(v.func.value)))
                out.append((where(n), "UWriteLog" if ok else "(UOther %s)" % cstr("assignment: " + ast.unparse(n)[:90])))
                claim(n)
                continue
        if isinstance(n, ast.keyword) and n.arg in LOG_NAMES:
            has_call = any(isinstance(x, ast.Call) for x in ast.walk(n.value))
            out.append((where(n.value), "UKwPass" if not has_call else "(UOther %s)" % cstr("keyword value with a call: " + ast.unparse(n.value)[:80])))
            claim(n)
            continue
    for n in ast.walk(f):
        if id(n) in inside or id(n) in claimed:
            continue
        hit = (isinstance(n, ast.Attribute) and n.attr in LOG_NAMES) or (isinstance(n, ast.Name) and n.id in LOG_NAMES)
        if not hit:
            continue
        # report the outermost access path only
        p = parents.get(id(n))
        if isinstance(p, ast.Attribute) and is_log_path(p) and id(p) not in claimed and id(p) not in inside and p.attr in LOG_NAMES:
            pass
        if is_helper:
            out.append((where(n), "UHelperBody"))
        else:
            stmt = n
            while id(stmt) in parents and not isinstance(stmt, ast.stmt):
                stmt = parents[id(stmt)]
            out.append((where(n), "(UOther %s)" % cstr("unguarded use: " + ast.unparse(stmt)[:90])))
        claim(n)
    return out


if __name__ == "__main__":
    print(generate())
