"""C04 translator: current C sources of aioquic's native helpers -> bounds verification conditions.

    src/aioquic/_buffer.c, src/aioquic/_crypto.c   (of $VERIF_REPO, read on every check)
        --gcc -E (stub headers in c04_stubs/)--> pycparser AST
        --symbolic execution of every function (this file)-->
            per function: logical variables with their C type ranges, guards in program order,
            every memory access as (object, offset, length, size), every return / rejection
        --> coq/gen/CMem.v        one `Lemma vc_<fn>_<n>` per access WITH its proof script, the
                                  event list `ev_<fn>` (executable), `safe_<fn>`, contract `K_<fn>`
        --> coq/gen/c04_access.json   the same access list, for the harness
        --> instrument(outdir)    a copy of each C file in which access n is preceded by the
                                  run-time assertion n (same object / offset / length / size)

The translator fails closed: any C construct, callee or pointer it does not recognise raises
Untranslatable, which stops the check on the "proof no longer checks" path.

What is trusted here (see docs/C04.md): gcc -E + pycparser report the program; the table EXTERNS
below (which bytes a libc / CPython / OpenSSL entry point touches given its arguments); CPython's
argument parsing ("y#" yields a pointer to exactly len readable bytes followed by a NUL).
"""
import json
import os
import re
import subprocess
import sys

HERE = os.path.dirname(os.path.abspath(__file__))
VERIF = os.path.dirname(os.path.dirname(HERE))
REPO = os.environ.get("VERIF_REPO", "/repo")
STUBS = os.path.join(HERE, "c04_stubs")
FILES = ["_buffer.c", "_crypto.c"]
OUT_V = os.path.join(VERIF, "coq", "gen", "CMem.v")
OUT_JSON = os.path.join(VERIF, "coq", "gen", "c04_access.json")

ADDR_MAX = 1 << 47          # user-space addresses on x86-64 / aarch64 Linux
P64 = 1 << 64


class Untranslatable(Exception):
    pass


def _pyc():
    from pycparser import c_ast, c_generator, c_parser
    return c_ast, c_generator, c_parser


# ----------------------------------------------------------------------------------------
# C integer types

TYPES = {
    "int": (-(1 << 31), (1 << 31) - 1), "signed int": (-(1 << 31), (1 << 31) - 1),
    "unsigned int": (0, (1 << 32) - 1), "uint32_t": (0, (1 << 32) - 1),
    "long": (-(1 << 63), (1 << 63) - 1), "Py_ssize_t": (-(1 << 63), (1 << 63) - 1),
    "unsigned long": (0, (1 << 64) - 1), "size_t": (0, (1 << 64) - 1), "uint64_t": (0, (1 << 64) - 1),
    "unsigned long long": (0, (1 << 64) - 1),
    "uint16_t": (0, 65535), "unsigned short": (0, 65535),
    "uint8_t": (0, 255), "unsigned char": (0, 255), "char": (-128, 127),
}
# PyArg_ParseTuple format units that write an integer: the range CPython guarantees for the
# stored value (B/H/I/K do no overflow checking: the value is reduced modulo 2^k and stored into
# the C variable, whose declared type then gives the range).
FMT_INT = {"n": "Py_ssize_t", "B": None, "H": None, "I": None, "K": None, "i": "int"}

# ----------------------------------------------------------------------------------------
# symbolic expressions:  ('c',n) ('v',name) ('+',a,b) ('-',a,b) ('*',a,b)
# conditions:            ('lt',a,b) ('le',a,b) ('eq',a,b) ('and',p,q) ('or',p,q) ('not',p) ('T',) ('F',)


def C(n):
    return ("c", int(n))


def V(n):
    return ("v", n)


def add(a, b):
    if a[0] == "c" and b[0] == "c":
        return C(a[1] + b[1])
    if b[0] == "c" and b[1] == 0:
        return a
    if a[0] == "c" and a[1] == 0:
        return b
    if b[0] == "c" and a[0] == "+" and a[2][0] == "c":
        return add(a[1], C(a[2][1] + b[1]))
    if b[0] == "c" and b[1] < 0:
        return sub(a, C(-b[1]))
    return ("+", a, b)


def sub(a, b):
    if a[0] == "c" and b[0] == "c":
        return C(a[1] - b[1])
    if b[0] == "c" and b[1] == 0:
        return a
    if a == b:
        return C(0)
    if b[0] == "c" and a[0] == "+" and a[2][0] == "c":
        return add(a[1], C(a[2][1] - b[1]))
    # (x - y) + y patterns produced by pointer arithmetic: (base_rel + k) - base_rel
    if a[0] == "+" and a[1] == b:
        return a[2]
    return ("-", a, b)


def mul(a, b):
    if a[0] == "c" and b[0] == "c":
        return C(a[1] * b[1])
    if b[0] == "c" and b[1] == 1:
        return a
    if a[0] == "c" and a[1] == 1:
        return b
    if a[0] != "c" and b[0] != "c":
        raise Untranslatable("non-linear product")
    return ("*", a, b)


def AND(p, q):
    if p == ("T",):
        return q
    if q == ("T",):
        return p
    if p == ("F",) or q == ("F",):
        return ("F",)
    return ("and", p, q)


def OR(p, q):
    if p == ("F",):
        return q
    if q == ("F",):
        return p
    if p == ("T",) or q == ("T",):
        return ("T",)
    return ("or", p, q)


def NOT(p):
    if p == ("T",):
        return ("F",)
    if p == ("F",):
        return ("T",)
    if p[0] == "not":
        return p[1]
    return ("not", p)


def ev_e(e, env):
    k = e[0]
    if k == "c":
        return e[1]
    if k == "v":
        return env[e[1]]
    if k == "+":
        return ev_e(e[1], env) + ev_e(e[2], env)
    if k == "-":
        return ev_e(e[1], env) - ev_e(e[2], env)
    if k == "*":
        return ev_e(e[1], env) * ev_e(e[2], env)
    raise AssertionError(e)


def ev_b(p, env):
    k = p[0]
    if k == "T":
        return True
    if k == "F":
        return False
    if k == "lt":
        return ev_e(p[1], env) < ev_e(p[2], env)
    if k == "le":
        return ev_e(p[1], env) <= ev_e(p[2], env)
    if k == "eq":
        return ev_e(p[1], env) == ev_e(p[2], env)
    if k == "and":
        return ev_b(p[1], env) and ev_b(p[2], env)
    if k == "or":
        return ev_b(p[1], env) or ev_b(p[2], env)
    if k == "not":
        return not ev_b(p[1], env)
    raise AssertionError(p)


def vars_of(x, acc=None):
    acc = set() if acc is None else acc
    if isinstance(x, tuple):
        if x and x[0] == "v":
            acc.add(x[1])
        else:
            for y in x[1:]:
                vars_of(y, acc)
    return acc


def consts_of(x, acc=None):
    acc = set() if acc is None else acc
    if isinstance(x, tuple):
        if x and x[0] == "c":
            acc.add(x[1])
        else:
            for y in x[1:]:
                consts_of(y, acc)
    return acc


def interval(e, ranges):
    k = e[0]
    if k == "c":
        return e[1], e[1]
    if k == "v":
        return ranges[e[1]]
    a = interval(e[1], ranges)
    b = interval(e[2], ranges)
    if k == "+":
        return a[0] + b[0], a[1] + b[1]
    if k == "-":
        return a[0] - b[1], a[1] - b[0]
    if k == "*":
        c = [a[0] * b[0], a[0] * b[1], a[1] * b[0], a[1] * b[1]]
        return min(c), max(c)
    raise AssertionError(e)


# -- rendering ---------------------------------------------------------------------------


def cq_e(e):
    k = e[0]
    if k == "c":
        return str(e[1]) if e[1] >= 0 else "(%d)" % e[1]
    if k == "v":
        return e[1]
    op = {"+": "+", "-": "-", "*": "*"}[k]
    return "(%s %s %s)" % (cq_e(e[1]), op, cq_e(e[2]))


def cq_p(p):  # Prop
    k = p[0]
    if k == "T":
        return "True"
    if k == "F":
        return "False"
    if k in ("lt", "le", "eq"):
        return "(%s %s %s)" % (cq_e(p[1]), {"lt": "<", "le": "<=", "eq": "="}[k], cq_e(p[2]))
    if k == "and":
        return "(%s /\\ %s)" % (cq_p(p[1]), cq_p(p[2]))
    if k == "or":
        return "(%s \\/ %s)" % (cq_p(p[1]), cq_p(p[2]))
    if k == "not":
        return "(~ %s)" % cq_p(p[1])
    raise AssertionError(p)


def cq_b(p):  # bool
    k = p[0]
    if k == "T":
        return "true"
    if k == "F":
        return "false"
    if k in ("lt", "le", "eq"):
        return "(%s %s %s)" % (cq_e(p[1]), {"lt": "<?", "le": "<=?", "eq": "=?"}[k], cq_e(p[2]))
    if k == "and":
        return "(%s && %s)" % (cq_b(p[1]), cq_b(p[2]))
    if k == "or":
        return "(%s || %s)" % (cq_b(p[1]), cq_b(p[2]))
    if k == "not":
        return "(negb %s)" % cq_b(p[1])
    raise AssertionError(p)


# ----------------------------------------------------------------------------------------
# which bytes an external entry point touches.  Each entry: function(tr, args(values), node) ->
# value; it calls tr.access(...) for every buffer it reads/writes.  Everything not listed is
# rejected, except NOACCESS (take no tracked pointer, or only NUL-terminated C strings / objects).

NOACCESS = {
    "PyErr_SetString", "PyErr_Format", "PyErr_NewException", "PyErr_NoMemory", "ERR_clear_error", "Py_INCREF", "Py_DECREF",
    "Py_TYPE", "PyType_GetSlot", "PyType_FromSpec", "PyModule_Create", "PyModule_AddObject",
    "PyLong_FromUnsignedLong", "PyLong_FromUnsignedLongLong", "PyLong_FromSsize_t",
    "EVP_CIPHER_CTX_new", "EVP_CIPHER_CTX_free", "EVP_CIPHER_CTX_set_key_length", "EVP_get_cipherbyname",
    "EVP_add_cipher", "EVP_aes_128_ecb", "EVP_aes_128_gcm", "EVP_aes_256_ecb", "EVP_aes_256_gcm",
    "free",  # free(self->base) in dealloc, and the tp_free slot called through a local named `free`
}
# NUL-terminated-string parameters (index) of NOACCESS functions: a tracked "y#" pointer may be
# passed there (reads up to and including the NUL CPython keeps after every bytes object).
CSTRING_PARAMS = {"EVP_get_cipherbyname": {0}, "PyErr_Format": {2, 3, 4}}
# Upper bound on (output length - input length) of EVP_CipherUpdate per context field
# (EVP documentation: "the amount of data written can be anything from zero bytes to
# (inl + cipher_block_size - 1)"; GCM, ChaCha20-Poly1305 and ChaCha20 have block size 1, AES-ECB 16).
CTX_BLOCK = {"decrypt_ctx": 1, "encrypt_ctx": 1, "ctx": 16}
# bytes EVP_CipherInit_ex reads through its key / iv pointers, per context field
CTX_KEYLEN = {"decrypt_ctx": 32, "encrypt_ctx": 32, "ctx": None}   # None: the length given to set_key_length
CTX_IVLEN = {"decrypt_ctx": 12, "encrypt_ctx": 12, "ctx": 16}
EVP_CTRL = {0x9: "ivlen", 0x10: "get_tag", 0x11: "set_tag"}


# ----------------------------------------------------------------------------------------


class Obj:
    """A memory object: name, size expression, C text of its base pointer and size."""

    def __init__(self, name, oid, size, c_base, c_size):
        self.name, self.oid, self.size, self.c_base, self.c_size = name, oid, size, c_base, c_size


class State:
    def __init__(self):
        self.env = {}        # lvalue key -> value
        self.pc = ("T",)     # path condition
        self.done = False

    def fork(self):
        s = State()
        s.env = dict(self.env)
        s.pc = self.pc
        return s


class Fn:
    def __init__(self, name, file, line):
        self.name, self.file, self.line = name, file, line
        self.vars = []       # (name, lo, hi, kind, doc)
        self.hyps = []       # extra hypotheses (conditions) over vars (truncations, invariant)
        self.events = []     # dicts
        self.param_reads = []  # for static helpers: (param, off, len)
        self.objs = {}
        self.is_buffer_method = False
        self.ret_fail = "NULL"
        self.nacc = 0


class Translator:
    def __init__(self, path):
        self.c_ast, self.c_generator, c_parser = _pyc()
        self.path = path
        self.file = os.path.basename(path)
        self.src_lines = open(path).read().split("\n")
        r = subprocess.run(["gcc", "-E", "-nostdinc", "-I" + STUBS, path], capture_output=True, text=True)
        if r.returncode != 0:
            raise Untranslatable("gcc -E failed on %s: %s" % (path, r.stderr[-500:]))
        try:
            self.ast = c_parser.CParser().parse(r.stdout, self.file)
        except Exception as e:
            raise Untranslatable("pycparser: %s" % e)
        self.gen = self.c_generator.CGenerator()
        self.structs = {}    # typedef name -> {field: (kind, ...)}
        self.fns = {}
        self.helpers = {}    # static helper name -> Fn (with param_reads)
        self.inserts = []    # (line, text, after?)
        self.collect_structs()

    # -- declarations ----------------------------------------------------------------------
    def collect_structs(self):
        A = self.c_ast
        for e in self.ast.ext:
            if isinstance(e, A.Typedef) and isinstance(e.type, A.TypeDecl) and isinstance(e.type.type, A.Struct) and e.type.type.decls:
                if not (e.coord and os.path.basename(e.coord.file) == self.file):
                    continue
                fields = {}
                for d in e.type.type.decls:
                    t = d.type
                    if isinstance(t, A.ArrayDecl):
                        n = self.const_int(t.dim)
                        el = self.tname(t.type)
                        if TYPES.get(el) not in ((0, 255), (-128, 127)):
                            raise Untranslatable("array field %s of non-byte element type" % d.name)
                        fields[d.name] = ("array", n)
                    elif isinstance(t, A.PtrDecl):
                        fields[d.name] = ("ptr", self.tname(t.type) if isinstance(t.type, A.TypeDecl) else "?")
                    else:
                        fields[d.name] = ("scalar", self.tname(t))
                self.structs[e.name] = fields

    def tname(self, t):
        A = self.c_ast
        if isinstance(t, A.TypeDecl):
            t = t.type
        if isinstance(t, A.IdentifierType):
            return " ".join(t.names)
        if isinstance(t, A.Struct):
            return "struct " + (t.name or "?")
        return "?"

    def const_int(self, n):
        A = self.c_ast
        if isinstance(n, A.Constant) and n.type in ("int", "long int", "unsigned int"):
            return int(n.value.rstrip("uUlL"), 0)
        if isinstance(n, A.BinaryOp):
            a, b = self.const_int(n.left), self.const_int(n.right)
            return {"+": a + b, "-": a - b, "*": a * b}[n.op]
        raise Untranslatable("not an integer constant: %s" % self.gen.visit(n))

    # -- per function ------------------------------------------------------------------------
    def run(self):
        A = self.c_ast
        for e in self.ast.ext:
            if isinstance(e, A.FuncDef) and os.path.basename(e.coord.file) == self.file:
                self.do_function(e)
        return self.fns

    def newvar(self, name, lo, hi, kind, doc=""):
        f = self.f
        base = re.sub(r"[^A-Za-z0-9_]", "_", name)
        if base in ("end", "in", "at", "as", "fun", "let", "match", "if", "then", "else", "return", "for", "with", "type", "using", "mod", "inl", "inr", "pair", "nil", "cons", "left", "right", "true", "false", "None", "Some", "O", "S", "tt", "eq", "le", "lt", "ge", "gt", "fst", "snd", "length", "ev", "acc", "exists", "forall"):
            base += "_"
        nm, k = base, 1
        while nm in [v[0] for v in f.vars]:
            k += 1
            nm = "%s%d" % (base, k)
        f.vars.append((nm, lo, hi, kind, doc))
        return V(nm)

    def ranges(self):
        return {v[0]: (v[1], v[2]) for v in self.f.vars}

    def do_function(self, fd):
        A = self.c_ast
        name = fd.decl.name
        f = self.f = Fn(name, self.file, fd.coord.line)
        rt = fd.decl.type.type
        f.ret_fail = "NULL" if isinstance(rt, A.PtrDecl) else ("-1" if name.endswith("_init") else ("" if self.tname(rt) == "void" else "0"))
        st = State()
        self.cur_stmt = None
        self.loop = None
        self.cguards = []
        params = fd.decl.type.args.params if fd.decl.type.args else []
        for p in params:
            if isinstance(p, A.Typename) or p.name is None:
                continue
            t = p.type
            if isinstance(t, A.PtrDecl):
                tn = self.tname(t.type)
                if tn in self.structs:
                    self.bind_self(st, p.name, tn)
                elif tn in ("unsigned char", "char", "uint8_t"):
                    # pointer parameter of a static helper: an object of unknown size supplied by the caller
                    o = Obj("param:" + p.name, 90 + len(f.objs), None, p.name, None)
                    f.objs[o.name] = o
                    st.env[p.name] = ("ptr", o.name, C(0))
                else:
                    st.env[p.name] = ("unk",)
            else:
                tn = self.tname(t)
                if tn in TYPES:
                    lo, hi = TYPES[tn]
                    st.env[p.name] = ("int", self.newvar(p.name, lo, hi, "arg", tn))
                else:
                    st.env[p.name] = ("unk",)
        self.ctypes = {}
        states = self.exec_block(fd.body.block_items or [], [st])
        for s in states:
            if not s.done:
                if f.ret_fail == "":
                    self.emit_ret(s, None)
                else:
                    raise Untranslatable("%s: control reaches end of non-void function" % name)
        self.prune(f)
        self.fns[name] = f
        if any(o.size is None for o in f.objs.values()):
            self.helpers[name] = f

    def prune(self, f):
        """Drop logical variables no event depends on (loaded data bytes, shifted values, ...)."""
        used = set()
        for ev in f.events:
            for k in ("pc", "off", "len", "size", "res", "pos"):
                if k in ev:
                    vars_of(ev[k], used)
            if ev.get("loop"):
                used.add(ev["loop"]["var"])
                vars_of(ev["loop"]["hi"], used)
        for a in getattr(f, "argspec", []):
            used |= {a.get("len"), a.get("name"), a.get("optional")} - {None, True, False}
        if getattr(f, "state0", None):
            used |= {v[1] for v in f.state0}
        changed = True
        while changed:
            changed = False
            for h in f.hyps:
                hv = vars_of(h[1])
                # a hypothesis constrains `used` variables through the others it mentions
                if hv & used and not hv <= used:
                    used |= hv
                    changed = True
        f.vars = [v for v in f.vars if v[0] in used]
        f.hyps = [h for h in f.hyps if vars_of(h[1]) <= used]

    def bind_self(self, st, pname, tn):
        f = self.f
        st.env[pname] = ("self", tn)
        oid = 10
        for fld, info in self.structs[tn].items():
            if info[0] == "array":
                o = Obj("field:" + fld, oid, C(info[1]), "%s->%s" % (pname, fld), "sizeof(%s->%s)" % (pname, fld))
                oid += 1
                f.objs[o.name] = o
                st.env["%s->%s" % (pname, fld)] = ("ptr", o.name, C(0))
        if tn == "BufferObject" and set(self.structs[tn]) >= {"base", "pos", "end"}:
            if f.name == "Buffer_init":
                # constructor: establishes the pointers (tp_alloc zero-fills the object)
                for fld in ("base", "pos", "end"):
                    st.env["%s->%s" % (pname, fld)] = ("null",)
            else:
                f.is_buffer_method = True
                base = self.newvar("base", 1, ADDR_MAX, "state", "self->base (address)")
                pos = self.newvar("pos", 0, ADDR_MAX, "state", "self->pos (address)")
                end = self.newvar("end", 0, ADDR_MAX, "state", "self->end (address)")
                f.hyps.append(("inv", AND(("le", base, pos), ("le", pos, end))))
                o = Obj("heap", 1, sub(end, base), "%s->base" % pname, "(%s->end - %s->base)" % (pname, pname))
                f.objs["heap"] = o
                st.env["%s->base" % pname] = ("ptr", "heap", C(0))
                st.env["%s->pos" % pname] = ("ptr", "heap", sub(pos, base))
                st.env["%s->end" % pname] = ("ptr", "heap", sub(end, base))
                f.state0 = (base, pos, end)

    # -- events --------------------------------------------------------------------------------
    def guarded(self, text):
        """wrap a run-time assertion in the short-circuit conditions under which the access happens"""
        if not self.cguards:
            return text
        cs = []
        for (n, pos) in self.cguards:
            try:
                t = self.c_text(n)
            except Untranslatable:
                # the guard has side effects (a call): it cannot be re-evaluated; the assertion is then
                # checked unconditionally (earlier than, and whenever, the access could happen)
                continue
            cs.append("(%s)" % t if pos else "!(%s)" % t)
        return "if (%s) { %s }" % (" && ".join(cs), text) if cs else text

    def site(self):
        s = self.cur_stmt
        return s.coord.line if s is not None and s.coord else 0

    def access(self, st, val, length, kind, what, c_ptr, c_len):
        """Record an access of `length` bytes through pointer value `val`."""
        f = self.f
        if val[0] == "null":
            return
        if val[0] != "ptr":
            raise Untranslatable("%s:%d: access through untracked pointer (%s)" % (self.file, self.site(), what))
        o = f.objs[val[1]]
        if o.size is None:
            # parameter object of a static helper: becomes a requirement at each call site
            if self.loop:
                raise Untranslatable("param access in loop")
            f.param_reads.append((o.c_base, val[2], length, kind, what))
            return
        if getattr(o, "alloc_ok", None) is not None:
            # object obtained from malloc in this function: its pointer must be non-NULL here
            f.nacc += 1
            f.events.append({"t": "acc", "id": f.nacc, "pc": st.pc, "obj": o.name, "oid": o.oid, "off": C(0),
                             "len": sub(C(1), o.alloc_ok), "size": C(0), "kind": "nonnull", "rt": True,
                             "what": "%s (from malloc) is non-NULL when used" % o.c_base, "line": self.site(), "loop": self.loop})
            self.inserts.append((self.site(), "VERIF_ACC(%d, \"%s:%d\", 0, ((%s) == NULL), 0, %s);" % (
                f.nacc, f.name, f.nacc, o.c_base, f.ret_fail or "")))
        f.nacc += 1
        ev = {"t": "acc", "id": f.nacc, "pc": st.pc, "obj": o.name, "oid": o.oid, "off": val[2], "len": length,
              "size": o.size, "kind": kind, "what": what, "line": self.site(), "loop": self.loop, "rt": True}
        f.events.append(ev)
        if self.site():
            c_off = "((const char*)(%s) - (const char*)(%s))" % (c_ptr, o.c_base)
            self.inserts.append((self.site(), self.guarded("VERIF_ACC(%d, \"%s\", %s, %s, %s, %s);" % (
                f.nacc, "%s:%d" % (f.name, f.nacc), c_off, c_len, o.c_size, f.ret_fail or ""))))

    def emit_rej(self, st, exc):
        f = self.f
        pos = self.final_pos(st)
        f.events.append({"t": "rej", "pc": st.pc, "exc": exc, "pos": pos, "line": self.site()})
        st.done = True

    def emit_ret(self, st, res):
        f = self.f
        fin = self.final_state(st)
        if fin is not None and (f.is_buffer_method or f.name == "Buffer_init"):
            # postcondition of every Buffer entry point: base <= pos <= end (and base really allocated)
            o = f.objs[fin["obj"]]
            if getattr(o, "alloc_ok", None) is not None:
                f.nacc += 1
                f.events.append({"t": "acc", "id": f.nacc, "pc": st.pc, "obj": o.name, "oid": o.oid, "off": C(0),
                                 "len": sub(C(1), o.alloc_ok), "size": C(0), "kind": "inv-alloc", "rt": False,
                                 "what": "at return: self->base is a live allocation (malloc did not fail)", "line": self.site(), "loop": None})
            f.nacc += 1
            f.events.append({"t": "acc", "id": f.nacc, "pc": st.pc, "obj": o.name, "oid": o.oid, "off": fin["pos"],
                             "len": C(0), "size": fin["end"], "kind": "inv", "rt": False,
                             "what": "at return: base <= pos <= end", "line": self.site(), "loop": None})
        f.events.append({"t": "ret", "pc": st.pc, "res": res if res is not None else C(0), "pos": self.final_pos(st),
                         "line": self.site(), "final": self.final_state(st)})
        st.done = True

    def final_pos(self, st):
        v = st.env.get("self->pos")
        if v is None or v[0] == "null":
            return C(0)
        if v[0] == "ptr":
            return v[2]
        raise Untranslatable("pos is not a tracked pointer")

    def final_state(self, st):
        """For Buffer functions: (heap object name, pos offset, size, alloc var) at return."""
        b, p, e = st.env.get("self->base"), st.env.get("self->pos"), st.env.get("self->end")
        if b is None:
            return None
        if b[0] != "ptr" or p[0] != "ptr" or e[0] != "ptr" or not (b[1] == p[1] == e[1]):
            raise Untranslatable("%s: base/pos/end do not point into one object at return" % self.f.name)
        if b[2] != C(0):
            raise Untranslatable("base is not the start of its object")
        return {"obj": b[1], "pos": p[2], "end": e[2], "size": self.f.objs[b[1]].size}

    # -- statements ------------------------------------------------------------------------------
    def exec_block(self, items, states):
        for it in items:
            live = [s for s in states if not s.done]
            dead = [s for s in states if s.done]
            if not live:
                break
            states = dead + self.exec_stmt(it, live)
        return states

    def exec_stmt(self, n, states):
        out = []
        for s in states:
            out += self.exec_stmt1(n, s)
        return out

    def exec_stmt1(self, n, st):
        A = self.c_ast
        outer = self.cur_stmt
        if not isinstance(n, (A.Compound, A.If, A.For, A.Switch)):
            self.cur_stmt = n
        try:
            if isinstance(n, A.Compound):
                return self.exec_block(n.block_items or [], [st])
            if isinstance(n, A.Decl):
                return self.do_decl(n, st)
            if isinstance(n, A.If):
                return self.do_if(n, st)
            if isinstance(n, A.Return):
                self.cur_stmt = n
                return self.do_return(n, st)
            if isinstance(n, A.For):
                return self.do_for(n, st)
            if isinstance(n, A.Switch):
                return self.do_switch(n, st)
            if isinstance(n, (A.Assignment, A.UnaryOp, A.FuncCall)):
                self.expr(n, st)
                return [st]
            if isinstance(n, A.EmptyStatement):
                return [st]
            if isinstance(n, A.Break):
                st.brk = True
                return [st]
            raise Untranslatable("%s:%s: statement %s" % (self.file, n.coord, type(n).__name__))
        finally:
            self.cur_stmt = outer

    def do_decl(self, n, st):
        A = self.c_ast
        t = n.type
        if isinstance(t, A.TypeDecl):
            tn = self.tname(t)
            self.ctypes[n.name] = tn
            if n.init is not None:
                v = self.expr(n.init, st)
                self.assign_var(st, n.name, v)
            else:
                st.env[n.name] = ("uninit",)
        elif isinstance(t, A.PtrDecl):
            self.ctypes[n.name] = "ptr"
            if n.init is not None:
                st.env[n.name] = self.expr(n.init, st)
            else:
                st.env[n.name] = ("uninit",)
        elif isinstance(t, A.ArrayDecl):
            st.env[n.name] = ("unk",)   # e.g. kwlist[]: array of string literals, never indexed
        elif isinstance(t, A.FuncDecl):
            st.env[n.name] = ("unk",)
        else:
            raise Untranslatable("declaration of %s" % n.name)
        return [st]

    def assign_var(self, st, name, v):
        """Store into a C scalar variable of declared type, with the implicit conversion."""
        tn = self.ctypes.get(name)
        if tn == "ptr" or v[0] in ("ptr", "null", "unk", "self", "str"):
            st.env[name] = v
            return
        if tn in TYPES:
            st.env[name] = ("int", self.convert(self.as_int(v, st), tn, name))
        else:
            st.env[name] = ("unk",)

    def convert(self, e, tn, hint):
        """Implicit conversion of integer expression e to C type tn.  If e may not fit, a fresh
        variable r in the type's range with hypothesis (lo <= e <= hi -> r = e) is introduced
        (sound over-approximation of wrap-around)."""
        lo, hi = TYPES[tn]
        a, b = interval(e, self.ranges())
        if lo <= a and b <= hi:
            return e
        r = self.newvar(hint, lo, hi, "conv", "(%s) %s" % (tn, cq_e(e)))
        self.f.hyps.append(("conv", OR(OR(("lt", e, C(lo)), ("lt", C(hi), e)), ("eq", r, e)), r[1], e, lo, hi))
        return r

    def do_if(self, n, st):
        saved = self.cur_stmt
        self.cur_stmt = n
        c = self.cond(n.cond, st)
        self.cur_stmt = saved
        a = st.fork()
        a.pc = AND(st.pc, c)
        b = st.fork()
        b.pc = AND(st.pc, NOT(c))
        ra = self.exec_stmt1(n.iftrue, a)
        rb = self.exec_stmt1(n.iffalse, b) if n.iffalse is not None else [b]
        live = [s for s in ra + rb if not s.done]
        dead = [s for s in ra + rb if s.done]
        # merge continuing branches whose environments agree (the usual `if (..) x ^= ..; else ..`)
        if len(live) > 1 and all(s.env == live[0].env for s in live):
            m = live[0]
            pcs = [s.pc for s in live]
            pc = pcs[0]
            for p in pcs[1:]:
                pc = OR(pc, p)
            # the common case: both branches continue -> the path condition before the `if`
            if len(live) == 2 and not dead:
                pc = st.pc
            m.pc = pc
            live = [m]
        return dead + live

    def do_return(self, n, st):
        A = self.c_ast
        e = n.expr
        if e is None:
            self.emit_ret(st, None)
            return [st]
        # failure returns: NULL / -1 after an exception was set
        isnull = isinstance(e, A.Cast) and isinstance(e.expr, A.Constant) and e.expr.value == "0"
        isneg = isinstance(e, A.UnaryOp) and e.op == "-" and isinstance(e.expr, A.Constant)
        if isnull or isneg or (isinstance(e, A.Constant) and e.value == "0" and self.f.ret_fail == "NULL"):
            self.emit_rej(st, st.env.get("$exc", "error"))
            return [st]
        if isinstance(e, A.Constant) and self.f.ret_fail == "-1":
            self.emit_ret(st, None)
            return [st]
        if isinstance(e, A.ID) and e.name in ("Py_None", "Py_True", "Py_False", "m"):
            self.emit_ret(st, None)
            return [st]
        v = self.expr(e, st)
        res = None
        if v[0] == "pyobj":
            res = v[1]
        elif v[0] in ("int", "bool") and self.f.ret_fail == "0":
            res = None
        elif v[0] == "ptr" or v[0] == "unk":
            res = None
        self.emit_ret(st, res)
        return [st]

    def do_for(self, n, st):
        A = self.c_ast
        # for (int i = LO; i < HI; ++i) { body }   with LO constant
        try:
            d = n.init.decls[0]
            lo = self.const_int(d.init)
            iv = d.name
            assert isinstance(n.cond, A.BinaryOp) and n.cond.op == "<" and n.cond.left.name == iv
            assert isinstance(n.next, A.UnaryOp) and n.next.op in ("++", "p++") and n.next.expr.name == iv
        except Exception:
            raise Untranslatable("%s:%s: unsupported for-loop shape" % (self.file, n.coord))
        hi = self.as_int(self.expr(n.cond.right, st), st)
        if self.loop:
            raise Untranslatable("nested loop")
        a, b = interval(hi, self.ranges())
        i = self.newvar(iv, lo, max(lo, b - 1), "loop", "loop index, %d <= %s < %s" % (lo, iv, cq_e(hi)))
        body = st.fork()
        body.env[iv] = ("int", i)
        self.ctypes[iv] = "int"
        self.loop = {"var": i[1], "lo": lo, "hi": hi}
        body.pc = AND(st.pc, AND(("le", C(lo), i), ("lt", i, hi)))
        before = dict(st.env)
        res = self.exec_stmt1(n.stmt, body)
        self.loop = None
        if len(res) != 1 or res[0].done:
            raise Untranslatable("loop body branches or returns")
        # the body may only change untracked scalars
        for k, v in res[0].env.items():
            if k == iv:
                continue
            if before.get(k) != v:
                if v[0] in ("int", "unk", "uninit") and before.get(k, ("unk",))[0] in ("int", "unk", "uninit") and k in self.ctypes and self.ctypes[k] in TYPES:
                    lo2, hi2 = TYPES[self.ctypes[k]]
                    st.env[k] = ("int", self.newvar(k, lo2, hi2, "opaque", "value of %s after the loop" % k))
                else:
                    raise Untranslatable("loop body modifies %s" % k)
        return [st]

    def do_switch(self, n, st):
        A = self.c_ast
        saved = self.cur_stmt
        self.cur_stmt = n
        v = self.as_int(self.expr(n.cond, st), st)
        self.cur_stmt = saved
        out = []
        seen = []
        for c in n.stmt.block_items:
            s = st.fork()
            if isinstance(c, A.Case):
                k = self.const_int(c.expr)
                seen.append(k)
                s.pc = AND(st.pc, ("eq", v, C(k)))
            elif isinstance(c, A.Default):
                for k in seen:
                    s.pc = AND(s.pc, NOT(("eq", v, C(k))))
                if c is not n.stmt.block_items[-1]:
                    raise Untranslatable("default is not the last switch label")
            else:
                raise Untranslatable("statement outside case")
            s.brk = False
            res = self.exec_block(c.stmts, [s])
            for r in res:
                if not r.done and not getattr(r, "brk", False):
                    raise Untranslatable("switch case falls through")
                r.brk = False
            out += res
        if not isinstance(n.stmt.block_items[-1], A.Default):
            raise Untranslatable("switch without default")
        return out

    # -- expressions -----------------------------------------------------------------------------
    def as_int(self, v, st):
        if v[0] == "int":
            return v[1]
        if v[0] == "bool":
            r = self.newvar("b", 0, 1, "opaque", "truth value")
            return r
        raise Untranslatable("%s:%d: integer expected, got %s" % (self.file, self.site(), v[0]))

    def cond(self, n, st):
        A = self.c_ast
        if isinstance(n, A.BinaryOp) and n.op in ("&&", "||"):
            p = self.cond(n.left, st)
            saved = st.pc
            st.pc = AND(saved, p if n.op == "&&" else NOT(p))
            self.cguards.append((n.left, n.op == "&&"))     # short-circuit: right operand only evaluated under this
            q = self.cond(n.right, st)
            self.cguards.pop()
            st.pc = saved
            return AND(p, q) if n.op == "&&" else OR(p, q)
        if isinstance(n, A.UnaryOp) and n.op == "!":
            return NOT(self.cond(n.expr, st))
        if isinstance(n, A.BinaryOp) and n.op in ("<", ">", "<=", ">=", "==", "!="):
            a, b = self.expr(n.left, st), self.expr(n.right, st)
            if a[0] == "ptr" and b[0] == "ptr":
                if a[1] != b[1]:
                    raise Untranslatable("comparison of pointers into different objects")
                x, y = a[2], b[2]
            elif (a[0] in ("ptr", "null", "unk", "pyobj") or b[0] in ("ptr", "null", "unk", "pyobj")):
                lg = self.lifecycle_guard(n, st)
                if lg is not None:
                    return lg
                return self.ptr_test(a, b, n.op, st)
            else:
                x, y = self.as_int(a, st), self.as_int(b, st)
            return {"<": ("lt", x, y), ">": ("lt", y, x), "<=": ("le", x, y), ">=": ("le", y, x),
                    "==": ("eq", x, y), "!=": NOT(("eq", x, y))}[n.op]
        v = self.expr(n, st)
        if v[0] == "bool":
            return v[1]
        if v[0] == "int":
            return NOT(("eq", v[1], C(0)))
        if v[0] in ("unk", "pyobj"):
            tag = v[1] if len(v) > 1 and isinstance(v[1], str) else "value"
            b = self.newvar("fail_" + tag, 0, 1, "opaque", "1 iff %s returned 0 / NULL" % tag)
            return ("eq", b, C(0))
        raise Untranslatable("%s:%d: condition %s" % (self.file, self.site(), self.gen.visit(n)))

    def lifecycle_guard(self, n, st):
        """`self-><cipher context field> == NULL` (or != NULL) in a METHOD, on a field the function has not assigned: the
        guard for an object whose __init__ never completed.  The model describes calls on constructed objects (R_* have
        no lifecycle variable), for which the context is non-NULL, so the test is decided (no new logical variable: the
        model of a method with such a guard is the model without it).  Recorded in f.lifecycle_guards; methods that hand a
        context to OpenSSL WITHOUT such a guard are listed as `unguarded_ctx_uses` in c04_access.json."""
        A = self.c_ast
        if n.op not in ("==", "!=") or self.f.name.endswith("_init") or self.f.name.endswith("_dealloc"):
            return None

        def isnullc(x):
            return (isinstance(x, A.Constant) and x.value == "0") or (isinstance(x, A.ID) and x.name == "NULL") or \
                (isinstance(x, A.Cast) and isnullc(x.expr))
        fld = None
        for x, y in ((n.left, n.right), (n.right, n.left)):
            if isinstance(x, A.StructRef) and x.type == "->" and isinstance(x.name, A.ID) and x.name.name == "self" \
                    and x.field.name in CTX_BLOCK and isnullc(y):
                fld = x.field.name
        if fld is None or ("self->" + fld) in getattr(self, "assigned_fields", set()):
            return None
        if not hasattr(self.f, "lifecycle_guards"):
            self.f.lifecycle_guards = []
        self.f.lifecycle_guards.append({"field": fld, "line": self.site()})
        return ("F",) if n.op == "==" else ("T",)

    def ptr_test(self, a, b, op, st):
        """p == NULL / p != NULL / ctx != 0 on pointers."""
        def isnull(v):
            return v[0] == "null" or (v[0] == "int" and v[1] == C(0))
        if isnull(b):
            p = a
        elif isnull(a):
            p = b
        else:
            raise Untranslatable("pointer comparison")
        if op not in ("==", "!="):
            raise Untranslatable("pointer ordering against NULL")
        if p[0] == "null":
            r = ("T",)
        elif p[0] == "ptr":
            o = self.f.objs[p[1]]
            if getattr(o, "alloc_ok", None) is not None:
                r = NOT(("eq", o.alloc_ok, C(1)))     # NULL iff malloc failed
            elif getattr(o, "nullable", None) is not None:
                r = ("eq", o.nullable, C(1))
            else:
                r = ("F",)
        else:
            tag = p[1] if len(p) > 1 else "value"
            bv = self.newvar("fail_" + tag, 0, 1, "opaque", "1 iff %s returned 0 / NULL" % tag)
            r = ("eq", bv, C(1))
        return r if op == "==" else NOT(r)

    def lkey(self, n):
        A = self.c_ast
        if isinstance(n, A.ID):
            return n.name
        if isinstance(n, A.StructRef) and isinstance(n.name, A.ID) and n.type == "->":
            return "%s->%s" % (n.name.name, n.field.name)
        return None

    def c_text(self, n):
        """C text of an expression with post/pre-increments removed (value before the bump)."""
        A = self.c_ast
        if isinstance(n, A.UnaryOp) and n.op in ("p++", "p--"):
            return self.c_text(n.expr)
        if isinstance(n, A.UnaryOp) and n.op in ("++", "--"):
            raise Untranslatable("pre-increment inside an access expression")
        if isinstance(n, A.BinaryOp):
            return "(%s %s %s)" % (self.c_text(n.left), n.op, self.c_text(n.right))
        if isinstance(n, A.Cast):
            return "((%s)%s)" % (self.gen.visit(n.to_type), self.c_text(n.expr))
        if isinstance(n, (A.ID, A.Constant, A.StructRef)):
            return self.gen.visit(n)
        if isinstance(n, A.UnaryOp) and n.op == "sizeof":
            return self.gen.visit(n)
        if isinstance(n, A.UnaryOp) and n.op in ("-", "&", "*", "!"):
            return "(%s%s)" % (n.op, self.c_text(n.expr))
        if isinstance(n, A.ArrayRef):
            return "%s[%s]" % (self.c_text(n.name), self.c_text(n.subscript))
        raise Untranslatable("cannot render %s" % type(n).__name__)

    def opaque(self, lo, hi, doc):
        nm = re.sub(r"[^A-Za-z0-9]+", "_", doc.replace("&", " and ").replace(">>", " shr ").replace("<<", " shl ").replace("|", " or ").replace("^", " xor ").replace("*", " at ").replace("+", " plus ").replace("-", " minus "))
        nm = "u_" + nm.strip("_")[:28].strip("_")
        return ("int", self.newvar(nm, lo, hi, "opaque", doc))

    def load(self, st, ptrnode, ptrval, idxnode=None):
        """Read of one byte through a pointer: records the access, returns an opaque byte."""
        c_ptr = self.c_text(ptrnode) if idxnode is None else "(%s + %s)" % (self.c_text(ptrnode), self.c_text(idxnode))
        self.access(st, ptrval, C(1), "r", "load " + c_ptr, c_ptr, "1")
        return self.opaque(0, 255, "byte loaded from " + c_ptr)

    def expr(self, n, st):
        A = self.c_ast
        if isinstance(n, A.Constant):
            if n.type == "string":
                return ("str", n.value)
            if n.type in ("int", "long int", "unsigned int", "unsigned long int", "long long int", "unsigned long long int"):
                return ("int", C(int(n.value.rstrip("uUlL"), 0)))
            raise Untranslatable("constant of type %s" % n.type)
        if isinstance(n, A.ID):
            if n.name in st.env:
                v = st.env[n.name]
                if v[0] == "uninit":
                    raise Untranslatable("%s:%d: read of uninitialised %s" % (self.file, self.site(), n.name))
                return v
            return ("unk",)   # globals: exception objects, type objects
        if isinstance(n, A.StructRef):
            k = self.lkey(n)
            if k in st.env:
                return st.env[k]
            base = st.env.get(n.name.name) if isinstance(n.name, A.ID) else None
            if base and base[0] == "self":
                info = self.structs[base[1]].get(n.field.name)
                if info and info[0] == "scalar" and info[1] in TYPES:
                    lo, hi = TYPES[info[1]]
                    v = ("int", self.newvar(n.field.name, lo, hi, "state", "field %s" % k))
                    st.env[k] = v
                    return v
                if info and info[0] == "ptr":
                    return ("field_ptr", n.field.name)
            return ("unk",)
        if isinstance(n, A.Cast):
            tn = self.tname(n.to_type.type) if isinstance(n.to_type.type, A.TypeDecl) else None
            v = self.expr(n.expr, st)
            if isinstance(n.to_type.type, A.PtrDecl):
                if v[0] == "int" and v[1] == C(0):
                    return ("null",)
                return v
            if tn in TYPES and v[0] == "int":
                return ("int", self.convert(v[1], tn, "cast"))
            if tn in TYPES and v[0] == "bool":
                return v
            return ("unk",)
        if isinstance(n, A.UnaryOp):
            return self.unary(n, st)
        if isinstance(n, A.BinaryOp):
            return self.binary(n, st)
        if isinstance(n, A.ArrayRef):
            p = self.expr(n.name, st)
            i = self.as_int(self.expr(n.subscript, st), st)
            if p[0] != "ptr":
                raise Untranslatable("%s:%d: index of untracked pointer" % (self.file, self.site()))
            return self.load(st, n.name, ("ptr", p[1], add(p[2], i)), n.subscript)
        if isinstance(n, A.Assignment):
            return self.assignment(n, st)
        if isinstance(n, A.FuncCall):
            return self.call(n, st)
        raise Untranslatable("%s:%d: expression %s" % (self.file, self.site(), type(n).__name__))

    def unary(self, n, st):
        A = self.c_ast
        op = n.op
        if op == "sizeof":
            if isinstance(n.expr, A.StructRef):
                v = self.expr(n.expr, st)
                if v[0] == "ptr" and v[2] == C(0) and self.f.objs[v[1]].name.startswith("field:"):
                    return ("int", self.f.objs[v[1]].size)
            raise Untranslatable("sizeof of %s" % self.gen.visit(n.expr))
        if op == "&":
            k = self.lkey(n.expr)
            if k is not None:
                return ("addr", k)
            raise Untranslatable("address-of %s" % self.gen.visit(n.expr))
        if op == "*":
            p = self.expr(n.expr, st)     # evaluates (and performs) p++ inside
            if p[0] != "ptr":
                raise Untranslatable("%s:%d: dereference of untracked pointer %s" % (self.file, self.site(), self.gen.visit(n.expr)))
            return self.load(st, n.expr, p)
        if op in ("p++", "++", "p--", "--"):
            k = self.lkey(n.expr)
            if k is None:
                raise Untranslatable("increment of non-variable")
            old = self.expr(n.expr, st)
            d = C(1 if "+" in op else -1)
            if old[0] == "ptr":
                new = ("ptr", old[1], add(old[2], d))
                st.env[k] = new
            elif old[0] == "int":
                self.assign_var(st, k, ("int", add(old[1], d)))
                new = st.env[k]
            else:
                raise Untranslatable("increment of %s" % old[0])
            return old if op.startswith("p") else new
        if op == "!":
            return ("bool", self.cond(n, st))
        if op == "-":
            v = self.expr(n.expr, st)
            return ("int", sub(C(0), self.as_int(v, st)))
        raise Untranslatable("unary %s" % op)

    def binary(self, n, st):
        op = n.op
        if op in ("&&", "||", "<", ">", "<=", ">=", "==", "!="):
            return ("bool", self.cond(n, st))
        a, b = self.expr(n.left, st), self.expr(n.right, st)
        if op in ("+", "-"):
            if a[0] == "ptr" and b[0] in ("int",):
                off = add(a[2], b[1]) if op == "+" else sub(a[2], b[1])
                self.ptr_arith(st, a, off, n)
                return ("ptr", a[1], off)
            if a[0] == "ptr" and b[0] == "ptr" and op == "-":
                if a[1] != b[1]:
                    raise Untranslatable("difference of pointers into different objects")
                return ("int", sub(a[2], b[2]))
            if a[0] == "int" and b[0] == "int":
                return ("int", add(a[1], b[1]) if op == "+" else sub(a[1], b[1]))
            raise Untranslatable("%s:%d: %s on %s,%s" % (self.file, self.site(), op, a[0], b[0]))
        if a[0] == "bool":
            a = ("int", self.as_int(a, st))
        if b[0] == "bool":
            b = ("int", self.as_int(b, st))
        if a[0] != "int" or b[0] != "int":
            raise Untranslatable("%s:%d: %s on %s,%s" % (self.file, self.site(), op, a[0], b[0]))
        ra, rb = interval(a[1], self.ranges()), interval(b[1], self.ranges())
        doc = self.gen.visit(n)[:60]
        if op == "*":
            return ("int", mul(a[1], b[1]))
        if op == "&":
            if rb[0] == rb[1] and rb[0] >= 0:
                return self.opaque(0, rb[0], doc)
            if ra[0] == ra[1] and ra[0] >= 0:
                return self.opaque(0, ra[0], doc)
            if ra[0] >= 0 and rb[0] >= 0:
                return self.opaque(0, min(ra[1], rb[1]), doc)
        if op == ">>" and rb[0] == rb[1] and 0 <= rb[0] < 64 and ra[0] >= 0:
            return self.opaque(ra[0] >> rb[0], ra[1] >> rb[0], doc)
        if op in ("<<", ">>", "|", "^", "&"):
            if ra[0] >= 0 and rb[0] >= 0:
                return self.opaque(0, P64 - 1, doc)
            return self.opaque(-(1 << 63), P64 - 1, doc)
        raise Untranslatable("binary %s" % op)

    def ptr_arith(self, st, p, off, n):
        """Pointer arithmetic on the malloc'ed Buffer: record the no-wrap condition (the code
        compares `pos + len > end`, which is only meaningful if pos + len does not wrap)."""
        f = self.f
        if p[1] == "heap" and getattr(f, "state0", None):
            a, b = interval(off, self.ranges())
            if a < -2 * ADDR_MAX or b > 2 * ADDR_MAX:
                base = f.state0[0]
                f.nacc += 1
                f.events.append({"t": "acc", "id": f.nacc, "pc": st.pc, "obj": "address-space", "oid": 0,
                                 "off": add(base, off), "len": C(0), "size": C(P64 - 1), "kind": "p",
                                 "what": "pointer arithmetic %s stays below 2^64" % self.gen.visit(n), "line": self.site(),
                                 "loop": self.loop, "rt": False})

    def assignment(self, n, st):
        A = self.c_ast
        lhs = n.lvalue
        k = self.lkey(lhs)
        rv = self.expr(n.rvalue, st)
        if k is not None:
            # scalar / pointer variable or field
            if n.op == "=":
                new = rv
            else:
                old = self.expr(lhs, st)
                if n.op in ("+=", "-=") and old[0] == "ptr" and rv[0] == "int":
                    off = add(old[2], rv[1]) if n.op == "+=" else sub(old[2], rv[1])
                    new = ("ptr", old[1], off)
                elif n.op in ("+=", "-=") and old[0] == "int" and rv[0] == "int":
                    new = ("int", add(old[1], rv[1]) if n.op == "+=" else sub(old[1], rv[1]))
                else:
                    new = ("unk",)
            if "->" in k:
                fld = k.split("->")[1]
                base = st.env.get(k.split("->")[0])
                info = self.structs.get(base[1], {}).get(fld) if base and base[0] == "self" else None
                if info and info[0] == "ptr" and fld in ("base", "pos", "end"):
                    if new[0] not in ("ptr", "null"):
                        raise Untranslatable("%s assigned an untracked pointer" % k)
                    st.env[k] = new
                elif info and info[0] == "scalar":
                    st.env.pop(k, None)      # re-read gives a fresh opaque value of the field type
                else:
                    st.env[k] = ("unk",) if new[0] not in ("ptr", "null") else new
            else:
                if k in self.ctypes:
                    if new[0] in ("int", "bool") and self.ctypes[k] in TYPES:
                        self.assign_var(st, k, new if new[0] == "int" else ("int", self.as_int(new, st)))
                    else:
                        st.env[k] = new
                else:
                    st.env[k] = new
            return st.env.get(k, ("unk",))
        # store through pointer / array element
        if isinstance(lhs, A.ArrayRef):
            p = self.expr(lhs.name, st)
            i = self.as_int(self.expr(lhs.subscript, st), st)
            if p[0] != "ptr":
                raise Untranslatable("store through untracked pointer")
            c_ptr = "(%s + %s)" % (self.c_text(lhs.name), self.c_text(lhs.subscript))
            self.access(st, ("ptr", p[1], add(p[2], i)), C(1), "w" if n.op == "=" else "rw", "store " + c_ptr, c_ptr, "1")
            return ("unk",)
        if isinstance(lhs, A.UnaryOp) and lhs.op == "*":
            c_ptr = self.c_text(lhs.expr)
            p = self.expr(lhs.expr, st)
            if p[0] != "ptr":
                raise Untranslatable("store through untracked pointer")
            self.access(st, p, C(1), "w" if n.op == "=" else "rw", "store " + c_ptr, c_ptr, "1")
            return ("unk",)
        raise Untranslatable("%s:%d: assignment to %s" % (self.file, self.site(), self.gen.visit(lhs)))

    # -- calls ---------------------------------------------------------------------------------------
    def call(self, n, st):
        A = self.c_ast
        if not isinstance(n.name, A.ID):
            raise Untranslatable("indirect call")
        fn = n.name.name
        argn = n.args.exprs if n.args else []
        if fn in ("PyArg_ParseTuple", "PyArg_ParseTupleAndKeywords"):
            return self.parse_args(fn, argn, st)
        if fn == "free" and st.env.get("free", ("x",))[0] == "unk" and "free" in self.ctypes:
            return ("unk",)
        args = [self.expr(a, st) for a in argn]
        ct = [self.c_text(a) if not isinstance(a, A.FuncCall) else "?" for a in argn]

        def ilen(i, tn="size_t"):
            return self.as_int(args[i], st)

        if fn == "memcpy":
            self.access(st, args[0], ilen(2), "w", "memcpy dst", ct[0], ct[2])
            self.access(st, args[1], ilen(2), "r", "memcpy src", ct[1], ct[2])
            return ("unk",)
        if fn == "memset":
            self.access(st, args[0], ilen(2), "w", "memset dst", ct[0], ct[2])
            return ("unk",)
        if fn == "memcmp":
            for i in (0, 1):
                if args[i][0] != "str":
                    self.access(st, args[i], ilen(2), "r", "memcmp arg %d" % i, ct[i], ct[2])
            return ("int", self.newvar("cmp", -(1 << 31), (1 << 31) - 1, "opaque", "memcmp result"))
        if fn == "malloc":
            return self.do_malloc(st, args[0], ct[0])
        if fn == "PyBytes_FromStringAndSize":
            ln = ilen(1)
            self.access(st, args[0], ln, "r", "PyBytes_FromStringAndSize", ct[0], ct[1])
            return ("pyobj", ln)
        if fn == "Py_BuildValue":
            fmt = args[0][1].strip('"')
            units = re.findall(r"y#|[a-zA-Z]", fmt)
            i, res = 1, None
            for u in units:
                if u == "y#":
                    ln = ilen(i + 1)
                    self.access(st, args[i], ln, "r", "Py_BuildValue y#", ct[i], ct[i + 1])
                    res = ln
                    i += 2
                elif u in ("i", "I", "n", "K", "k", "l"):
                    i += 1
                else:
                    raise Untranslatable("Py_BuildValue unit %s" % u)
            return ("pyobj", res)
        if fn == "EVP_CipherUpdate":
            ctx = self.ctx_field(argn[0], st)
            inl = self.convert(ilen(4), "int", "inl")
            c_inl = "(int)(%s)" % ct[4]
            self.access(st, args[3], inl, "r", "EVP_CipherUpdate in", ct[3], c_inl)
            if args[1][0] != "null":
                blk = CTX_BLOCK[ctx]
                self.access(st, args[1], add(inl, C(blk - 1)), "w", "EVP_CipherUpdate out (inl + block_size - 1)", ct[1],
                            "(%s + %d)" % (c_inl, blk - 1))
            self.set_out_int(st, args[2], 0, None, "outl of EVP_CipherUpdate", upper=inl, blk=CTX_BLOCK[ctx])
            return ("unk", fn)
        if fn == "EVP_CipherFinal_ex":
            if args[1][0] != "null":
                raise Untranslatable("EVP_CipherFinal_ex with an output buffer")
            self.set_out_int(st, args[2], 0, 0, "outl of EVP_CipherFinal_ex")
            return ("unk", fn)
        if fn == "EVP_CipherInit_ex":
            if args[3][0] == "null" and args[4][0] == "null":
                return ("unk", fn)      # neither key nor iv: no buffer is read
            ctx = self.ctx_field(argn[0], st)
            if args[3][0] != "null":
                kl = CTX_KEYLEN[ctx]
                if kl is None:
                    kl_e = st.env.get("$keylen:" + ctx)
                    if kl_e is None:
                        raise Untranslatable("EVP_CipherInit_ex key without a preceding set_key_length")
                    self.access(st, args[3], kl_e[0], "r", "EVP_CipherInit_ex key", ct[3], kl_e[1])
                else:
                    self.access(st, args[3], C(kl), "r", "EVP_CipherInit_ex key", ct[3], str(kl))
            if args[4][0] != "null":
                self.access(st, args[4], C(CTX_IVLEN[ctx]), "r", "EVP_CipherInit_ex iv", ct[4], str(CTX_IVLEN[ctx]))
            return ("unk", fn)
        if fn == "EVP_CIPHER_CTX_set_key_length":
            try:
                ctx = self.ctx_field(argn[0], st)
            except Untranslatable:
                return ("unk",)     # on a local ctx (create_ctx): no key pointer is passed there
            kl = self.convert(ilen(1), "int", "keylen")
            st.env["$keylen:" + ctx] = (kl, "(int)(%s)" % ct[1])
            # OpenSSL: succeeds (returns 1) only for 0 < keylen <= EVP_MAX_KEY_LENGTH (64)
            ok = self.newvar("keylen_ok", 0, 1, "extern", "result of EVP_CIPHER_CTX_set_key_length")
            self.f.hyps.append(("extern2", OR(("eq", ok, C(0)), AND(("le", C(1), kl), ("le", kl, C(64)))), ok[1]))
            return ("int", ok)
        if fn == "EVP_CIPHER_CTX_ctrl":
            op = EVP_CTRL.get(self.const_int(argn[1]))
            if op == "ivlen":
                if args[3][0] != "null":
                    raise Untranslatable("SET_IVLEN with pointer")
            elif op == "set_tag":
                self.access(st, args[3], ilen(2), "r", "EVP_CTRL_*_SET_TAG", ct[3], ct[2])
            elif op == "get_tag":
                self.access(st, args[3], ilen(2), "w", "EVP_CTRL_*_GET_TAG", ct[3], ct[2])
            else:
                raise Untranslatable("EVP_CIPHER_CTX_ctrl op")
            return ("unk", fn)
        if fn in self.helpers or fn in self.fns:
            h = self.fns[fn]
            for (pname, off, ln, kind, what) in h.param_reads:
                idx = [p for p in h.params_order].index(pname)
                a = args[idx]
                if a[0] != "ptr":
                    raise Untranslatable("helper %s called with untracked pointer" % fn)
                c_ptr = "(%s + %s)" % (ct[idx], cq_e(off)) if off != C(0) else ct[idx]
                self.access(st, ("ptr", a[1], add(a[2], off)), ln, kind, "%s: %s" % (fn, what), c_ptr, cq_e(ln))
            for i, a in enumerate(args):
                if a[0] == "ptr" and h.params_order[i] not in [p[0] for p in h.param_reads] and a[1] != "self":
                    if self.f.objs[a[1]].name.startswith(("arg:", "field:", "heap")):
                        raise Untranslatable("helper %s receives tracked pointer it is not known to bound" % fn)
            return ("unk", fn)
        if fn in NOACCESS:
            for i, a in enumerate(args):
                if a[0] == "ptr" and i not in CSTRING_PARAMS.get(fn, ()):
                    if not (fn == "free"):
                        raise Untranslatable("%s:%d: tracked pointer passed to %s" % (self.file, self.site(), fn))
            if fn == "PyErr_SetString" or fn == "PyErr_Format":
                st.env["$exc"] = self.gen.visit(argn[0])
            if fn == "PyErr_NoMemory":
                st.env["$exc"] = "PyExc_MemoryError"
            return ("unk", fn)
        raise Untranslatable("%s:%d: call to unknown function %s" % (self.file, self.site(), fn))

    def ctx_field(self, node, st):
        A = self.c_ast
        if isinstance(node, A.StructRef) and node.field.name in CTX_BLOCK:
            return node.field.name
        raise Untranslatable("cipher context %s is not a known field" % self.gen.visit(node))

    def set_out_int(self, st, addr, lo, hi, doc, upper=None, blk=1):
        if addr[0] != "addr":
            raise Untranslatable("int out-parameter is not &local")
        k = addr[1]
        if hi is not None:
            st.env[k] = ("int", C(hi))
            return
        v = self.newvar(k, lo, (1 << 31) - 1, "extern", doc)
        # what the EVP interface guarantees: 0 <= outl <= inl + block_size - 1
        self.f.hyps.append(("extern", OR(("lt", upper, C(0)), ("le", v, add(upper, C(blk - 1)))), v[1]))
        st.env[k] = ("int", v)

    def do_malloc(self, st, n, c_n):
        f = self.f
        size = self.as_int(n, st)
        ok = self.newvar("malloc_ok", 0, 1, "extern", "1 iff malloc(%s) returned non-NULL" % c_n)
        k = len([o for o in f.objs if o.startswith("heap")])
        name = "heap%d" % k if k else "heap"
        tgt = self.gen.visit(self.cur_stmt.lvalue) if hasattr(self.cur_stmt, "lvalue") else None
        if tgt is None:
            raise Untranslatable("malloc result is not assigned to an lvalue")
        o = Obj(name, 1, size, tgt, "((long long)(%s))" % c_n)
        o.alloc_ok = ok
        f.objs[name] = o
        # the allocation itself: the size is converted to size_t, so it must be non-negative
        f.nacc += 1
        f.events.append({"t": "acc", "id": f.nacc, "pc": st.pc, "obj": name, "oid": 1, "off": C(0), "len": C(0),
                         "size": size, "kind": "alloc", "rt": True, "what": "malloc(%s): size is non-negative" % c_n,
                         "line": self.site(), "loop": None})
        self.inserts.append((self.site(), "VERIF_ACC(%d, \"%s:%d\", 0, 0, (long long)(%s), %s);" % (
            f.nacc, f.name, f.nacc, c_n, f.ret_fail)))
        return ("ptr", name, C(0))

    def parse_args(self, fn, argn, st):
        A = self.c_ast
        fi = 2 if fn == "PyArg_ParseTupleAndKeywords" else 1
        fmt = argn[fi].value.strip('"')
        outs = argn[fi + 1:] if fn == "PyArg_ParseTuple" else argn[fi + 2:]
        names = []
        for o in outs:
            if not (isinstance(o, A.UnaryOp) and o.op == "&" and isinstance(o.expr, A.ID)):
                raise Untranslatable("PyArg_ParseTuple out-parameter is not &local")
            names.append(o.expr.name)
        optional = False
        i = 0
        f = self.f
        f.argspec = getattr(f, "argspec", [])
        for u in re.findall(r"\||y#|s#|[a-zA-Z]", fmt.split(":")[0]):
            if u == "|":
                optional = True
                continue
            if u in ("y#", "s#"):
                p, ln = names[i], names[i + 1]
                i += 2
                # ASSUMPTION (documented): byte-string arguments are shorter than 2 GiB, so that their
                # length survives the conversions to `int` the OpenSSL interface imposes.
                lv = self.newvar(ln, 0, (1 << 31) - 1, "arg", "length reported by CPython for %s (assumed < 2^31)" % p)
                o = Obj("arg:" + p, 20 + len(f.objs), lv, p, ln)
                f.objs[o.name] = o
                if optional:
                    pres = self.newvar(p + "_given", 0, 1, "arg", "1 iff optional argument %s was passed" % p)
                    o.nullable = sub(C(1), pres)
                    f.hyps.append(("opt", OR(("eq", pres, C(1)), ("eq", lv, C(0)))))
                    f.argspec.append({"unit": u, "ptr": p, "len": lv[1], "optional": pres[1]})
                else:
                    f.argspec.append({"unit": u, "ptr": p, "len": lv[1]})
                st.env[p] = ("ptr", o.name, C(0))
                st.env[ln] = ("int", lv)
                self.ctypes[ln] = "Py_ssize_t"
            elif u in FMT_INT:
                nm = names[i]
                i += 1
                tn = self.ctypes.get(nm)
                if tn not in TYPES:
                    raise Untranslatable("format %s into non-integer %s" % (u, nm))
                lo, hi = TYPES[tn]
                v = self.newvar(nm, lo, hi, "arg", "format '%s' stored into %s %s" % (u, tn, nm))
                f.argspec.append({"unit": u, "name": v[1], "ctype": tn, "optional": optional})
                st.env[nm] = ("int", v)
            else:
                raise Untranslatable("PyArg_ParseTuple format unit %s" % u)
        if i != len(names):
            raise Untranslatable("PyArg_ParseTuple format/argument count mismatch")
        st.env["$exc"] = "PyExc_TypeError"
        return ("int", self.newvar("parsed", 0, 1, "extern", "PyArg_ParseTuple succeeded"))


# ----------------------------------------------------------------------------------------
# analysis of one tree


def analyse(repo=None):
    repo = repo or REPO
    res = {}
    trs = []
    for fn in FILES:
        tr = Translator(os.path.join(repo, "src", "aioquic", fn))
        # helper parameter order is needed at call sites
        A = tr.c_ast
        orig = tr.do_function

        def wrapped(fd, tr=tr, orig=orig):
            orig(fd)
            f = tr.fns[fd.decl.name]
            f.params_order = [p.name for p in (fd.decl.type.args.params if fd.decl.type.args else []) if not isinstance(p, A.Typename)]
        tr.do_function = wrapped
        tr.run()
        trs.append(tr)
        for k, f in tr.fns.items():
            if k in res:
                raise Untranslatable("duplicate function %s" % k)
            res[k] = f
    return res, trs


# -- verification conditions --------------------------------------------------------------


def fn_hyps(f):
    """Range and other hypotheses of a function as a list of conditions."""
    hs = []
    for (nm, lo, hi, kind, doc) in f.vars:
        hs.append(AND(("le", C(lo), V(nm)), ("le", V(nm), C(hi))))
    for h in f.hyps:
        hs.append(h[1])
    return hs


def acc_goal(ev):
    """0 <= off /\\ 0 <= len /\\ off + len <= size"""
    return AND(AND(("le", C(0), ev["off"]), ("le", C(0), ev["len"])), ("le", add(ev["off"], ev["len"]), ev["size"]))


def relevant(f, conds):
    """Hypotheses mentioning (transitively) the variables of conds."""
    vs = set()
    for c in conds:
        vars_of(c, vs)
    hs = fn_hyps(f)
    changed = True
    used = set()
    while changed:
        changed = False
        for i, h in enumerate(hs):
            if i in used:
                continue
            hv = vars_of(h)
            if hv & vs:
                used.add(i)
                if not hv <= vs:
                    vs |= hv
                changed = True
    return vs


def conjuncts(p):
    return conjuncts(p[1]) + conjuncts(p[2]) if p[0] == "and" else [p]


def find_witness(f, ev, budget=600000):
    """Search a counterexample  ranges /\\ hyps /\\ path condition /\\ ~goal  by depth-first
    enumeration of boundary values (constants of the formulas +-1, 0, +-1, type bounds) in
    declaration order, pruning with every hypothesis / path conjunct as soon as its variables are
    assigned; conversion results are computed from their source expression.  Bounded, deterministic."""
    goal = acc_goal(ev)
    pc = ev["pc"]
    vs_rel = relevant(f, [goal, pc])
    order = [v[0] for v in f.vars if v[0] in vs_rel]
    ranges = {v[0]: (v[1], v[2]) for v in f.vars}
    hs = [h for h in fn_hyps(f) if vars_of(h) & vs_rel]
    checks = [(vars_of(c), c) for c in hs + conjuncts(pc)]
    conv = {h[2]: h for h in f.hyps if h[0] == "conv"}
    ext = {h[2]: h for h in f.hyps if h[0] == "extern"}
    prim = set()
    for c in [goal, pc]:
        consts_of(c, prim)
    sec = set()
    for c in hs:
        consts_of(c, sec)
    prim = sorted(c for c in prim if abs(c) <= (1 << 33))
    sec = sorted(c for c in sec if abs(c) <= (1 << 33))
    sums = set()
    for a_ in prim:
        for b_ in prim:
            if 0 < a_ <= 4096 and 0 < b_ <= 4096:
                sums |= {a_ + b_, a_ - b_, a_ + b_ - 1, a_ - b_ - 1, a_ - b_ + 1}
    allv = [v[0] for v in f.vars]
    env0 = {v: max(ranges[v][0], min(0, ranges[v][1])) for v in allv}
    nodes = [0]

    def cands(v, env):
        lo, hi = ranges[v]
        out = []
        if v in conv:
            try:
                x = ev_e(conv[v][3], env)
                if lo <= x <= hi:
                    return [x]
            except KeyError:
                pass
        if v in ext:
            try:
                x = ev_e(ext[v][1][2][2], env)
                out += [x, x - 1, 0]
            except KeyError:
                pass
        for c in prim:
            out += [c, c - 1, c + 1]
        out += [0, 1, -1, lo, hi, 2]
        for c in sorted(sums, key=abs)[:10]:
            out.append(c)
        for c in sec[:6]:
            out += [c, c + 1]
        # values making sums with already assigned variables hit the primary constants
        for c in prim:
            for w in list(env)[-4:]:
                if w in vs_rel and abs(env[w]) <= 70000:
                    out += [c - env[w], c - env[w] + 1, c - env[w] - 1, env[w] + c, env[w]]
        seen, res = set(), []
        for x in out:
            if lo <= x <= hi and x not in seen:
                seen.add(x)
                res.append(x)
        return res[:24]

    def dfs(k, env):
        nodes[0] += 1
        if nodes[0] > budget:
            return None
        if k == len(order):
            full = dict(env0)
            full.update(env)
            if ev_b(pc, full) and not ev_b(goal, full) and all(ev_b(h, full) for h in hs):
                return dict(env)
            return None
        v = order[k]
        for x in cands(v, env):
            env[v] = x
            ok = True
            for (cv, c) in checks:
                if v in cv and cv <= set(env):
                    if not ev_b(c, env):
                        ok = False
                        break
            if ok:
                r = dfs(k + 1, env)
                if r:
                    return r
            del env[v]
        return None
    return dfs(0, {})


def probe_text(model):
    L = ["From Coq Require Import ZArith Lia.", "Local Open Scope Z_scope."]
    for name, f in model["functions"].items():
        vs = [v[0] for v in f.vars]
        hs = fn_hyps(f)
        L.append("Definition R_%s %s : Prop := %s." % (name, ("(%s : Z)" % " ".join(vs)) if vs else "",
                                                        " /\\ ".join(cq_p(h) for h in hs) if hs else "True"))
        for ev in f.events:
            if ev["t"] != "acc":
                continue
            L.append("Goal forall %s, R_%s %s -> %s." % (" ".join(vs) or "(_ : unit)", name, " ".join(vs), vc_statement(f, ev)))
            L.append("Proof. unfold R_%s; intros; first [ lia | idtac \"VCFAIL %s %d\" ]. Abort." % (name, name, ev["id"]))
    return "\n".join(L) + "\n"


def decide(model):
    """Which VCs hold?  lia (run once over a probe file) proves the valid ones; each VC it cannot
    prove must be refuted by a concrete witness found here, which then becomes a clause of K_<fn>.
    A VC that is neither proved nor refuted is emitted as a lemma anyway, so that the generated file
    fails to compile (fail closed)."""
    import hashlib
    import tempfile
    import shutil
    text = probe_text(model)
    # the probe only PRE-SORTS the VCs (provable / needs a witness); its answer is cached by the hash
    # of the probe text.  Soundness does not depend on it: every VC classified provable is emitted
    # with `lia` as its proof and re-checked by the real build.
    key = hashlib.sha256(text.encode()).hexdigest()
    cpath = os.path.join(VERIF, "coq", "gen", "c04_probe_cache.json")
    failed = None
    try:
        cj = json.load(open(cpath))
        if cj.get("key") == key:
            failed = set(tuple(x) for x in cj["failed"])
    except Exception:
        pass
    if failed is None:
        tmp = tempfile.mkdtemp(prefix="aqc04-")
        try:
            pv = os.path.join(tmp, "Probe.v")
            with open(pv, "w") as fh:
                fh.write(text)
            r = subprocess.run(["coqc", "-q", pv], capture_output=True, text=True, timeout=600, cwd=tmp)
            if r.returncode != 0:
                raise Untranslatable("VC probe does not compile: %s" % r.stderr[-800:])
            failed = set(re.findall(r"VCFAIL (\S+) (\d+)", r.stdout + r.stderr))
        finally:
            shutil.rmtree(tmp, ignore_errors=True)
        try:
            os.makedirs(os.path.dirname(cpath), exist_ok=True)
            with open(cpath + ".tmp%d" % os.getpid(), "w") as fh:
                json.dump({"key": key, "failed": sorted(failed)}, fh)
            os.replace(cpath + ".tmp%d" % os.getpid(), cpath)
        except Exception:
            pass
    undecided = []
    for name, f in model["functions"].items():
        for ev in f.events:
            if ev["t"] != "acc":
                continue
            ev["witness"] = None
            if (name, str(ev["id"])) in failed:
                ev["witness"] = find_witness(f, ev)
                if ev["witness"] is None:
                    undecided.append("%s:%d" % (name, ev["id"]))
    model["undecided"] = undecided


def generate_model(repo=None):
    fns, trs = analyse(repo)
    model = {"functions": fns, "files": FILES}
    decide(model)
    return model, trs


# -- Coq emission ----------------------------------------------------------------------------


def cm(t):
    """text safe inside a Coq comment"""
    return str(t).replace("(*", "( *").replace("*)", "* )").replace('"', "'")


def emit_coq(model):
    L = []
    w = L.append
    w("(* GENERATED by tools/gen/c04_c2vc.py from %s -- do not edit. *)" % ", ".join("src/aioquic/" + f for f in FILES))
    w("From Coq Require Import ZArith List Bool Lia ZifyBool.")
    w("From AQ Require Import model.CMemBase.")
    w("Import ListNotations.")
    w("Local Open Scope Z_scope.")
    w("")
    summary = []
    exec_cases = []
    for fi, (name, f) in enumerate(model["functions"].items()):
        vs = [v[0] for v in f.vars]
        binder = " ".join(vs)
        tbinder = ("(%s : Z)" % binder) if vs else ""
        w("(* ---------------- %s  (%s:%d) ---------------- *)" % (name, f.file, f.line))
        for v in f.vars:
            w("(*   %-14s in [%d, %d]  %s: %s *)" % (v[0], v[1], v[2], v[3], cm(v[4])))
        hs = fn_hyps(f)
        w("Definition R_%s %s : Prop :=" % (name, tbinder))
        w("  " + (" /\\\n  ".join(cq_p(h) for h in hs) if hs else "True") + ".")
        # events
        evs = []
        pending = None     # (loop dict, guard text, [records])
        def flush():
            nonlocal pending
            if pending:
                lp, g0, recs = pending
                evs.append("ELoop %s %d %s (fun %s => [%s])" % (g0, lp["lo"], cq_e(lp["hi"]), lp["var"], "; ".join(recs)))
                pending = None
        for ev in f.events:
            g = cq_b(ev["pc"])
            if ev["t"] == "acc":
                rec = "{| a_id := %d; a_obj := %d; a_off := %s; a_len := %s; a_size := %s |}" % (
                    ev["id"], ev["oid"], cq_e(ev["off"]), cq_e(ev["len"]), cq_e(ev["size"]))
                if ev["loop"]:
                    lp = ev["loop"]
                    g0 = g_noloop(ev, lp)
                    if pending and pending[0] is lp and pending[1] == g0:
                        pending[2].append(rec)
                    else:
                        flush()
                        pending = (lp, g0, [rec])
                    continue
                flush()
                evs.append("EAcc %s %s" % (g, rec))
            elif ev["t"] == "rej":
                flush()
                evs.append("ERej %s %d %s" % (g, exc_code(ev["exc"]), cq_e(ev["pos"])))
            else:
                flush()
                evs.append("ERet %s %s %s" % (g, cq_e(ev["res"]), cq_e(ev["pos"])))
        flush()
        w("Definition ev_%s %s : list ev :=" % (name, tbinder))
        w("  [ " + ";\n    ".join(evs) + " ]." if evs else "  [].")
        # VCs
        clauses = []
        loopvar = {}
        for ev in f.events:
            if ev["t"] != "acc":
                continue
            n = ev["id"]
            stmt = vc_statement(f, ev)
            w("(* access %d, %s:%d: %s [%s on %s] *)" % (n, f.file, ev["line"], cm(ev["what"]), ev["kind"], ev["obj"]))
            if ev["witness"] is None:
                w("Lemma vc_%s_%d : forall %s, R_%s %s -> %s." % (name, n, binder or "(_ : unit)", name, binder, stmt))
                w("Proof. unfold R_%s; intros; lia. Qed." % name)
            else:
                w("Definition vcprop_%s_%d %s : Prop := %s." % (name, n, tbinder, stmt))
                wit = ev["witness"]
                full = {v[0]: max(v[1], min(0, v[2])) for v in f.vars}
                full.update(wit)
                w("Lemma vc_%s_%d_refuted : exists %s, R_%s %s /\\ ~ vcprop_%s_%d %s." % (name, n, binder, name, binder, name, n, binder))
                w("Proof. %s unfold R_%s, vcprop_%s_%d; split; [ lia | intro H; lia ]. Qed." % (
                    " ".join("exists (%d)." % full[v] for v in vs), name, name, n))
                clauses.append(n)
                loopvar[n] = ev["loop"]["var"] if ev["loop"] else None
        # contract
        if clauses:
            body = {ev["id"]: vc_statement(f, ev) for ev in f.events if ev["t"] == "acc"}
            w("Definition K_%s %s : Prop :=\n  %s." % (name, tbinder, " /\\\n  ".join(
                ("(forall %s, %s)" % (loopvar[n], body[n])) if loopvar[n] else ("(%s)" % body[n]) for n in clauses)))
        else:
            w("Definition K_%s %s : Prop := True." % (name, tbinder))
        w("Definition unconditional_%s : bool := %s." % (name, "false" if clauses else "true"))
        # safety of the event list
        w("Lemma safe_%s : forall %s, R_%s %s -> K_%s %s -> events_safe (ev_%s %s)." % (
            name, binder or "(_ : unit)", name, binder, name, binder, name, binder))
        ks = " ".join("vcprop_%s_%d" % (name, n) for n in clauses)
        w("Proof. unfold events_safe, R_%s, K_%s, ev_%s%s; intros; repeat apply Forall_cons; try apply Forall_nil; unfold ev_safe, acc_ok; cbn [a_off a_len a_size]; cbv beta; first [ exact I | intros Hg iloop Hloop; repeat match goal with H : _ /\\ _ |- _ => destruct H end; repeat match goal with H : (forall x : Z, _) |- _ => specialize (H iloop) end; repeat apply Forall_cons; try apply Forall_nil; cbv beta; cbn [a_off a_len a_size]; lia | intros; lia ]. Qed."
          % (name, name, name, ""))
        # Buffer methods: returns keep the cursor inside the buffer, rejections leave it unchanged
        if f.is_buffer_method:
            base, pos, end = f.state0
            w("Lemma term_%s : forall %s, R_%s %s -> K_%s %s -> Forall (ev_term_ok %s %s) (ev_%s %s)." % (
                name, binder, name, binder, name, binder, cq_e(sub(pos, base)), cq_e(sub(end, base)), name, binder))
            w("Proof. unfold R_%s, K_%s, ev_%s%s; intros; repeat apply Forall_cons; try apply Forall_nil; unfold ev_term_ok; first [ exact I | intros; lia ]. Qed."
              % (name, name, name, ""))
        w("")
        summary.append((name, len([e for e in f.events if e["t"] == "acc"]), clauses))
        exec_cases.append((fi, name, vs))
    # executable dispatcher
    w("(* executable interface: [function index; variables in declaration order] -> outcome tokens *)")
    w("Definition exec_c04 (toks : list Z) : list Z :=")
    w("  match toks with")
    for fi, name, vs in exec_cases:
        pat = "; ".join(vs)
        w("  | %d :: [%s] => run_events (ev_%s %s)" % (fi, pat, name, " ".join(vs)) if vs else "  | %d :: [] => run_events ev_%s" % (fi, name))
    w("  | _ => [-1]")
    w("  end.")
    w("(* EXTRACT: exec_c04 *)")
    w("")
    w("Definition cmem_functions : list (Z * bool) := [%s]." % "; ".join(
        "(%d, unconditional_%s)" % (fi, name) for fi, name, _ in exec_cases))
    return "\n".join(L) + "\n", summary


def g_noloop(ev, lp):
    """Guard of a loop access without the loop-index conjuncts (they are supplied by ELoop)."""
    pc = ev["pc"]
    i = V(lp["var"])
    drop = AND(("le", C(lp["lo"]), i), ("lt", i, lp["hi"]))

    def strip(p):
        if p == drop:
            return ("T",)
        if p[0] == "and":
            return AND(strip(p[1]), strip(p[2]))
        return p
    q = strip(pc)
    if lp["var"] in vars_of(q):
        raise Untranslatable("loop index in path condition")
    return cq_b(q)


EXC_CODES = {"error": 1, "PyExc_TypeError": 2, "BufferReadError": 3, "BufferWriteError": 4, "PyExc_ValueError": 5,
             "CryptoError": 6, "PyExc_MemoryError": 7, "PyExc_SystemError": 8}


def exc_code(e):
    if e not in EXC_CODES:
        raise Untranslatable("unknown exception object %s" % e)
    return EXC_CODES[e]


def vc_statement(f, ev):
    return "%s -> %s" % (cq_p(ev["pc"]), cq_p(acc_goal(ev)))


# -- JSON for the harness ------------------------------------------------------------------------


def to_json(model):
    out = {"files": FILES, "functions": []}
    for fi, (name, f) in enumerate(model["functions"].items()):
        out["functions"].append({
            "index": fi, "name": name, "file": f.file, "line": f.line,
            "vars": [{"name": v[0], "lo": v[1], "hi": v[2], "kind": v[3], "doc": v[4]} for v in f.vars],
            "hyps": [{"kind": h[0], "cond": h[1], "extra": list(h[2:])} for h in f.hyps],
            "argspec": getattr(f, "argspec", []),
            "is_buffer_method": f.is_buffer_method,
            "events": [{k: v for k, v in ev.items()} for ev in f.events],
            "unconditional": all(ev.get("witness") is None for ev in f.events if ev["t"] == "acc"),
        })
    return out


# -- instrumented copies ----------------------------------------------------------------------------

PROLOGUE = r'''
/* ---- C04 checked build: run-time assertion n == verification condition n (tools/gen/c04_c2vc.py) ---- */
#include <stdio.h>
#include <stdlib.h>
static int verif_trace_on = -1;
static int verif_check(int id, const char *name, long long off, long long len, long long size)
{
    if (verif_trace_on < 0) verif_trace_on = getenv("VERIF_TRACE") != NULL;
    if (verif_trace_on) { fprintf(stderr, "VERIF_ACC %s %lld %lld %lld\n", name, off, len, size); fflush(stderr); }
    if (off < 0 || len < 0 || off + len > size) {
        fprintf(stderr, "VERIF_BOUNDS %s %lld %lld %lld\n", name, off, len, size); fflush(stderr);
        PyErr_Format(PyExc_SystemError, "VERIF_BOUNDS %s off=%lld len=%lld size=%lld", name, off, len, size);
        return 0;
    }
    return 1;
}
#define VERIF_ACC(id, name, off, len, size, fail) \
    if (!verif_check(id, name, (long long)(off), (long long)(len), (long long)(size))) return fail
/* ---- end of prologue ---- */
'''


def instrument(trs, outdir):
    """Write instrumented copies of the C files into outdir; returns list of paths."""
    paths = []
    for tr in trs:
        lines = list(tr.src_lines)
        before, after = {}, {}
        for ins in tr.inserts:
            (after if len(ins) > 2 else before).setdefault(ins[0], []).append(ins[1])
        out = []
        # prologue goes after the last #include
        last_inc = max(i for i, l in enumerate(lines) if l.startswith("#include"))
        for i, l in enumerate(lines):
            ln = i + 1
            if ln in before:
                s = l.strip()
                if not s or s.startswith(("}", "else", "#")):
                    raise Untranslatable("%s:%d: cannot place assertion before %r" % (tr.file, ln, s))
                ind = l[: len(l) - len(l.lstrip())]
                # a label (`case 0:`) may precede; assertions are plain statements, legal there in C99 after a label only
                # when followed by a statement -- they are statements themselves.
                for t in before[ln]:
                    out.append(ind + t)
            out.append(l)
            if ln in after:
                if not l.rstrip().endswith(";"):
                    raise Untranslatable("%s:%d: allocation statement spans lines" % (tr.file, ln))
                ind = l[: len(l) - len(l.lstrip())]
                for t in after[ln]:
                    out.append(ind + t)
            if i == last_inc:
                out.append(PROLOGUE)
        p = os.path.join(outdir, tr.file)
        with open(p, "w") as fh:
            fh.write("\n".join(out))
        paths.append(p)
    return paths


# -- entry points ---------------------------------------------------------------------------------------

_CACHE = {}


def build(repo=None):
    repo = repo or os.environ.get("VERIF_REPO", "/repo")
    key = repo
    if key not in _CACHE:
        model, trs = generate_model(repo)
        text, summary = emit_coq(model)
        _CACHE[key] = (model, trs, text, summary)
    return _CACHE[key]


def write_if_changed(path, text):
    try:
        if open(path).read() == text:
            return
    except FileNotFoundError:
        pass
    os.makedirs(os.path.dirname(path), exist_ok=True)
    tmp = path + ".tmp%d" % os.getpid()
    with open(tmp, "w") as fh:
        fh.write(text)
    os.replace(tmp, path)


def generate():
    model, trs, text, summary = build()
    write_if_changed(OUT_V, text)
    write_if_changed(OUT_JSON, json.dumps(to_json(model), indent=1, default=str))


if __name__ == "__main__":
    model, trs, text, summary = build(sys.argv[1] if len(sys.argv) > 1 else None)
    sys.stdout.write(text)
    for s in summary:
        print("(* %s: %d accesses, contract clauses %s *)" % s)
    print("(* undecided: %s *)" % model.get("undecided"))
