"""C01 generator: read from the *current* source tree how the send side computes the per-stream send limit
under connection-level flow control, and how the receive side raises MAX_DATA; write coq/gen/C01Consts.v.

What coq/model/NetSysFC.v assumes about src/aioquic/quic/connection.py, probed structurally (ast), fail closed:

 (a) QuicConnection._write_application, stream loop:
         used = self._write_stream_frame(..., max_offset=min(
                    stream.sender.<BASE> + self._remote_max_data - self._remote_max_data_used,
                    stream.max_stream_data_remote))
         self._remote_max_data_used += used
     <BASE> = highest_offset  ->  code_fc_base := BaseHighest   (retransmissions need no connection credit:
                                   fair_schedule_completes_fc applies)
     <BASE> = next_offset     ->  code_fc_base := BaseNext      (the refuted variant: the proof obligation
                                   fair_schedule_completes_fc_code no longer type-checks)
     anything else raises.
 (b) QuicConnection._write_stream_frame charges the growth of highest_offset:
         previous_send_highest = stream.sender.highest_offset ... return stream.sender.highest_offset - previous_send_highest
 (c) QuicConnection._write_connection_limits:  value = limit.value; if limit.used * K > value: value *= M
     with K = M = 2 (code_raise_k, code_raise_m; the model's FRaise is stated for 2 / 2).
 (d) QuicConnection._handle_max_data_frame: if max_data > self._remote_max_data: self._remote_max_data = max_data

A shape that is not recognised raises: the harness deletes gen/C01Consts.v, proofs/NetSysFCP.v stops compiling and
the check reports a proof violation (after searching for a failing input with the oracle)."""
import ast
import os

OUTPUTS = ["gen/C01Consts.v"]

ROOT = os.path.dirname(os.path.dirname(os.path.dirname(os.path.abspath(__file__))))
REPO = os.environ.get("VERIF_REPO", "/repo")
REL = "src/aioquic/quic/connection.py"


def _method(tree, name):
    for node in ast.walk(tree):
        if isinstance(node, ast.ClassDef) and node.name == "QuicConnection":
            found = [n for n in node.body if isinstance(n, ast.FunctionDef) and n.name == name]
            if len(found) != 1:
                raise ValueError("QuicConnection.%s not found exactly once" % name)
            return found[0]
    raise ValueError("class QuicConnection not found")


def _dotted(node):
    """a.b.c -> 'a.b.c' (None when it is not a plain dotted name)"""
    parts = []
    while isinstance(node, ast.Attribute):
        parts.append(node.attr)
        node = node.value
    if isinstance(node, ast.Name):
        parts.append(node.id)
        return ".".join(reversed(parts))
    return None


def probe_base(tree):
    fn = _method(tree, "_write_application")
    calls = [n for n in ast.walk(fn) if isinstance(n, ast.Call) and _dotted(n.func) == "self._write_stream_frame"]
    if len(calls) != 1:
        raise ValueError("_write_application: expected exactly one call of self._write_stream_frame, found %d" % len(calls))
    kw = [k for k in calls[0].keywords if k.arg == "max_offset"]
    if len(kw) != 1:
        raise ValueError("_write_stream_frame call without a max_offset keyword")
    v = kw[0].value
    if not (isinstance(v, ast.Call) and _dotted(v.func) == "min" and len(v.args) == 2 and not v.keywords):
        raise ValueError("max_offset is not min(a, b): %s" % ast.unparse(v))
    credit, stream_limit = v.args
    if _dotted(stream_limit) != "stream.max_stream_data_remote":
        raise ValueError("second argument of min is not stream.max_stream_data_remote: %s" % ast.unparse(stream_limit))
    # (BASE + self._remote_max_data) - self._remote_max_data_used
    ok = (isinstance(credit, ast.BinOp) and isinstance(credit.op, ast.Sub)
          and _dotted(credit.right) == "self._remote_max_data_used"
          and isinstance(credit.left, ast.BinOp) and isinstance(credit.left.op, ast.Add)
          and _dotted(credit.left.right) == "self._remote_max_data")
    if not ok:
        raise ValueError("connection credit expression not recognised: %s" % ast.unparse(credit))
    base = _dotted(credit.left.left)
    if base == "stream.sender.highest_offset":
        coq = "BaseHighest"
    elif base == "stream.sender.next_offset":
        coq = "BaseNext"
    else:
        raise ValueError("base of the send limit is neither highest_offset nor next_offset: %s" % base)
    # the result is what is charged: `used = self._write_stream_frame(...)` and `self._remote_max_data_used += used`
    charged = False
    for n in ast.walk(fn):
        if (isinstance(n, ast.AugAssign) and isinstance(n.op, ast.Add) and _dotted(n.target) == "self._remote_max_data_used"
                and isinstance(n.value, ast.Name) and n.value.id == "used"):
            charged = True
    assigned = any(isinstance(n, ast.Assign) and n.value is calls[0] and len(n.targets) == 1
                   and isinstance(n.targets[0], ast.Name) and n.targets[0].id == "used" for n in ast.walk(fn))
    if not (charged and assigned):
        raise ValueError("_write_application no longer charges the result of _write_stream_frame to _remote_max_data_used")
    return coq, base


def probe_charge(tree):
    fn = _method(tree, "_write_stream_frame")
    prev = [n for n in ast.walk(fn) if isinstance(n, ast.Assign) and len(n.targets) == 1
            and isinstance(n.targets[0], ast.Name) and n.targets[0].id == "previous_send_highest"]
    if len(prev) != 1 or _dotted(prev[0].value) != "stream.sender.highest_offset":
        raise ValueError("_write_stream_frame: previous_send_highest = stream.sender.highest_offset not found")
    rets = [n.value for n in ast.walk(fn) if isinstance(n, ast.Return) and n.value is not None]
    want = [r for r in rets if isinstance(r, ast.BinOp) and isinstance(r.op, ast.Sub)
            and _dotted(r.left) == "stream.sender.highest_offset" and isinstance(r.right, ast.Name)
            and r.right.id == "previous_send_highest"]
    zero = [r for r in rets if isinstance(r, ast.Constant) and r.value == 0]
    if len(want) != 1 or len(want) + len(zero) != len(rets):
        raise ValueError("_write_stream_frame: return values are not {highest_offset - previous_send_highest, 0}")


def probe_raise(tree):
    fn = _method(tree, "_write_connection_limits")
    found = []
    for n in ast.walk(fn):
        if isinstance(n, ast.If) and isinstance(n.test, ast.Compare) and len(n.test.ops) == 1 and isinstance(n.test.ops[0], ast.Gt):
            left, right = n.test.left, n.test.comparators[0]
            if (isinstance(left, ast.BinOp) and isinstance(left.op, ast.Mult) and _dotted(left.left) == "limit.used"
                    and isinstance(left.right, ast.Constant) and type(left.right.value) is int
                    and isinstance(right, ast.Name) and right.id == "value"
                    and len(n.body) == 1 and not n.orelse and isinstance(n.body[0], ast.AugAssign)
                    and isinstance(n.body[0].op, ast.Mult) and isinstance(n.body[0].target, ast.Name)
                    and n.body[0].target.id == "value" and isinstance(n.body[0].value, ast.Constant)
                    and type(n.body[0].value.value) is int):
                found.append((left.right.value, n.body[0].value.value))
    if len(found) != 1:
        raise ValueError("_write_connection_limits: `if limit.used * K > value: value *= M` not found exactly once")
    init = [n for n in ast.walk(fn) if isinstance(n, ast.Assign) and len(n.targets) == 1 and isinstance(n.targets[0], ast.Name)
            and n.targets[0].id == "value" and _dotted(n.value) == "limit.value"]
    if len(init) != 1:
        raise ValueError("_write_connection_limits: `value = limit.value` not found")
    return found[0]


def probe_max_data(tree):
    fn = _method(tree, "_handle_max_data_frame")
    ok = False
    for n in ast.walk(fn):
        if (isinstance(n, ast.If) and isinstance(n.test, ast.Compare) and len(n.test.ops) == 1 and isinstance(n.test.ops[0], ast.Gt)
                and isinstance(n.test.left, ast.Name) and n.test.left.id == "max_data"
                and _dotted(n.test.comparators[0]) == "self._remote_max_data" and not n.orelse):
            sets = [b for b in n.body if isinstance(b, ast.Assign) and len(b.targets) == 1
                    and _dotted(b.targets[0]) == "self._remote_max_data" and isinstance(b.value, ast.Name) and b.value.id == "max_data"]
            ok = ok or len(sets) == 1
    if not ok:
        raise ValueError("_handle_max_data_frame: `if max_data > self._remote_max_data: self._remote_max_data = max_data` not found")


def read():
    tree = ast.parse(open(os.path.join(REPO, REL)).read())
    coq, base = probe_base(tree)
    probe_charge(tree)
    k, m = probe_raise(tree)
    probe_max_data(tree)
    return coq, base, k, m


def generate():
    coq, base, k, m = read()
    text = "\n".join([
        "(* GENERATED by tools/gen/c01_consts.py from the current source tree -- do not edit *)",
        "From Coq Require Import ZArith.",
        "From AQ Require Import model.NetSysFC.",
        "Open Scope Z_scope.",
        "",
        "(* %s QuicConnection._write_application: max_offset = min(%s + _remote_max_data - _remote_max_data_used, ...) *)" % (REL, base),
        "Definition code_fc_base : fcbase := %s." % coq,
        "(* _write_connection_limits: if limit.used * %d > value: value *= %d *)" % (k, m),
        "Definition code_raise_k : Z := %d." % k,
        "Definition code_raise_m : Z := %d." % m,
        ""])
    path = os.path.join(ROOT, "coq", "gen", "C01Consts.v")
    os.makedirs(os.path.dirname(path), exist_ok=True)
    try:
        if open(path).read() == text:
            return
    except FileNotFoundError:
        pass
    tmp = path + ".tmp%d" % os.getpid()
    with open(tmp, "w") as f:
        f.write(text)
    os.replace(tmp, path)


if __name__ == "__main__":
    generate()
    print(open(os.path.join(ROOT, "coq", "gen", "C01Consts.v")).read())
