#include <stdint.h>
typedef struct evp_cipher_ctx_st EVP_CIPHER_CTX;
typedef struct evp_cipher_st EVP_CIPHER;
typedef struct engine_st ENGINE;
#define EVP_CTRL_CCM_SET_IVLEN 0x9
#define EVP_CTRL_CCM_GET_TAG 0x10
#define EVP_CTRL_CCM_SET_TAG 0x11
EVP_CIPHER_CTX *EVP_CIPHER_CTX_new(void);
void EVP_CIPHER_CTX_free(EVP_CIPHER_CTX *);
int EVP_CipherInit_ex(EVP_CIPHER_CTX *, const EVP_CIPHER *, ENGINE *, const unsigned char *, const unsigned char *, int);
int EVP_CIPHER_CTX_set_key_length(EVP_CIPHER_CTX *, int);
int EVP_CIPHER_CTX_ctrl(EVP_CIPHER_CTX *, int, int, void *);
int EVP_CipherUpdate(EVP_CIPHER_CTX *, unsigned char *, int *, const unsigned char *, int);
int EVP_CipherFinal_ex(EVP_CIPHER_CTX *, unsigned char *, int *);
const EVP_CIPHER *EVP_get_cipherbyname(const char *);
int EVP_add_cipher(const EVP_CIPHER *);
const EVP_CIPHER *EVP_aes_128_ecb(void);
const EVP_CIPHER *EVP_aes_128_gcm(void);
const EVP_CIPHER *EVP_aes_256_ecb(void);
const EVP_CIPHER *EVP_aes_256_gcm(void);
