void ERR_clear_error(void);
