/* Stub of <Python.h> for the C04 translator (tools/gen/c04_c2vc.py): only the names the two
   helper files use, so that `gcc -E -nostdinc` + pycparser can parse them.  Nothing here is
   compiled into a binary. */
typedef long Py_ssize_t;
typedef unsigned long size_t;
typedef struct _object { Py_ssize_t ob_refcnt; void *ob_type; } PyObject;
typedef struct _typeobject PyTypeObject;
typedef PyObject *(*PyCFunction)(PyObject *, PyObject *);
typedef PyObject *(*getter)(PyObject *, void *);
typedef void (*freefunc)(void *);
typedef struct { const char *ml_name; PyCFunction ml_meth; int ml_flags; const char *ml_doc; } PyMethodDef;
typedef struct { const char *name; getter get; void *set; const char *doc; void *closure; } PyGetSetDef;
typedef struct { int slot; void *pfunc; } PyType_Slot;
typedef struct { const char *name; int basicsize; int itemsize; unsigned int flags; PyType_Slot *slots; } PyType_Spec;
typedef struct { int m_base; } PyModuleDef_Base;
struct PyModuleDef { PyModuleDef_Base m_base; const char *m_name; const char *m_doc; Py_ssize_t m_size;
  PyMethodDef *m_methods; void *m_slots; void *m_traverse; void *m_clear; void *m_free; };
#define PyObject_HEAD PyObject ob_base;
#define PyModuleDef_HEAD_INIT { 0 }
#define PyMODINIT_FUNC PyObject *
#define NULL ((void*)0)
#define METH_VARARGS 1
#define Py_TPFLAGS_DEFAULT 0
#define Py_tp_dealloc 52
#define Py_tp_methods 64
#define Py_tp_doc 56
#define Py_tp_getset 73
#define Py_tp_init 60
#define Py_tp_free 74
#define Py_RETURN_NONE return Py_None
#define Py_RETURN_TRUE return Py_True
#define Py_RETURN_FALSE return Py_False
extern PyObject *Py_None, *Py_True, *Py_False, *PyExc_ValueError, *PyExc_SystemError;
int PyArg_ParseTuple(PyObject *, const char *, ...);
int PyArg_ParseTupleAndKeywords(PyObject *, PyObject *, const char *, char **, ...);
void PyErr_SetString(PyObject *, const char *);
PyObject *PyErr_Format(PyObject *, const char *, ...);
PyObject *PyErr_NewException(const char *, PyObject *, PyObject *);
PyObject *PyErr_NoMemory(void);
PyObject *PyBytes_FromStringAndSize(const char *, Py_ssize_t);
PyObject *PyLong_FromUnsignedLong(unsigned long);
PyObject *PyLong_FromUnsignedLongLong(unsigned long long);
PyObject *PyLong_FromSsize_t(Py_ssize_t);
PyObject *Py_BuildValue(const char *, ...);
PyObject *PyModule_Create(struct PyModuleDef *);
int PyModule_AddObject(PyObject *, const char *, PyObject *);
PyObject *PyType_FromSpec(PyType_Spec *);
void *PyType_GetSlot(PyTypeObject *, int);
PyTypeObject *Py_TYPE(void *);
void Py_INCREF(void *);
void Py_DECREF(void *);
void *malloc(size_t);
void free(void *);
void *memcpy(void *, const void *, size_t);
void *memset(void *, int, size_t);
int memcmp(const void *, const void *, size_t);
