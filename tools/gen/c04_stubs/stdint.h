typedef unsigned char uint8_t;
typedef unsigned short uint16_t;
typedef unsigned int uint32_t;
typedef unsigned long uint64_t;
