#!/usr/bin/env python3
"""C11 translator: tls.py -> coq/gen/TlsDispatch.v   (fail closed: raises on anything not understood)

From the CURRENT source of $VERIF_REPO/src/aioquic/tls.py (Python `ast`, nothing is imported or run):

1. enum values of State, HandshakeType, AlertDescription, Direction, Epoch and the description of
   every Alert subclass;
2. the `if self.state == State.X: if message_type == HandshakeType.Y: ...` chain of
   Context._handle_reassembled_message, *evaluated* by a tiny interpreter for every State member x
   every message-type byte 0..255 into a total table  State x byte -> handler | unexpected |
   fallthrough.  Only a closed set of statement/expression forms is accepted;
3. for every dispatched handler (plus _client_send_hello) a *skeleton*: the ordered tree of
   parse calls, raise sites, negotiate(...) raise sites, signature / certificate / Finished-MAC
   checks, watched attribute assignments, key installations and state transitions, with the `if`
   structure they sit under.  Calls to other Context methods that themselves contain such events
   are inlined (e.g. _server_expect_finished).
"""
import ast
import os
import sys

ROOT = os.path.dirname(os.path.dirname(os.path.dirname(os.path.abspath(__file__))))
REPO = os.environ.get("VERIF_REPO", "/repo")
OUT = os.path.join(ROOT, "coq", "gen", "TlsDispatch.v")

WATCHED_ATTRS = {"_session_resumed": 1, "_certificate_request": 2, "_peer_certificate": 3, "early_data_accepted": 4,
                 "_key_schedule_psk": 5, "_key_schedule_proxy": 6}
# recognised `if` conditions (source text after ast.unparse) -> constructor
KNOWN_CONDS = {
    "self._session_resumed": "C_resumed",
    "self._verify_mode != ssl.CERT_NONE": "C_verify_mode",
    "self._certificate_request is not None": "C_cert_request",
    "certificate.certificates": "C_certs_nonempty",
    "self._request_client_certificate": "C_request_client_cert",
    "pre_shared_key is None": "C_psk_none",
    "peer_hello.pre_shared_key is not None": "C_hello_psk",
    "peer_hello.early_data": "C_hello_early",
    "hello.early_data": "C_hello_early",
    "self.session_ticket and self.session_ticket.is_valid": "C_ticket_valid",
}
PULLS = ["pull_server_hello", "pull_encrypted_extensions", "pull_certificate_request", "pull_certificate",
         "pull_certificate_verify", "pull_finished", "pull_new_session_ticket", "pull_client_hello"]


class Untranslatable(Exception):
    pass


def fail(node, why):
    raise Untranslatable("tls.py line %s: %s" % (getattr(node, "lineno", "?"), why))


# --------------------------------------------------------------------------- enums
def enum_members(cls):
    out = []
    for st in cls.body:
        if isinstance(st, ast.Assign) and len(st.targets) == 1 and isinstance(st.targets[0], ast.Name):
            v = st.value
            if isinstance(v, ast.Constant) and isinstance(v.value, int) and not isinstance(v.value, bool):
                out.append((st.targets[0].id, v.value))
            else:
                fail(st, "enum member of %s is not an integer literal" % cls.name)
        elif isinstance(st, ast.Expr) and isinstance(st.value, ast.Constant):
            continue  # docstring
        elif isinstance(st, ast.Pass):
            continue
        else:
            fail(st, "unexpected statement in enum %s" % cls.name)
    if not out:
        fail(cls, "enum %s has no members" % cls.name)
    vals = [v for _, v in out]
    if len(set(vals)) != len(vals):
        fail(cls, "enum %s has aliased values" % cls.name)
    return out


def is_self_attr(node, name=None):
    return (isinstance(node, ast.Attribute) and isinstance(node.value, ast.Name) and node.value.id == "self"
            and (name is None or node.attr == name))


def enum_ref(node, enum):
    """State.X / HandshakeType.Y -> member name, else None"""
    if isinstance(node, ast.Attribute) and isinstance(node.value, ast.Name) and node.value.id == enum:
        return node.attr
    return None


# --------------------------------------------------------------------------- dispatch chain
class Dispatch:
    def __init__(self, states, htypes, handlers):
        self.states = dict(states)
        self.htypes = dict(htypes)
        self.handlers = handlers

    def value(self, node, env):
        """evaluate an expression of the closed language to ('state', v) / ('type', v) / tuple of those"""
        if is_self_attr(node, "state"):
            return ("state", env["state"])
        if isinstance(node, ast.Name) and node.id == "message_type":
            return ("type", env["type"])
        n = enum_ref(node, "State")
        if n is not None:
            if n not in self.states:
                fail(node, "unknown State." + n)
            return ("state", self.states[n])
        n = enum_ref(node, "HandshakeType")
        if n is not None:
            if n not in self.htypes:
                fail(node, "unknown HandshakeType." + n)
            return ("type", self.htypes[n])
        if isinstance(node, ast.Constant) and isinstance(node.value, int) and not isinstance(node.value, bool):
            return ("type", node.value)  # a bare int can only be compared with message_type
        if isinstance(node, (ast.Tuple, ast.List, ast.Set)):
            return ("coll", [self.value(e, env) for e in node.elts])
        fail(node, "dispatch chain: expression not understood: " + ast.unparse(node))

    def test(self, node, env):
        if isinstance(node, ast.BoolOp):
            vals = [self.test(v, env) for v in node.values]
            return all(vals) if isinstance(node.op, ast.And) else any(vals)
        if isinstance(node, ast.UnaryOp) and isinstance(node.op, ast.Not):
            return not self.test(node.operand, env)
        if isinstance(node, ast.Compare) and len(node.ops) == 1:
            a = self.value(node.left, env)
            b = self.value(node.comparators[0], env)
            op = node.ops[0]
            if isinstance(op, (ast.Eq, ast.NotEq, ast.Is, ast.IsNot)):
                if a[0] != b[0] or a[0] == "coll":
                    fail(node, "dispatch chain: comparison of different kinds")
                r = a[1] == b[1]
                return r if isinstance(op, (ast.Eq, ast.Is)) else not r
            if isinstance(op, (ast.In, ast.NotIn)):
                if b[0] != "coll" or any(x[0] != a[0] for x in b[1]):
                    fail(node, "dispatch chain: membership test not understood")
                r = any(x[1] == a[1] for x in b[1])
                return r if isinstance(op, ast.In) else not r
        fail(node, "dispatch chain: condition not understood: " + ast.unparse(node))

    def run(self, stmts, env):
        """-> ('handler', name) | ('unexpected',) | ('fall',)"""
        for st in stmts:
            if isinstance(st, ast.If):
                r = self.run(st.body if self.test(st.test, env) else st.orelse, env)
                if r[0] != "fall":
                    return r
            elif isinstance(st, ast.Raise):
                exc = st.exc
                if isinstance(exc, ast.Call):
                    exc = exc.func
                if isinstance(exc, ast.Name) and exc.id == "AlertUnexpectedMessage" and st.cause is None:
                    return ("unexpected",)
                fail(st, "dispatch chain raises something other than AlertUnexpectedMessage")
            elif isinstance(st, ast.Expr) and isinstance(st.value, ast.Call) and is_self_attr(st.value.func):
                name = st.value.func.attr
                if name not in self.handlers:
                    fail(st, "dispatch chain calls self.%s which is not a handler method" % name)
                return ("handler", name)
            elif isinstance(st, ast.Pass):
                continue
            elif isinstance(st, ast.Assert):
                # the trailing `assert input_buf.eof()`: reached only when nothing above matched
                if ast.unparse(st.test) != "input_buf.eof()":
                    fail(st, "dispatch chain: unknown assert")
                continue
            elif isinstance(st, ast.Expr) and isinstance(st.value, ast.Constant):
                continue
            else:
                fail(st, "dispatch chain: statement not understood: " + ast.unparse(st)[:60])
        return ("fall",)


def check_single_action(stmts):
    """every branch body must be exactly one action (call or raise) or nested ifs - a handler call
    followed by more statements would not be a table."""
    for st in stmts:
        if isinstance(st, ast.If):
            for body in (st.body, st.orelse):
                acts = [s for s in body if not isinstance(s, (ast.If, ast.Pass))]
                ifs = [s for s in body if isinstance(s, ast.If)]
                if len(acts) > 1 or (acts and ifs):
                    fail(st, "dispatch chain: a branch does more than one thing")
                check_single_action(body)


# --------------------------------------------------------------------------- skeletons
class Skel:
    def __init__(self, methods, states, alerts, dirs, epochs):
        self.methods = methods
        self.states = dict(states)
        self.alerts = alerts      # exception class name -> description value
        self.dirs = dict(dirs)
        self.epochs = dict(epochs)
        self.stack = []
        self.other = 0

    def has_events(self, name, seen=()):
        if name in seen or name not in self.methods:
            return False
        saved = self.other
        try:
            ev = self.block(self.methods[name].body, tuple(seen) + (name,))
        finally:
            self.other = saved
        return bool(ev)

    def method(self, name):
        self.other = 0
        return self.block(self.methods[name].body, (name,))

    def alert_of(self, node):
        exc = node.func if isinstance(node, ast.Call) else node
        if isinstance(exc, ast.Name) and exc.id in self.alerts:
            return self.alerts[exc.id]
        return None

    def calls(self, node, seen):
        """events of the recognised calls inside an expression / simple statement, in source order"""
        ev = []
        for sub in sorted((n for n in ast.walk(node) if isinstance(n, ast.Call)),
                          key=lambda n: (n.lineno, n.col_offset)):
            f = sub.func
            if is_self_attr(f, "_set_state"):
                if len(sub.args) != 1 or enum_ref(sub.args[0], "State") not in self.states:
                    fail(sub, "_set_state argument is not a State member")
                ev.append("SkSet %s" % enum_ref(sub.args[0], "State"))
            elif is_self_attr(f, "_setup_traffic_protection") or is_self_attr(f, "update_traffic_key_cb"):
                if len(sub.args) < 2:
                    fail(sub, "key installation without positional direction/epoch")
                d, e = enum_ref(sub.args[0], "Direction"), enum_ref(sub.args[1], "Epoch")
                if d not in self.dirs or e not in self.epochs:
                    fail(sub, "key installation with non-literal direction/epoch: " + ast.unparse(sub)[:80])
                ev.append("SkKey DIR_%s EP_%s" % (d, e))
            elif is_self_attr(f, "_check_certificate_verify_signature"):
                ev.append("SkCheckSig")
            elif isinstance(f, ast.Name) and f.id == "verify_certificate":
                ev.append("SkCheckCert")
            elif isinstance(f, ast.Name) and f.id in PULLS:
                ev.append("SkPull %d" % PULLS.index(f.id))
            elif isinstance(f, ast.Name) and f.id == "negotiate":
                exc = sub.args[2] if len(sub.args) >= 3 else next((k.value for k in sub.keywords if k.arg == "exc"), None)
                if exc is not None:
                    a = self.alert_of(exc)
                    if a is None:
                        fail(sub, "negotiate() with an exception that is not a known Alert class")
                    ev.append("SkNegotiate %d" % a)
            elif is_self_attr(f) and f.attr in self.methods and f.attr not in seen:
                if self.has_events(f.attr, seen):
                    ev += self.block(self.methods[f.attr].body, tuple(seen) + (f.attr,))
        return ev

    def cond(self, test):
        txt = ast.unparse(test)
        if txt in KNOWN_CONDS:
            return KNOWN_CONDS[txt]
        if isinstance(test, ast.Compare) and "verify_data" in txt and isinstance(test.ops[0], ast.NotEq):
            return "C_mac_mismatch"
        self.other += 1
        return "(C_other %d)" % self.other

    def block(self, stmts, seen):
        ev = []
        for st in stmts:
            if isinstance(st, ast.If):
                pre = self.calls(st.test, seen)
                a = self.block(st.body, seen)
                b = self.block(st.orelse, seen)
                ev += pre
                if a or b:
                    c = self.cond(st.test)
                    ev.append("SkIf %s [%s] [%s]" % (c, "; ".join(a), "; ".join(b)))
            elif isinstance(st, (ast.With,)):
                for it in st.items:
                    ev += self.calls(it.context_expr, seen)
                ev += self.block(st.body, seen)
            elif isinstance(st, ast.For):
                inner = self.calls(st.iter, seen) + self.block(st.body, seen) + self.block(st.orelse, seen)
                if inner:
                    self.other += 1
                    ev.append("SkIf (C_other %d) [%s] []" % (self.other, "; ".join(inner)))
            elif isinstance(st, ast.Try):
                ev += self.block(st.body, seen)
                for h in st.handlers:
                    inner = self.block(h.body, seen)
                    if inner:
                        self.other += 1
                        ev.append("SkIf (C_other %d) [%s] []" % (self.other, "; ".join(inner)))
                ev += self.block(st.orelse, seen) + self.block(st.finalbody, seen)
            elif isinstance(st, ast.Raise):
                a = self.alert_of(st.exc) if st.exc is not None else None
                if a is None:
                    fail(st, "raise of something that is not a known Alert class")
                ev.append("SkRaise %d" % a)
            elif isinstance(st, ast.Return):
                ev += self.calls(st, seen) if st.value is not None else []
                if len(seen) == 1:      # a return of an inlined callee ends the callee, not the handler
                    ev.append("SkReturn")
            elif isinstance(st, ast.Assert):
                ev += self.calls(st, seen)
                ev.append("SkAssert")
            elif isinstance(st, (ast.Assign, ast.AnnAssign, ast.AugAssign)):
                if getattr(st, "value", None) is not None:
                    ev += self.calls(st.value, seen)
                targets = st.targets if isinstance(st, ast.Assign) else [st.target]
                for t in targets:
                    if is_self_attr(t, "state"):
                        n = enum_ref(st.value, "State")
                        if n not in self.states:
                            fail(st, "assignment to self.state that is not a State member")
                        ev.append("SkSet %s" % n)
                    elif is_self_attr(t) and t.attr in WATCHED_ATTRS:
                        v = st.value
                        if isinstance(v, ast.Constant) and v.value in (True, False, None):
                            code = {True: 1, False: 0, None: -1}[v.value]
                        else:
                            code = 2
                        ev.append("SkAssign %d (%d)" % (WATCHED_ATTRS[t.attr], code))
            elif isinstance(st, ast.Expr):
                ev += self.calls(st.value, seen)
            elif isinstance(st, ast.Pass):
                continue
            else:
                # anything else (while, match, nested def, lambda bodies, delete, global ...) is
                # accepted only if it contains none of the things we track
                txt = ast.dump(st)
                if any(k in txt for k in ("_set_state", "update_traffic_key_cb", "_setup_traffic_protection", "Raise(",
                                          "attr='state'", "_check_certificate_verify_signature", "verify_certificate")):
                    fail(st, "tracked call inside an unsupported statement: " + ast.unparse(st)[:60])
        return ev


# --------------------------------------------------------------------------- main
def analyse(path):
    tree = ast.parse(open(path).read())
    classes = {n.name: n for n in tree.body if isinstance(n, ast.ClassDef)}
    for need in ("State", "HandshakeType", "AlertDescription", "Direction", "Epoch", "Context", "Alert"):
        if need not in classes:
            raise Untranslatable("class %s not found in tls.py" % need)
    states = enum_members(classes["State"])
    htypes = enum_members(classes["HandshakeType"])
    descs = enum_members(classes["AlertDescription"])
    dirs = enum_members(classes["Direction"])
    epochs = enum_members(classes["Epoch"])
    for n, v in htypes:
        if not 0 <= v < 256:
            raise Untranslatable("HandshakeType.%s does not fit one byte" % n)
    ddict = dict(descs)
    alerts = {}
    for c in classes.values():
        if any(isinstance(b, ast.Name) and b.id == "Alert" for b in c.bases):
            d = None
            for st in c.body:
                if (isinstance(st, ast.Assign) and isinstance(st.targets[0], ast.Name) and st.targets[0].id == "description"):
                    d = enum_ref(st.value, "AlertDescription")
            if d not in ddict:
                raise Untranslatable("Alert subclass %s has no AlertDescription" % c.name)
            alerts[c.name] = ddict[d]
    if alerts.get("AlertUnexpectedMessage") is None:
        raise Untranslatable("AlertUnexpectedMessage missing")
    methods = {n.name: n for n in classes["Context"].body if isinstance(n, ast.FunctionDef)}
    if "_handle_reassembled_message" not in methods or "handle_message" not in methods:
        raise Untranslatable("Context._handle_reassembled_message / handle_message not found")
    handlers = [n for n in methods if n.startswith("_client_handle_") or n.startswith("_server_handle_")]
    chain = methods["_handle_reassembled_message"]
    argn = [a.arg for a in chain.args.args]
    if argn[:2] != ["self", "message_type"]:
        raise Untranslatable("_handle_reassembled_message signature changed: %s" % argn)
    check_single_action(chain.body)
    disp = Dispatch(states, htypes, handlers)
    table = {}
    for sn, sv in states:
        row = []
        for t in range(256):
            row.append(disp.run(chain.body, {"state": sv, "type": t}))
        table[sn] = row
    # handle_message: the CLIENT_HANDSHAKE_START shortcut must be the first statement
    hm = methods["handle_message"]
    first = [s for s in hm.body if not (isinstance(s, ast.Expr) and isinstance(s.value, ast.Constant))][0]
    ok = (isinstance(first, ast.If) and ast.unparse(first.test) == "self.state == State.CLIENT_HANDSHAKE_START"
          and len(first.body) == 2 and isinstance(first.body[1], ast.Return) and not first.orelse
          and isinstance(first.body[0], ast.Expr) and isinstance(first.body[0].value, ast.Call)
          and is_self_attr(first.body[0].value.func, "_client_send_hello"))
    if not ok:
        raise Untranslatable("handle_message no longer starts with the CLIENT_HANDSHAKE_START -> _client_send_hello shortcut")
    # the byte read and the BufferReadError -> AlertDecodeError conversion
    src = ast.unparse(hm)
    for needle in ("message_type = self._receive_buffer[0]", "except BufferReadError", "raise AlertDecodeError"):
        if needle not in src:
            raise Untranslatable("handle_message: expected `%s`" % needle)
    sk = Skel(methods, states, alerts, dirs, epochs)
    used = sorted({r[1] for row in table.values() for r in row if r[0] == "handler"}, key=handlers.index)
    skels = {}
    for h in handlers + ["_client_send_hello"]:
        if h not in methods:
            raise Untranslatable("method %s missing" % h)
        skels[h] = sk.method(h)
    return dict(states=states, htypes=htypes, descs=descs, dirs=dirs, epochs=epochs, alerts=alerts,
                handlers=handlers, used=used, table=table, skels=skels)


def hname(n):
    return "H" + n


def render(a):
    o = []
    w = o.append
    w("(* GENERATED by tools/gen/c11_dispatch.py from src/aioquic/tls.py -- do not edit *)")
    w("From AQ Require Import lib.Base.")
    w("")
    w("(* enum State *)")
    w("Inductive State : Set := " + " | ".join(n for n, _ in a["states"]) + ".")
    w("Definition all_states : list State := [" + "; ".join(n for n, _ in a["states"]) + "].")
    w("Definition state_val (s : State) : Z := match s with " + " ".join("| %s => %d" % nv for nv in a["states"]) + " end.")
    w("Definition state_of_val (z : Z) : State := " +
      " ".join("if z =? %d then %s else" % (v, n) for n, v in a["states"][1:]) + " %s." % a["states"][0][0])
    w("Definition state_eqb (a b : State) : bool := state_val a =? state_val b.")
    w("")
    w("(* enum HandshakeType *)")
    for n, v in a["htypes"]:
        w("Definition HT_%s : Z := %d." % (n, v))
    w("Definition handshake_types : list Z := [" + "; ".join("HT_" + n for n, _ in a["htypes"]) + "].")
    w("")
    w("(* enum AlertDescription, Direction, Epoch *)")
    for n, v in a["descs"]:
        w("Definition AD_%s : Z := %d." % (n, v))
    for n, v in a["dirs"]:
        w("Definition DIR_%s : Z := %d." % (n, v))
    for n, v in a["epochs"]:
        w("Definition EP_%s : Z := %d." % (n, v))
    w("")
    w("(* the _client_handle_* / _server_handle_* methods of Context (+ _client_send_hello) *)")
    hs = a["handlers"] + ["_client_send_hello"]
    w("Inductive handler : Set := " + " | ".join(hname(h) for h in hs) + ".")
    w("Definition all_handlers : list handler := [" + "; ".join(hname(h) for h in hs) + "].")
    w("Inductive disp : Set := DHandler (h : handler) | DUnexpected | DFallthrough.")
    w("")
    w("(* Context._handle_reassembled_message evaluated for every state and every message-type byte:")
    w("   per state the default outcome and the list of exceptions to it *)")
    w("Definition dispatch_row (s : State) : disp * list (Z * disp) :=")
    w("  match s with")

    def rd(r):
        return {"handler": lambda: "DHandler " + hname(r[1]), "unexpected": lambda: "DUnexpected", "fall": lambda: "DFallthrough"}[r[0]]()

    for sn, _ in a["states"]:
        row = a["table"][sn]
        counts = {}
        for r in row:
            counts[r] = counts.get(r, 0) + 1
        default = max(counts, key=lambda r: (counts[r], r[0] != "handler"))
        exc = [(t, r) for t, r in enumerate(row) if r != default]
        w("  | %s => (%s, [%s])" % (sn, rd(default), "; ".join("(%d, %s)" % (t, rd(r)) for t, r in exc)))
    w("  end.")
    w("Fixpoint lookup_disp (t : Z) (l : list (Z * disp)) (d : disp) : disp :=")
    w("  match l with [] => d | (k, v) :: r => if t =? k then v else lookup_disp t r d end.")
    w("Definition dispatch (s : State) (t : Z) : disp := let '(d, l) := dispatch_row s in lookup_disp t l d.")
    w("")
    w("(* handler skeletons *)")
    w("Inductive cond : Set := C_resumed | C_verify_mode | C_cert_request | C_certs_nonempty | C_request_client_cert")
    w("  | C_psk_none | C_hello_psk | C_hello_early | C_ticket_valid | C_mac_mismatch | C_other (n : Z).")
    w("Inductive sk : Set :=")
    w("| SkPull (what : Z) | SkNegotiate (alert : Z) | SkCheckSig | SkCheckCert | SkKey (d e : Z) | SkSet (s : State)")
    w("| SkAssign (attr v : Z) | SkRaise (alert : Z) | SkAssert | SkReturn | SkIf (c : cond) (a b : list sk).")
    w("Definition skeleton (h : handler) : list sk :=")
    w("  match h with")
    for h in hs:
        w("  | %s =>\n      [%s]" % (hname(h), ";\n       ".join(a["skels"][h])))
    w("  end.")
    return "\n".join(o) + "\n"


def generate():
    path = os.path.join(REPO, "src", "aioquic", "tls.py")
    text = render(analyse(path))
    os.makedirs(os.path.dirname(OUT), exist_ok=True)
    try:
        if open(OUT).read() == text:
            return
    except FileNotFoundError:
        pass
    tmp = OUT + ".tmp%d" % os.getpid()
    with open(tmp, "w") as f:
        f.write(text)
    os.replace(tmp, OUT)


generate.__name__ = "c11_dispatch"

if __name__ == "__main__":
    try:
        generate()
    except Untranslatable as e:
        print("UNTRANSLATABLE:", e)
        sys.exit(1)
    print(open(OUT).read())
