"""C02 generator: the constants and the SHAPE of aioquic's packet-protection key derivation, read from the CURRENT
source tree, written to coq/gen/C02Keys.v.

What is read (Python ast, nothing is imported or executed):
  tls.py      hkdf_label, hkdf_expand_label, hkdf_extract, cipher_suite_hash, CIPHER_SUITES, CipherSuite
  crypto.py   INITIAL_SALT_VERSION_1/2, INITIAL_CIPHER_SUITE, derive_key_iv_hp, next_key_phase, apply_key_phase,
              CryptoPair.setup_initial
  packet.py   RETRY_AEAD_KEY/NONCE_VERSION_1/2, QuicProtocolVersion, get_retry_integrity_tag

Fail closed, in two ways:
  * every function is reduced to a SKELETON -- its ast with docstrings and annotations removed and every bytes / str / int
    literal replaced by a numbered hole -- and the skeleton must be EXACTLY the one pinned below (the one
    coq/model/KeyDerive.v was transcribed from).  Any change of control flow, of a callee, of an argument order, of which
    variable goes where, raises here; the generated file is then deleted and everything depending on it stops compiling
    (the check reports a proof violation and goes on to search for a concrete failing input with the differential);
  * the literals found in the holes are emitted as Gallina constants IN SOURCE ORDER under positional names.
    coq/model/KeyDerive.v uses these constants and nothing else for labels, salts, lengths and Retry keys, and
    coq/proofs/KeyDeriveProofs.v `constants_are_rfc_lemma` compares every one of them with the RFC 9001 / RFC 9369 value
    written out as a literal: a changed label, salt, length or key breaks that proof (reflexivity).
"""
import ast
import binascii
import hashlib
import os

OUTPUTS = ["gen/C02Keys.v"]

ROOT = os.path.dirname(os.path.dirname(os.path.dirname(os.path.abspath(__file__))))
REPO = os.environ.get("VERIF_REPO", "/repo")
OUT = os.path.join(ROOT, "coq", "gen", "C02Keys.v")

TLS = "src/aioquic/tls.py"
CRYPTO = "src/aioquic/quic/crypto.py"
PACKET = "src/aioquic/quic/packet.py"


class Unsupported(Exception):
    pass


# ------------------------------------------------------------------------------------------------ skeletons
class _Holes(ast.NodeTransformer):
    """bytes/str/int literals -> Name('_hole_') in traversal (= source) order; the literals are collected."""

    def __init__(self):
        self.consts = []

    def visit_Constant(self, node):
        if type(node.value) in (bytes, str, int):
            self.consts.append(node.value)
            return ast.copy_location(ast.Name(id="_hole_", ctx=ast.Load()), node)
        return node


def _strip(fn):
    """a copy of the FunctionDef without docstring, annotations, return annotation"""
    fn = ast.parse(ast.unparse(fn)).body[0]
    body = list(fn.body)
    if body and isinstance(body[0], ast.Expr) and isinstance(body[0].value, ast.Constant) and isinstance(body[0].value.value, str):
        body = body[1:]
    fn.body = body
    fn.returns = None
    for a in fn.args.args + fn.args.kwonlyargs + fn.args.posonlyargs:
        a.annotation = None
    if fn.decorator_list:
        raise Unsupported("%s is decorated" % fn.name)
    return fn


def skeleton(fn):
    h = _Holes()
    t = h.visit(_strip(fn))
    return ast.unparse(t), h.consts


def _find(tree, path, rel):
    """path = 'name' or 'Class.name' -> the unique FunctionDef"""
    scope = tree.body
    parts = path.split(".")
    for cls in parts[:-1]:
        cs = [n for n in scope if isinstance(n, ast.ClassDef) and n.name == cls]
        if len(cs) != 1:
            raise Unsupported("%s: class %s not found exactly once" % (rel, cls))
        scope = cs[0].body
    fs = [n for n in scope if isinstance(n, ast.FunctionDef) and n.name == parts[-1]]
    if len(fs) != 1:
        raise Unsupported("%s: def %s not found exactly once" % (rel, path))
    return fs[0]


# The skeletons KeyDerive.v was transcribed from (ast.unparse of the hole-punched function).
PINNED = {
    (TLS, "hkdf_label"):
        "def hkdf_label(label, hash_value, length):\n"
        "    full_label = _hole_ + label\n"
        "    return struct.pack(_hole_, length, len(full_label)) + full_label + struct.pack(_hole_, len(hash_value)) + hash_value",
    (TLS, "hkdf_expand_label"):
        "def hkdf_expand_label(algorithm, secret, label, hash_value, length):\n"
        "    return HKDFExpand(algorithm=algorithm, length=length, info=hkdf_label(label, hash_value, length)).derive(secret)",
    (TLS, "hkdf_extract"):
        "def hkdf_extract(algorithm, salt, key_material):\n"
        "    h = hmac.HMAC(salt, algorithm)\n"
        "    h.update(key_material)\n"
        "    return h.finalize()",
    (TLS, "cipher_suite_hash"):
        "def cipher_suite_hash(cipher_suite):\n"
        "    return CIPHER_SUITES[cipher_suite]()",
    (CRYPTO, "derive_key_iv_hp"):
        "def derive_key_iv_hp(*, cipher_suite, secret, version):\n"
        "    algorithm = cipher_suite_hash(cipher_suite)\n"
        "    if cipher_suite in [CipherSuite.AES_256_GCM_SHA384, CipherSuite.CHACHA20_POLY1305_SHA256]:\n"
        "        key_size = _hole_\n"
        "    else:\n"
        "        key_size = _hole_\n"
        "    if version == QuicProtocolVersion.VERSION_2:\n"
        "        return (hkdf_expand_label(algorithm, secret, _hole_, _hole_, key_size), "
        "hkdf_expand_label(algorithm, secret, _hole_, _hole_, _hole_), "
        "hkdf_expand_label(algorithm, secret, _hole_, _hole_, key_size))\n"
        "    else:\n"
        "        return (hkdf_expand_label(algorithm, secret, _hole_, _hole_, key_size), "
        "hkdf_expand_label(algorithm, secret, _hole_, _hole_, _hole_), "
        "hkdf_expand_label(algorithm, secret, _hole_, _hole_, key_size))",
    (CRYPTO, "next_key_phase"):
        "def next_key_phase(self):\n"
        "    algorithm = cipher_suite_hash(self.cipher_suite)\n"
        "    if self.version == QuicProtocolVersion.VERSION_2:\n"
        "        label = _hole_\n"
        "    else:\n"
        "        label = _hole_\n"
        "    crypto = CryptoContext(key_phase=int(not self.key_phase))\n"
        "    crypto.setup(cipher_suite=self.cipher_suite, secret=hkdf_expand_label(algorithm, self.secret, label, _hole_, "
        "algorithm.digest_size), version=self.version)\n"
        "    return crypto",
    (CRYPTO, "apply_key_phase"):
        "def apply_key_phase(self, crypto, trigger):\n"
        "    self.aead = crypto.aead\n"
        "    self.key_phase = crypto.key_phase\n"
        "    self.secret = crypto.secret\n"
        "    self._setup_cb(trigger)",
    (CRYPTO, "CryptoPair.setup_initial"):
        "def setup_initial(self, cid, is_client, version):\n"
        "    if is_client:\n"
        "        recv_label, send_label = (_hole_, _hole_)\n"
        "    else:\n"
        "        recv_label, send_label = (_hole_, _hole_)\n"
        "    if version == QuicProtocolVersion.VERSION_2:\n"
        "        initial_salt = INITIAL_SALT_VERSION_2\n"
        "    else:\n"
        "        initial_salt = INITIAL_SALT_VERSION_1\n"
        "    algorithm = cipher_suite_hash(INITIAL_CIPHER_SUITE)\n"
        "    initial_secret = hkdf_extract(algorithm, initial_salt, cid)\n"
        "    self.recv.setup(cipher_suite=INITIAL_CIPHER_SUITE, secret=hkdf_expand_label(algorithm, initial_secret, recv_label, "
        "_hole_, algorithm.digest_size), version=version)\n"
        "    self.send.setup(cipher_suite=INITIAL_CIPHER_SUITE, secret=hkdf_expand_label(algorithm, initial_secret, send_label, "
        "_hole_, algorithm.digest_size), version=version)",
    (PACKET, "get_retry_integrity_tag"):
        "def get_retry_integrity_tag(packet_without_tag, original_destination_cid, version):\n"
        "    buf = Buffer(capacity=_hole_ + len(original_destination_cid) + len(packet_without_tag))\n"
        "    buf.push_uint8(len(original_destination_cid))\n"
        "    buf.push_bytes(original_destination_cid)\n"
        "    buf.push_bytes(packet_without_tag)\n"
        "    assert buf.eof()\n"
        "    if version == QuicProtocolVersion.VERSION_2:\n"
        "        aead_key = RETRY_AEAD_KEY_VERSION_2\n"
        "        aead_nonce = RETRY_AEAD_NONCE_VERSION_2\n"
        "    else:\n"
        "        aead_key = RETRY_AEAD_KEY_VERSION_1\n"
        "        aead_nonce = RETRY_AEAD_NONCE_VERSION_1\n"
        "    aead = AESGCM(aead_key)\n"
        "    integrity_tag = aead.encrypt(aead_nonce, _hole_, buf.data)\n"
        "    assert len(integrity_tag) == RETRY_INTEGRITY_TAG_SIZE\n"
        "    return integrity_tag",
}

# positional names of the holes of each function (source order) and their kinds
HOLES = {
    (TLS, "hkdf_label"): [("HL_PREFIX", bytes), ("HL_PACK_HEAD", str), ("HL_PACK_CTXLEN", str)],
    (TLS, "hkdf_expand_label"): [],
    (TLS, "hkdf_extract"): [],
    (TLS, "cipher_suite_hash"): [],
    (CRYPTO, "derive_key_iv_hp"): [
        ("DK_KEY_SIZE_LISTED", int), ("DK_KEY_SIZE_OTHER", int),
        ("DK_V2_KEY_LABEL", bytes), ("DK_V2_KEY_CTX", bytes),
        ("DK_V2_IV_LABEL", bytes), ("DK_V2_IV_CTX", bytes), ("DK_V2_IV_LEN", int),
        ("DK_V2_HP_LABEL", bytes), ("DK_V2_HP_CTX", bytes),
        ("DK_V1_KEY_LABEL", bytes), ("DK_V1_KEY_CTX", bytes),
        ("DK_V1_IV_LABEL", bytes), ("DK_V1_IV_CTX", bytes), ("DK_V1_IV_LEN", int),
        ("DK_V1_HP_LABEL", bytes), ("DK_V1_HP_CTX", bytes)],
    (CRYPTO, "next_key_phase"): [("KU_V2_LABEL", bytes), ("KU_V1_LABEL", bytes), ("KU_CTX", bytes)],
    (CRYPTO, "apply_key_phase"): [],
    (CRYPTO, "CryptoPair.setup_initial"): [
        ("IN_CLIENT_RECV_LABEL", bytes), ("IN_CLIENT_SEND_LABEL", bytes),
        ("IN_SERVER_RECV_LABEL", bytes), ("IN_SERVER_SEND_LABEL", bytes),
        ("IN_RECV_CTX", bytes), ("IN_SEND_CTX", bytes)],
    (PACKET, "get_retry_integrity_tag"): [("RT_CAP_EXTRA", int), ("RT_PLAINTEXT", bytes)],
}

# struct.pack formats KeyDerive.v's hkdf_label transcribes: "!HB" = big-endian uint16 then uint8, "!B" = uint8
PACK_FORMATS = {"HL_PACK_HEAD": "!HB", "HL_PACK_CTXLEN": "!B"}

HASH_IDS = {"SHA256": (256, 32), "SHA384": (384, 48)}     # name -> (model id, digest_size)


def _module_assigns(tree, rel):
    d = {}
    for st in tree.body:
        if isinstance(st, ast.Assign) and len(st.targets) == 1 and isinstance(st.targets[0], ast.Name):
            d.setdefault(st.targets[0].id, []).append(st.value)
        elif isinstance(st, ast.AnnAssign) and isinstance(st.target, ast.Name) and st.value is not None:
            d.setdefault(st.target.id, []).append(st.value)
    return d


def _one(d, name, rel):
    v = d.get(name)
    if not v or len(v) != 1:
        raise Unsupported("%s: %s not assigned exactly once at module level" % (rel, name))
    return v[0]


def _unhex(node, rel, name):
    """binascii.unhexlify("<hex literal>") or a bytes literal"""
    if isinstance(node, ast.Constant) and type(node.value) is bytes:
        return node.value
    if (isinstance(node, ast.Call) and isinstance(node.func, ast.Attribute) and node.func.attr == "unhexlify"
            and isinstance(node.func.value, ast.Name) and node.func.value.id == "binascii"
            and len(node.args) == 1 and not node.keywords and isinstance(node.args[0], ast.Constant)
            and type(node.args[0].value) in (str, bytes)):
        return binascii.unhexlify(node.args[0].value)
    raise Unsupported("%s: %s is not binascii.unhexlify(<literal>)" % (rel, name))


def _enum(tree, cls, rel):
    cs = [n for n in tree.body if isinstance(n, ast.ClassDef) and n.name == cls]
    if len(cs) != 1:
        raise Unsupported("%s: class %s not found exactly once" % (rel, cls))
    out = {}
    for st in cs[0].body:
        if isinstance(st, ast.Assign) and len(st.targets) == 1 and isinstance(st.targets[0], ast.Name):
            if not (isinstance(st.value, ast.Constant) and type(st.value.value) is int):
                raise Unsupported("%s: %s.%s is not an integer literal" % (rel, cls, st.targets[0].id))
            if st.targets[0].id in out:
                raise Unsupported("%s: %s.%s assigned twice" % (rel, cls, st.targets[0].id))
            out[st.targets[0].id] = st.value.value
    return out


def _attr_of(node, base, rel, what):
    if isinstance(node, ast.Attribute) and isinstance(node.value, ast.Name) and node.value.id == base:
        return node.attr
    raise Unsupported("%s: %s is not %s.<name>" % (rel, what, base))


def read():
    trees = {rel: ast.parse(open(os.path.join(REPO, rel)).read()) for rel in (TLS, CRYPTO, PACKET)}
    consts = []     # (name, value) value: int | bytes
    for (rel, path), want in PINNED.items():
        skel, found = skeleton(_find(trees[rel], path, rel))
        if skel != want:
            raise Unsupported("%s: the shape of %s changed; coq/model/KeyDerive.v was transcribed from\n%s\nnow it is\n%s"
                              % (rel, path, want, skel))
        holes = HOLES[(rel, path)]
        if len(found) != len(holes):
            raise Unsupported("%s: %s has %d literals, expected %d" % (rel, path, len(found), len(holes)))
        for (name, kind), v in zip(holes, found):
            if type(v) is not kind:
                raise Unsupported("%s: %s: literal %s is %s, expected %s" % (rel, path, name, type(v).__name__, kind.__name__))
            if kind is str:
                if PACK_FORMATS[name] != v:
                    raise Unsupported("%s: %s: struct format %s is %r, the model transcribes %r" % (rel, path, name, v, PACK_FORMATS[name]))
                continue
            consts.append((name, v))
    # module-level constants
    ca = _module_assigns(trees[CRYPTO], CRYPTO)
    pa = _module_assigns(trees[PACKET], PACKET)
    ta = _module_assigns(trees[TLS], TLS)
    for n in ("INITIAL_SALT_VERSION_1", "INITIAL_SALT_VERSION_2"):
        consts.append((n, _unhex(_one(ca, n, CRYPTO), CRYPTO, n)))
    for n in ("RETRY_AEAD_KEY_VERSION_1", "RETRY_AEAD_KEY_VERSION_2", "RETRY_AEAD_NONCE_VERSION_1", "RETRY_AEAD_NONCE_VERSION_2"):
        consts.append((n, _unhex(_one(pa, n, PACKET), PACKET, n)))
    tag = _one(pa, "RETRY_INTEGRITY_TAG_SIZE", PACKET)
    if not (isinstance(tag, ast.Constant) and type(tag.value) is int):
        raise Unsupported("%s: RETRY_INTEGRITY_TAG_SIZE is not an integer literal" % PACKET)
    consts.append(("RETRY_INTEGRITY_TAG_SIZE", tag.value))
    suites = _enum(trees[TLS], "CipherSuite", TLS)
    versions = _enum(trees[PACKET], "QuicProtocolVersion", PACKET)
    for n in ("AES_128_GCM_SHA256", "AES_256_GCM_SHA384", "CHACHA20_POLY1305_SHA256"):
        if n not in suites:
            raise Unsupported("%s: CipherSuite.%s missing" % (TLS, n))
        consts.append(("CS_" + n, suites[n]))
    for n in ("VERSION_1", "VERSION_2"):
        if n not in versions:
            raise Unsupported("%s: QuicProtocolVersion.%s missing" % (PACKET, n))
        consts.append(("QUIC_" + n, versions[n]))
    ics = _attr_of(_one(ca, "INITIAL_CIPHER_SUITE", CRYPTO), "CipherSuite", CRYPTO, "INITIAL_CIPHER_SUITE")
    if ics not in suites:
        raise Unsupported("%s: INITIAL_CIPHER_SUITE = CipherSuite.%s unknown" % (CRYPTO, ics))
    consts.append(("INITIAL_CIPHER_SUITE", suites[ics]))
    # CIPHER_SUITES: suite -> hash
    cs = _one(ta, "CIPHER_SUITES", TLS)
    if not isinstance(cs, ast.Dict):
        raise Unsupported("%s: CIPHER_SUITES is not a dict display" % TLS)
    table = []
    for k, v in zip(cs.keys, cs.values):
        kn = _attr_of(k, "CipherSuite", TLS, "a key of CIPHER_SUITES")
        hn = _attr_of(v, "hashes", TLS, "a value of CIPHER_SUITES")
        if kn not in suites or hn not in HASH_IDS:
            raise Unsupported("%s: CIPHER_SUITES entry %s: %s not understood" % (TLS, kn, hn))
        table.append((suites[kn], HASH_IDS[hn]))
    if len(set(k for k, _ in table)) != len(table):
        raise Unsupported("%s: CIPHER_SUITES has a duplicate key" % TLS)
    return consts, table


def _zlist(b):
    return "[" + "; ".join("%d" % x for x in b) + "]"


def _comment(b):
    """never a quote, a star or a parenthesis inside a Coq comment"""
    if b and all(chr(x).isalnum() or x == 32 for x in b):
        return "ascii: " + b.decode()
    return "hex: " + (b.hex() or "empty")


def render(consts, table):
    lines = ["(* GENERATED by tools/gen/c02_keys.py from the current source tree (tls.py, quic/crypto.py, quic/packet.py) -- do not edit.",
             "   Literals of hkdf_label / derive_key_iv_hp / next_key_phase / CryptoPair.setup_initial / get_retry_integrity_tag in",
             "   source order, module constants, enum values.  The shapes of those functions were checked against the pinned ones. *)",
             "From Coq Require Import ZArith List.", "Import ListNotations.", "Open Scope Z_scope.", ""]
    for name, v in consts:
        if type(v) is int:
            lines.append("Definition %s : Z := %s." % (name, "%d" % v if v >= 0 else "(%d)" % v))
        else:
            lines.append("Definition %s : list Z := %s.   (* %s *)" % (name, _zlist(v), _comment(v)))
    lines.append("")
    lines.append("(* tls.CIPHER_SUITES in source order: cipher suite -> (hash id, digest_size); hash id 256 = SHA-256, 384 = SHA-384 *)")
    lines.append("Definition CIPHER_SUITE_HASHES : list (Z * (Z * Z)) := [%s]." %
                 "; ".join("(%d, (%d, %d))" % (k, h[0], h[1]) for k, h in table))
    return "\n".join(lines) + "\n"


def generate():
    text = render(*read())
    try:
        if open(OUT).read() == text:
            return
    except FileNotFoundError:
        pass
    os.makedirs(os.path.dirname(OUT), exist_ok=True)
    tmp = OUT + ".tmp%d" % os.getpid()
    with open(tmp, "w") as f:
        f.write(text)
    os.replace(tmp, OUT)


if __name__ == "__main__":
    import sys
    if "--shapes" in sys.argv:
        for (rel, path) in PINNED:
            t = ast.parse(open(os.path.join(REPO, rel)).read())
            s, c = skeleton(_find(t, path, rel))
            print("==", rel, path, hashlib.sha256(s.encode()).hexdigest()[:12])
            print(s)
            print(c)
    else:
        generate()
        print(open(OUT).read())
