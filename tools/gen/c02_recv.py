"""C02: the statements of QuicConnection.receive_datagram between header parsing and the end of the packet loop, read from
the source of the tree under check with `ast` (fail closed), for coq/model/PacketRecv.v.

Every statement of the `while not buf.eof()` body from `epoch = get_epoch(header.packet_type)` on is reduced to a normal
form -- qlog / logger statements dropped (`if self._quic_logger is not None: <only log_event / quic_logger_frames>`,
`self._logger.*(...)`), the two reserved-bit masks replaced by holes -- and must be, in this order, exactly one of the
pinned forms below (the forms PacketRecv.v was transcribed from).  Anything else -- a new statement, a changed guard, a
changed callee or argument, a different order of two statements, an extra `return` / `continue` -- raises GenError:
gen/C02Recv.v is deleted and everything that depends on it (PacketRecv.v, its proofs, props/C02.v) stops compiling.

The statements of the loop BEFORE that point (header parsing, routing, server initialisation) are C05's; here they are only
checked not to write any attribute of the modelled state and not to call _discard_epoch / close / decrypt_packet / ... .

Writes coq/gen/C02Recv.v:

  RECV_SKELETON : list Z          the event codes in source order (proofs/PacketRecvProofs.v packet_recv_as_modelled compares
                                  the list with the order the model executes them in)
       101 epoch = get_epoch(header.packet_type)                         (get_epoch itself pinned: GET_EPOCH_OK)
       102 crypto := _cryptos_initial[header.version] if INITIAL else _cryptos[epoch]
       103 space := _spaces[ONE_RTT] if ZERO_RTT else _spaces[epoch]
       104 encrypted_off / end_off / buf.seek(end_off)                    (three statements)
       105 try: plain_header, plain_payload, packet_number = crypto.decrypt_packet(data[start_off:end_off], encrypted_off,
               space.expected_packet_number)
           except KeyUnavailableError: `if self._is_client and epoch in (HANDSHAKE, ONE_RTT) and not self._crypto_retransmitted:
               self._loss.reschedule_data(now=now); self._crypto_retransmitted = True`; continue
           except CryptoError: continue                                   (nothing else)
       106 reserved_mask = <RESERVED_MASK_SHORT> if header.packet_type == ONE_RTT else <RESERVED_MASK_LONG>
       107 if plain_header[0] & reserved_mask: self.close(error_code=QuicErrorCode.PROTOCOL_VIOLATION, ...); return
       108 if packet_number > space.expected_packet_number: space.expected_packet_number = packet_number + 1
       109 if not self._is_client and epoch == HANDSHAKE: self._discard_epoch(INITIAL)
       110 if self._peer_cid.sequence_number is None: self._peer_cid.cid = header.source_cid; .sequence_number = 0
       111 if self._state == FIRSTFLIGHT: _remote_initial_source_connection_id = header.source_cid; _set_state(CONNECTED)
       112 spin bit: if ONE_RTT and packet_number > _spin_highest_pn: get_spin_bit(plain_header[0]); client inverts; highest
       113 context = QuicReceiveContext(...)
       114 try: is_ack_eliciting, is_probing = self._payload_received(...) except QuicConnectionError: self.close(exc...)
       115 if self._state in END_STATES or self._close_pending: return
       116 self._close_at = now + self._idle_timeout()
       180 migration (server, 1-RTT, other host CID)                       NOT modelled; checked not to write modelled state
       181 network path validated by a Handshake packet / path list / promotion (4 statements)   NOT modelled; same check
       117 if not space.discarded: largest_received_packet/_time; ack_queue.add; ack_at; the MAX_ACK_RANGES rule
  (C12's tools/gen/c12_recv_order.py pins the ORDER of the gate, decryption, reserved-bits close, expected raise, payload and
   the four tail statements as its own event list for RecvAck.v; this file adds the crypto/space selection, what each except
   clause does, the masks and the close code, _discard_epoch, the CID latch, the state change, the spin bit, the idle timer, and
   that nothing else stands in between.)
  RESERVED_MASK_SHORT, RESERVED_MASK_LONG, PROTOCOL_VIOLATION_CODE, SPIN_BIT, MAX_ACK_RANGES, ACK_DELAY_MS : Z
  GET_EPOCH_OK, DISCARD_EPOCH_OK, CLOSE_OK, SPIN_FN_OK : bool   get_epoch / _discard_epoch / close / get_spin_bit have the pinned body
  DISCARD_SPACE_CLEARS_ACK_AT : bool   recovery.py discard_space writes exactly one modelled attribute, `space.ack_at = None`, unconditionally
  DISCARD_SITES : list (Z * Z)    every call of _discard_epoch in connection.py as (function, epoch), in source order:
                                  function 1 datagrams_to_send (guard `sent_handshake and self._is_client`), 2 receive_datagram,
                                  3 _close_end (every epoch: epoch code 9), 4 _handle_crypto_frame (guard `not self._is_client`
                                  inside the handshake-completion branch), 5 _handle_handshake_done_frame (guard
                                  `not self._handshake_confirmed`); epoch 0 INITIAL, 2 HANDSHAKE
  KEY_UPDATE_SITES : list Z       functions of connection.py that call .update_key() or write a key_phase: [6] = request_key_update
                                  only (receive_datagram reaches the key phase through crypto.decrypt_packet alone)
"""
import ast
import copy
import os

VERIF = os.path.dirname(os.path.dirname(os.path.dirname(os.path.abspath(__file__))))
REPO = os.environ.get("VERIF_REPO", "/repo")
OUTPUTS = ["gen/C02Recv.v"]

LOGTEST = "self._quic_logger is not None"


class GenError(Exception):
    pass


def _u(n):
    return ast.unparse(n)


def _func(tree, cls, name):
    for n in ast.walk(tree):
        if isinstance(n, ast.ClassDef) and n.name == cls:
            for f in n.body:
                if isinstance(f, ast.FunctionDef) and f.name == name:
                    return f
    raise GenError("%s.%s not found" % (cls, name))


def _top_func(tree, name):
    for n in tree.body:
        if isinstance(n, ast.FunctionDef) and n.name == name:
            return n
    raise GenError("function %s not found" % name)


def _is_log(s):
    if isinstance(s, ast.Expr) and isinstance(s.value, ast.Call):
        t = _u(s.value.func)
        return t.startswith("self._logger.") or t == "self._quic_logger.log_event"
    if isinstance(s, ast.Expr) and isinstance(s.value, ast.Constant) and isinstance(s.value.value, str):
        return True                                              # docstring
    if isinstance(s, ast.AnnAssign) and _u(s.target) == "quic_logger_frames":
        return True
    if isinstance(s, ast.Assign) and len(s.targets) == 1 and _u(s.targets[0]) == "quic_logger_frames":
        return True
    if isinstance(s, ast.If) and _u(s.test) == LOGTEST and not s.orelse:
        return all(_is_log(x) for x in s.body)
    return False


def _strip(s):
    """the statement without its logging; None if it is only logging"""
    if _is_log(s):
        return None
    s = copy.deepcopy(s)
    for f in ("body", "orelse", "finalbody"):
        if isinstance(getattr(s, f, None), list):
            new = [x for x in (_strip(y) for y in getattr(s, f)) if x is not None]
            if f == "body" and not new:
                new = [ast.Pass()]
            setattr(s, f, new)
    if isinstance(s, ast.Try):
        for h in s.handlers:
            h.body = [x for x in (_strip(y) for y in h.body) if x is not None] or [ast.Pass()]
    return s


def _norm(s):
    s = _strip(s)
    return None if s is None else _u(s)


PINNED = [
    (101, ["epoch = get_epoch(header.packet_type)"]),
    (102, ["if epoch == tls.Epoch.INITIAL:\n    crypto = self._cryptos_initial[header.version]\nelse:\n    crypto = self._cryptos[epoch]"]),
    (103, ["if epoch == tls.Epoch.ZERO_RTT:\n    space = self._spaces[tls.Epoch.ONE_RTT]\nelse:\n    space = self._spaces[epoch]"]),
    (104, ["encrypted_off = buf.tell() - start_off", "end_off = start_off + header.packet_length", "buf.seek(end_off)"]),
    (105, ["try:\n"
           "    plain_header, plain_payload, packet_number = crypto.decrypt_packet(data[start_off:end_off], encrypted_off, space.expected_packet_number)\n"
           "except KeyUnavailableError as exc:\n"
           "    if self._is_client and epoch in (tls.Epoch.HANDSHAKE, tls.Epoch.ONE_RTT) and (not self._crypto_retransmitted):\n"
           "        self._loss.reschedule_data(now=now)\n"
           "        self._crypto_retransmitted = True\n"
           "    continue\n"
           "except CryptoError as exc:\n"
           "    continue"]),
    (106, ["if header.packet_type == QuicPacketType.ONE_RTT:\n    reserved_mask = HOLE0\nelse:\n    reserved_mask = HOLE1"]),
    (107, ["if plain_header[0] & reserved_mask:\n"
           "    self.close(error_code=QuicErrorCode.PROTOCOL_VIOLATION, frame_type=QuicFrameType.PADDING, reason_phrase='Reserved bits must be zero')\n"
           "    return"]),
    (108, ["if packet_number > space.expected_packet_number:\n    space.expected_packet_number = packet_number + 1"]),
    (109, ["if not self._is_client and epoch == tls.Epoch.HANDSHAKE:\n    self._discard_epoch(tls.Epoch.INITIAL)"]),
    (110, ["if self._peer_cid.sequence_number is None:\n    self._peer_cid.cid = header.source_cid\n    self._peer_cid.sequence_number = 0"]),
    (111, ["if self._state == QuicConnectionState.FIRSTFLIGHT:\n"
           "    self._remote_initial_source_connection_id = header.source_cid\n"
           "    self._set_state(QuicConnectionState.CONNECTED)"]),
    (112, ["if header.packet_type == QuicPacketType.ONE_RTT and packet_number > self._spin_highest_pn:\n"
           "    spin_bit = get_spin_bit(plain_header[0])\n"
           "    if self._is_client:\n"
           "        self._spin_bit = not spin_bit\n"
           "    else:\n"
           "        self._spin_bit = spin_bit\n"
           "    self._spin_highest_pn = packet_number"]),
    (113, ["context = QuicReceiveContext(epoch=epoch, host_cid=header.destination_cid, network_path=network_path, "
           "quic_logger_frames=quic_logger_frames, time=now, version=header.version)"]),
    (114, ["try:\n"
           "    is_ack_eliciting, is_probing = self._payload_received(context, plain_payload, crypto_frame_required=crypto_frame_required)\n"
           "except QuicConnectionError as exc:\n"
           "    self.close(error_code=exc.error_code, frame_type=exc.frame_type, reason_phrase=exc.reason_phrase)"]),
    (115, ["if self._state in END_STATES or self._close_pending:\n    return"]),
    (116, ["self._close_at = now + self._idle_timeout()"]),
]

# statements after the idle timer that the model leaves out: recognised by their first line, and checked not to write
# any modelled state / not to leave the loop
UNMODELLED = [
    (180, ["if not self._is_client and context.host_cid != self.host_cid and (epoch == tls.Epoch.ONE_RTT):"]),
    (181, ["if not network_path.is_validated and epoch == tls.Epoch.HANDSHAKE:", "if network_path not in self._network_paths:",
           "idx = self._network_paths.index(network_path)",
           "if idx and (not is_probing) and (packet_number > space.largest_received_packet):"]),
]

TAIL = ("if not space.discarded:\n"
        "    if packet_number > space.largest_received_packet:\n"
        "        space.largest_received_packet = packet_number\n"
        "        space.largest_received_time = now\n"
        "    space.ack_queue.add(packet_number)\n"
        "    if is_ack_eliciting and space.ack_at is None:\n"
        "        space.ack_at = now + self._ack_delay\n"
        "    if space.ack_at is not None and len(space.ack_queue) >= MAX_ACK_RANGES:\n"
        "        space.ack_at = min(space.ack_at, now)")

MODELLED_ATTRS = ("expected_packet_number", "largest_received_packet", "largest_received_time", "ack_queue", "ack_at", "discarded",
                  "_close_at", "_crypto_retransmitted", "_peer_cid", "cid", "sequence_number", "_spin_bit", "_spin_highest_pn", "_state",
                  "_close_pending", "_close_event", "_remote_initial_source_connection_id", "_cryptos", "_cryptos_initial", "_spaces",
                  "key_phase", "aead", "hp", "secret")
MODELLED_CALLS = ("_discard_epoch", "close", "_set_state", "teardown", "update_key", "setup", "decrypt_packet", "_payload_received",
                  "reschedule_data", "_close_begin", "_close_end", "setattr")


def _writes_modelled(node, exits=True):
    for n in ast.walk(node):
        if isinstance(n, (ast.Assign, ast.AugAssign, ast.AnnAssign, ast.Delete)):
            targets = n.targets if isinstance(n, (ast.Assign, ast.Delete)) else [n.target]
            for t in targets:
                for x in ast.walk(t):
                    if isinstance(x, ast.Attribute) and x.attr in MODELLED_ATTRS:
                        return "writes %s" % _u(t)
        if isinstance(n, ast.Call):
            name = n.func.attr if isinstance(n.func, ast.Attribute) else n.func.id if isinstance(n.func, ast.Name) else ""
            if name in MODELLED_CALLS:
                return "calls %s" % name
            if isinstance(n.func, ast.Attribute) and isinstance(n.func.value, ast.Attribute) and n.func.value.attr in MODELLED_ATTRS:
                return "calls a method of %s" % _u(n.func.value)
        if exits and isinstance(n, (ast.Return, ast.Continue, ast.Break, ast.Raise)):
            return "leaves the loop (%s)" % type(n).__name__
    return None


def _exits_early(f):
    return any(isinstance(n, (ast.Return, ast.Raise)) for n in ast.walk(f))


def _mask_holes(stmt):
    """106: the two integer literals assigned to reserved_mask -> holes; returns (text, [values])"""
    s = _strip(stmt)
    vals = []
    if isinstance(s, ast.If):
        for branch in (s.body, s.orelse):
            for x in branch:
                if isinstance(x, ast.Assign) and _u(x.targets[0]) == "reserved_mask" and isinstance(x.value, ast.Constant) \
                        and type(x.value.value) is int:
                    vals.append(x.value.value)
                    x.value = ast.Name(id="HOLE%d" % (len(vals) - 1))
    return _u(s), vals


def _enum_value(tree, cls, member):
    for n in ast.walk(tree):
        if isinstance(n, ast.ClassDef) and n.name == cls:
            for s in n.body:
                if isinstance(s, ast.Assign) and _u(s.targets[0]) == member and isinstance(s.value, ast.Constant) and type(s.value.value) is int:
                    return s.value.value
    raise GenError("%s.%s is not an integer literal" % (cls, member))


def _const(tree, name, typ=int):
    for s in tree.body:
        if isinstance(s, ast.Assign) and len(s.targets) == 1 and _u(s.targets[0]) == name and isinstance(s.value, ast.Constant) \
                and type(s.value.value) is typ:
            return s.value.value
    raise GenError("module constant %s is not a %s literal" % (name, typ.__name__))


def _body_text(f):
    return "\n".join(x for x in (_norm(s) for s in f.body) if x is not None)


GET_EPOCH = ("if packet_type == QuicPacketType.INITIAL:\n    return tls.Epoch.INITIAL\nelif packet_type == QuicPacketType.ZERO_RTT:\n"
             "    return tls.Epoch.ZERO_RTT\nelif packet_type == QuicPacketType.HANDSHAKE:\n    return tls.Epoch.HANDSHAKE\nelse:\n"
             "    return tls.Epoch.ONE_RTT")
DISCARD_EPOCH = ("if not self._spaces[epoch].discarded:\n"
                 "    self._cryptos[epoch].teardown()\n"
                 "    if epoch == tls.Epoch.INITIAL:\n"
                 "        for crypto in self._cryptos_initial.values():\n"
                 "            crypto.recv._teardown_cb = NoCallback\n"
                 "            crypto.send._teardown_cb = NoCallback\n"
                 "            crypto.teardown()\n"
                 "    self._loss.discard_space(self._spaces[epoch])\n"
                 "    self._spaces[epoch].discarded = True")
CLOSE = ("if self._close_event is None and self._state not in END_STATES:\n"
         "    self._close_event = events.ConnectionTerminated(error_code=error_code, frame_type=frame_type, reason_phrase=reason_phrase)\n"
         "    self._close_pending = True")
SPIN_FN = "return bool(first_byte & PACKET_SPIN_BIT)"

SITE_FUNCS = {"datagrams_to_send": 1, "receive_datagram": 2, "_close_end": 3, "_handle_crypto_frame": 4, "_handle_handshake_done_frame": 5,
              "request_key_update": 6}
EPOCH_CODE = {"tls.Epoch.INITIAL": 0, "tls.Epoch.ZERO_RTT": 1, "tls.Epoch.HANDSHAKE": 2, "tls.Epoch.ONE_RTT": 3, "epoch": 9}


def _guards_of(func, target):
    """list of the `if` tests enclosing node `target` inside func (outermost first)"""
    path = []

    def walk(node, guards):
        if node is target:
            path.append(list(guards))
            return
        if isinstance(node, ast.If):
            for x in node.body:
                walk(x, guards + [_u(node.test)])
            for x in node.orelse:
                walk(x, guards + ["not (%s)" % _u(node.test)])
            walk(node.test, guards)
            return
        for ch in ast.iter_child_nodes(node):
            walk(ch, guards)
    walk(func, [])
    return path[0] if path else None


def read_all():
    csrc = open(os.path.join(REPO, "src", "aioquic", "quic", "connection.py")).read()
    psrc = open(os.path.join(REPO, "src", "aioquic", "quic", "packet.py")).read()
    rsrc = open(os.path.join(REPO, "src", "aioquic", "quic", "congestion", "base.py")).read()
    ctree, ptree, rtree = ast.parse(csrc), ast.parse(psrc), ast.parse(rsrc)
    rtree2 = ast.parse(open(os.path.join(REPO, "src", "aioquic", "quic", "recovery.py")).read())
    rd = _func(ctree, "QuicConnection", "receive_datagram")
    loops = [s for s in rd.body if isinstance(s, ast.While) and _u(s.test) == "not buf.eof()"]
    if len(loops) != 1 or loops[0].orelse:
        raise GenError("receive_datagram: expected exactly one `while not buf.eof()` loop")
    stmts = [s for s in loops[0].body if _norm(s) is not None]
    idx = [i for i, s in enumerate(stmts) if _norm(s) == PINNED[0][1][0]]
    if len(idx) != 1:
        raise GenError("`epoch = get_epoch(header.packet_type)` occurs %d times in the packet loop" % len(idx))
    # nothing before the marker (header parsing, routing decisions, server initialisation: C05's ConnDgram.v) may already write
    # what the model starts from, e.g. latch the peer CID before the packet has been authenticated (seeded/C02/seed2)
    for s in stmts[:idx[0]]:
        w = _writes_modelled(s, exits=False)
        if w:
            raise GenError("a statement before the crypto context is selected %s: %s" % (w, _norm(s)[:300]))
    rest = stmts[idx[0]:]
    skeleton, masks, pos = [], None, 0
    for code, forms in PINNED:
        for form in forms:
            if pos >= len(rest):
                raise GenError("receive_datagram ends before event %d" % code)
            if code == 106:
                text, masks = _mask_holes(rest[pos])
                if len(masks) != 2:
                    raise GenError("reserved mask selection changed: %s" % _norm(rest[pos])[:300])
            else:
                text = _norm(rest[pos])
            if text != form:
                raise GenError("receive_datagram: expected event %d\n%s\nbut the source has\n%s" % (code, form, text[:600]))
            pos += 1
        skeleton.append(code)
    for code, firsts in UNMODELLED:
        for first in firsts:
            if pos >= len(rest):
                raise GenError("receive_datagram ends before the unmodelled block %d" % code)
            text = _norm(rest[pos])
            if text.split("\n")[0] != first:
                raise GenError("receive_datagram: expected the (unmodelled) statement `%s` but the source has\n%s" % (first, text[:400]))
            w = _writes_modelled(rest[pos])
            if w:
                raise GenError("the unmodelled statement `%s` %s" % (first, w))
            pos += 1
        skeleton.append(code)
    if pos != len(rest) - 1 or _norm(rest[pos]) != TAIL:
        raise GenError("receive_datagram: the packet loop does not end with the pinned `if not space.discarded:` block:\n%s"
                       % "\n".join(_norm(s) for s in rest[pos:])[:800])
    skeleton.append(117)

    # constants
    consts = {
        "RESERVED_MASK_SHORT": masks[0], "RESERVED_MASK_LONG": masks[1],
        "PROTOCOL_VIOLATION_CODE": _enum_value(ptree, "QuicErrorCode", "PROTOCOL_VIOLATION"),
        "SPIN_BIT": _const(ptree, "PACKET_SPIN_BIT"),
        "MAX_ACK_RANGES": _const(ctree, "MAX_ACK_RANGES"),
    }
    gran = _const(rtree, "K_GRANULARITY", float)
    init = _func(ctree, "QuicConnection", "__init__")
    ad = [s for s in ast.walk(init) if isinstance(s, ast.Assign) and _u(s.targets[0]) == "self._ack_delay"]
    if len(ad) != 1 or _u(ad[0].value) != "K_GRANULARITY" or round(gran * 1000) * 1000 != round(gran * 1000000) or gran <= 0:
        raise GenError("self._ack_delay is no longer K_GRANULARITY (a whole number of milliseconds)")
    wr = [f.name for f in ast.walk(ctree) if isinstance(f, ast.FunctionDef) and f.name != "__init__"
          for s in ast.walk(f) if isinstance(s, (ast.Assign, ast.AugAssign))
          for t in (s.targets if isinstance(s, ast.Assign) else [s.target]) if _u(t) == "self._ack_delay"]
    if wr:
        raise GenError("self._ack_delay is written outside __init__: %s" % wr)
    consts["ACK_DELAY_MS"] = round(gran * 1000)

    ds = _func(rtree2, "QuicPacketRecovery", "discard_space")
    ds_ack = [_u(x) for x in ds.body if isinstance(x, ast.Assign) and any(isinstance(t, ast.Attribute) and t.attr in MODELLED_ATTRS for t in x.targets)]
    flags = {
        "DISCARD_SPACE_CLEARS_ACK_AT": ds_ack == ["space.ack_at = None"] and not _exits_early(ds),
        "GET_EPOCH_OK": _body_text(_top_func(ctree, "get_epoch")) == GET_EPOCH,
        "DISCARD_EPOCH_OK": _body_text(_func(ctree, "QuicConnection", "_discard_epoch")) == DISCARD_EPOCH,
        "CLOSE_OK": _body_text(_func(ctree, "QuicConnection", "close")) == CLOSE,
        "SPIN_FN_OK": _body_text(_top_func(ptree, "get_spin_bit")) == SPIN_FN,
    }

    # every _discard_epoch call site / key-update site of connection.py
    sites, ku = [], []
    cls = [n for n in ctree.body if isinstance(n, ast.ClassDef) and n.name == "QuicConnection"][0]
    for f in cls.body:
        if not isinstance(f, ast.FunctionDef):
            continue
        for n in ast.walk(f):
            if isinstance(n, ast.Call) and isinstance(n.func, ast.Attribute) and n.func.attr == "_discard_epoch":
                if f.name not in SITE_FUNCS or len(n.args) != 1 or _u(n.args[0]) not in EPOCH_CODE:
                    raise GenError("unknown _discard_epoch call site: %s in %s" % (_u(n), f.name))
                g = _guards_of(f, n)
                want = {"datagrams_to_send": "sent_handshake and self._is_client", "_handle_handshake_done_frame": "not self._handshake_confirmed",
                        "_handle_crypto_frame": "not self._is_client", "receive_datagram": "not self._is_client and epoch == tls.Epoch.HANDSHAKE"}.get(f.name)
                if want is not None and (not g or g[-1] != want):
                    raise GenError("_discard_epoch in %s sits under %r, expected innermost guard %r" % (f.name, g, want))
                sites.append((SITE_FUNCS[f.name], EPOCH_CODE[_u(n.args[0])]))
            if isinstance(n, ast.Call) and isinstance(n.func, ast.Attribute) and n.func.attr in ("update_key", "_update_key", "apply_key_phase", "next_key_phase"):
                ku.append(SITE_FUNCS.get(f.name, 99))
            if isinstance(n, (ast.Assign, ast.AugAssign)):
                for t in (n.targets if isinstance(n, ast.Assign) else [n.target]):
                    if isinstance(t, ast.Attribute) and t.attr in ("key_phase", "_update_key_requested"):
                        ku.append(SITE_FUNCS.get(f.name, 99))
    return skeleton, consts, flags, sites, ku


def generate():
    skeleton, consts, flags, sites, ku = read_all()
    lines = ["(* GENERATED by tools/gen/c02_recv.py from the tree under check -- do not edit *)",
             "From Coq Require Import ZArith List.", "Import ListNotations.", "Open Scope Z_scope.", "",
             "Definition RECV_SKELETON : list Z := [%s]." % "; ".join(str(x) for x in skeleton)]
    for k, v in consts.items():
        lines.append("Definition %s : Z := %d." % (k, v))
    for k, v in flags.items():
        lines.append("Definition %s : bool := %s." % (k, "true" if v else "false"))
    lines.append("Definition DISCARD_SITES : list (Z * Z) := [%s]." % "; ".join("(%d, %d)" % s for s in sites))
    lines.append("Definition KEY_UPDATE_SITES : list Z := [%s]." % "; ".join(str(x) for x in ku))
    text = "\n".join(lines) + "\n"
    path = os.path.join(VERIF, "coq", "gen", "C02Recv.v")
    os.makedirs(os.path.dirname(path), exist_ok=True)
    try:
        if open(path).read() == text:
            return
    except FileNotFoundError:
        pass
    with open(path, "w") as f:
        f.write(text)


if __name__ == "__main__":
    print(read_all())
    generate()
