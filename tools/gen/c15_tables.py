#!/usr/bin/env python3
"""C15 translator (fail closed): reads with `ast` from $VERIF_REPO/src/aioquic/h3/connection.py the
constant data and the per-character predicates the header validators use, and writes
coq/gen/C15Tables.v.  The hand-written model coq/model/H3Validate.v uses these definitions, so a
changed table/predicate changes the model (the correspondence stays in sync) and breaks a proof.

Translated:
  * module constants COLON NUL LF CR SP HTAB WHITESPACE, ErrorCode.H3_MESSAGE_ERROR, MessageError.error_code
  * validate_header_name: the per-character raise conditions, as gen_name_bad (i c : Z) : bool
  * validate_header_value: the per-character raise condition, the first/last membership tests with
    their length guards and indices
  * validate_headers: the byte-string literals it dispatches on, the exception classes caught around
    int(), the negativity test, the scheme tuple, and a shape check of the whole function
  * the four wrappers: allowed / required pseudo-header sets, whether `stream` is passed on

Anything that does not have exactly the expected shape raises GenError: the check then reports a
`proof` violation unless the driver finds a concrete failing input.
"""
import ast
import os

ROOT = os.path.dirname(os.path.dirname(os.path.dirname(os.path.abspath(__file__))))
REPO = os.environ.get("VERIF_REPO", "/repo")
SRC = os.path.join(REPO, "src", "aioquic", "h3", "connection.py")
OUT = os.path.join(ROOT, "coq", "gen", "C15Tables.v")

# exception class -> kind number used by the model (harness/props/c15.py uses the same table)
EXN_KINDS = {"ValueError": 1, "TypeError": 2, "OverflowError": 3, "UnicodeDecodeError": 4, "UnicodeError": 4,
             "AttributeError": 5, "IndexError": 6, "KeyError": 7, "AssertionError": 8}


class GenError(Exception):
    pass


def need(cond, msg):
    if not cond:
        raise GenError("c15_tables: " + msg)


def zlit(n):
    return "(%d)" % n if n < 0 else "%d" % n


def cm(x):
    """Text safe inside a Coq comment."""
    return "".join(ch if (ch.isalnum() or ch in " :,_-[]'./=") else "?" for ch in (x if isinstance(x, str) else repr(x)))


def blist(b):
    return "[" + "; ".join(str(x) for x in b) + "]"


class Tr:
    """Expression translator for the integer/boolean fragment used in the validators."""

    def __init__(self, consts, variables):
        self.consts, self.vars = consts, variables

    def z(self, e):
        if isinstance(e, ast.Constant) and isinstance(e.value, int) and not isinstance(e.value, bool):
            return zlit(e.value)
        if (isinstance(e, ast.UnaryOp) and isinstance(e.op, ast.USub) and isinstance(e.operand, ast.Constant)
                and isinstance(e.operand.value, int) and not isinstance(e.operand.value, bool)):
            return zlit(-e.operand.value)
        if isinstance(e, ast.Name):
            if e.id in self.vars:
                return self.vars[e.id]
            if e.id in self.consts and isinstance(self.consts[e.id], int):
                return zlit(self.consts[e.id])
        raise GenError("c15_tables: untranslatable integer expression " + ast.dump(e))

    def b(self, e):
        if isinstance(e, ast.BoolOp):
            op = " || " if isinstance(e.op, ast.Or) else " && "
            return "(" + op.join(self.b(v) for v in e.values) + ")"
        if isinstance(e, ast.UnaryOp) and isinstance(e.op, ast.Not):
            return "(negb %s)" % self.b(e.operand)
        if isinstance(e, ast.Compare):
            parts = []
            left = e.left
            for op, right in zip(e.ops, e.comparators):
                parts.append(self.cmp(left, op, right))
                left = right
            return "(" + " && ".join(parts) + ")"
        raise GenError("c15_tables: untranslatable boolean expression " + ast.dump(e))

    def cmp(self, a, op, b):
        if isinstance(op, (ast.In, ast.NotIn)):
            need(isinstance(b, ast.Name) and isinstance(self.consts.get(b.id), tuple), "membership in a non-constant")
            r = "(existsb (Z.eqb %s) %s)" % (self.z(a), blist(self.consts[b.id]))
            return r if isinstance(op, ast.In) else "(negb %s)" % r
        table = {ast.Eq: "=?", ast.Lt: "<?", ast.LtE: "<=?", ast.Gt: ">?", ast.GtE: ">=?"}
        if isinstance(op, ast.NotEq):
            return "(negb (%s =? %s))" % (self.z(a), self.z(b))
        for k, v in table.items():
            if isinstance(op, k):
                return "(%s %s %s)" % (self.z(a), v, self.z(b))
        raise GenError("c15_tables: comparison operator " + ast.dump(op))


def is_raise_message_error(stmt):
    return (isinstance(stmt, ast.Raise) and isinstance(stmt.exc, ast.Call)
            and isinstance(stmt.exc.func, ast.Name) and stmt.exc.func.id == "MessageError")


def body_no_doc(fn):
    b = fn.body
    if b and isinstance(b[0], ast.Expr) and isinstance(b[0].value, ast.Constant) and isinstance(b[0].value.value, str):
        b = b[1:]
    return b


def module_consts(tree):
    c = {}
    for st in tree.body:
        if isinstance(st, ast.Assign) and len(st.targets) == 1 and isinstance(st.targets[0], ast.Name):
            n, v = st.targets[0].id, st.value
            if isinstance(v, ast.Constant) and isinstance(v.value, int) and not isinstance(v.value, bool):
                c[n] = v.value
            elif isinstance(v, ast.Tuple) and all(isinstance(e, ast.Name) and isinstance(c.get(e.id), int) for e in v.elts):
                c[n] = tuple(c[e.id] for e in v.elts)
    return c


def enum_member(tree, cls, member):
    for st in tree.body:
        if isinstance(st, ast.ClassDef) and st.name == cls:
            for s in st.body:
                if (isinstance(s, ast.Assign) and isinstance(s.targets[0], ast.Name) and s.targets[0].id == member
                        and isinstance(s.value, ast.Constant) and isinstance(s.value.value, int)):
                    return s.value.value
    raise GenError("c15_tables: %s.%s not found" % (cls, member))


def class_error_code(tree, cls):
    for st in tree.body:
        if isinstance(st, ast.ClassDef) and st.name == cls:
            need([b.id for b in st.bases if isinstance(b, ast.Name)] == ["ProtocolError"], cls + " is not a direct ProtocolError subclass")
            for s in st.body:
                if (isinstance(s, ast.Assign) and isinstance(s.targets[0], ast.Name) and s.targets[0].id == "error_code"
                        and isinstance(s.value, ast.Attribute) and isinstance(s.value.value, ast.Name)
                        and s.value.value.id == "ErrorCode"):
                    return enum_member(tree, "ErrorCode", s.value.attr)
    raise GenError("c15_tables: %s.error_code not found" % cls)


def func(tree, name):
    for st in tree.body:
        if isinstance(st, ast.FunctionDef) and st.name == name:
            return st
    raise GenError("c15_tables: function %s not found" % name)


def gen_name(tree, consts):
    fn = func(tree, "validate_header_name")
    need([a.arg for a in fn.args.args] == ["key"], "validate_header_name signature")
    body = body_no_doc(fn)
    need(len(body) == 1 and isinstance(body[0], ast.For), "validate_header_name is not a single for loop")
    loop = body[0]
    need(not loop.orelse, "for/else in validate_header_name")
    it = loop.iter
    need(isinstance(it, ast.Call) and isinstance(it.func, ast.Name) and it.func.id == "enumerate" and len(it.args) == 1
         and isinstance(it.args[0], ast.Name) and it.args[0].id == "key" and not it.keywords, "loop is not enumerate(key)")
    tgt = loop.target
    need(isinstance(tgt, ast.Tuple) and len(tgt.elts) == 2 and all(isinstance(e, ast.Name) for e in tgt.elts), "loop target")
    tr = Tr(consts, {tgt.elts[0].id: "i", tgt.elts[1].id: "c"})
    conds = []
    for st in loop.body:
        need(isinstance(st, ast.If) and not st.orelse and len(st.body) == 1 and is_raise_message_error(st.body[0]),
             "validate_header_name loop body is not a list of `if cond: raise MessageError`")
        conds.append(tr.b(st.test))
    need(conds, "validate_header_name has no checks")
    return "Definition gen_name_bad (i c : Z) : bool :=\n  %s.\n" % "\n  || ".join(conds)


def gen_value(tree, consts):
    fn = func(tree, "validate_header_value")
    need([a.arg for a in fn.args.args] == ["key", "value"], "validate_header_value signature")
    body = body_no_doc(fn)
    need(len(body) == 2 and isinstance(body[0], ast.For) and isinstance(body[1], ast.If), "validate_header_value shape")
    loop, tail = body
    need(isinstance(loop.iter, ast.Name) and loop.iter.id == "value" and isinstance(loop.target, ast.Name) and not loop.orelse,
         "value loop")
    tr = Tr(consts, {loop.target.id: "c"})
    conds = []
    for st in loop.body:
        need(isinstance(st, ast.If) and not st.orelse and len(st.body) == 1 and is_raise_message_error(st.body[0]),
             "value loop body")
        conds.append(tr.b(st.test))
    out = "Definition gen_value_bad (c : Z) : bool :=\n  %s.\n" % "\n  || ".join(conds)

    def len_guard(test):
        need(isinstance(test, ast.Compare) and len(test.ops) == 1 and isinstance(test.ops[0], ast.Gt)
             and isinstance(test.left, ast.Call) and isinstance(test.left.func, ast.Name) and test.left.func.id == "len"
             and len(test.left.args) == 1 and isinstance(test.left.args[0], ast.Name) and test.left.args[0].id == "value"
             and isinstance(test.comparators[0], ast.Constant) and isinstance(test.comparators[0].value, int),
             "length guard is not `len(value) > n`")
        return test.comparators[0].value

    def index_assign(st):
        need(isinstance(st, ast.Assign) and len(st.targets) == 1 and isinstance(st.targets[0], ast.Name)
             and isinstance(st.value, ast.Subscript) and isinstance(st.value.value, ast.Name) and st.value.value.id == "value",
             "expected `x = value[k]`")
        sl = st.value.slice
        if isinstance(sl, ast.UnaryOp) and isinstance(sl.op, ast.USub) and isinstance(sl.operand, ast.Constant):
            k = -sl.operand.value
        else:
            need(isinstance(sl, ast.Constant) and isinstance(sl.value, int), "index is not an integer literal")
            k = sl.value
        return st.targets[0].id, k

    def member_raise(st, var):
        need(isinstance(st, ast.If) and not st.orelse and len(st.body) == 1 and is_raise_message_error(st.body[0])
             and isinstance(st.test, ast.Compare) and len(st.test.ops) == 1 and isinstance(st.test.ops[0], ast.In)
             and isinstance(st.test.left, ast.Name) and st.test.left.id == var
             and isinstance(st.test.comparators[0], ast.Name) and isinstance(consts.get(st.test.comparators[0].id), tuple),
             "expected `if x in WHITESPACE: raise MessageError`")
        return consts[st.test.comparators[0].id]

    need(not tail.orelse and len(tail.body) == 3, "value tail shape")
    g1 = len_guard(tail.test)
    v1, k1 = index_assign(tail.body[0])
    s1 = member_raise(tail.body[1], v1)
    inner = tail.body[2]
    need(isinstance(inner, ast.If) and not inner.orelse and len(inner.body) == 2, "value inner shape")
    g2 = len_guard(inner.test)
    v2, k2 = index_assign(inner.body[0])
    s2 = member_raise(inner.body[1], v2)
    need(g1 >= 0 and g2 >= g1 and 0 <= k1 <= g1 and -(g2 + 1) <= k2 < 0,
         "index/guard combination could raise IndexError or is not first/last")
    out += "Definition gen_first_guard : Z := %s.\nDefinition gen_first_index : Z := %s.\nDefinition gen_first_set : list Z := %s.\n" % (
        zlit(g1), zlit(k1), blist(s1))
    out += "Definition gen_last_guard : Z := %s.\nDefinition gen_last_index : Z := %s.\nDefinition gen_last_set : list Z := %s.\n" % (
        zlit(g2), zlit(k2), blist(s2))
    return out


def bytes_consts_in(node):
    return [n.value for n in ast.walk(node) if isinstance(n, ast.Constant) and isinstance(n.value, bytes)]


def gen_headers(tree, consts):
    fn = func(tree, "validate_headers")
    need([a.arg for a in fn.args.args] == ["headers", "allowed_pseudo_headers", "required_pseudo_headers", "stream"],
         "validate_headers signature")
    # shape fingerprint: statement kinds in order (messages/constants abstracted)
    shape = []

    def walk(stmts, d):
        for s in stmts:
            shape.append("%d%s" % (d, type(s).__name__))
            for fld in ("body", "orelse", "handlers", "finalbody"):
                sub = getattr(s, fld, None)
                if isinstance(sub, list) and sub and isinstance(sub[0], (ast.stmt, ast.ExceptHandler)):
                    if fld == "handlers":
                        for h in sub:
                            shape.append("%dexcept" % (d + 1))
                            walk(h.body, d + 2)
                    else:
                        shape.append("%d%s:" % (d + 1, fld))
                        walk(sub, d + 2)
    walk(body_no_doc(fn), 0)
    expected = ("0Assign 0AnnAssign 0AnnAssign 0AnnAssign 0AnnAssign 0AnnAssign 0For 1body: 2Expr 2Expr 2If 3body: 4If 5body: 6Raise 4If 5body: "
                "6Raise 4If 5body: 6Raise 4Expr 4If 5body: 6Assign 5orelse: 6If 7body: 8Assign 7orelse: 8If 9body: 10Assign 3orelse: "
                "4Assign 4If 5body: 6Try 7body: 8Assign 8If 9body: 10Raise 7except 8Raise 6If 7body: 8Raise 6Assign 6If 7body: 8Assign "
                "5orelse: 6If 7body: 8Raise 0Assign 0If 1body: 2Raise 0If 1body: 2If 3body: 4Raise 2If 3body: 4Raise")
    need(" ".join(shape) == expected, "validate_headers changed shape; the hand model must be re-examined:\n  " + " ".join(shape))
    out = ""
    # startswith prefix
    pref = [n for n in ast.walk(fn) if isinstance(n, ast.Call) and isinstance(n.func, ast.Attribute) and n.func.attr == "startswith"]
    need(len(pref) == 1 and isinstance(pref[0].func.value, ast.Name) and pref[0].func.value.id == "key"
         and len(pref[0].args) == 1 and isinstance(pref[0].args[0], ast.Constant) and isinstance(pref[0].args[0].value, bytes),
         "key.startswith(<bytes>) not found exactly once")
    out += "Definition gen_pseudo_prefix : list Z := %s.\n" % blist(pref[0].args[0].value)
    # key == b"..." comparisons, in source order
    eqs = []
    for n in ast.walk(fn):
        if (isinstance(n, ast.Compare) and len(n.ops) == 1 and isinstance(n.ops[0], ast.Eq) and isinstance(n.left, ast.Name)
                and n.left.id == "key" and isinstance(n.comparators[0], ast.Constant) and isinstance(n.comparators[0].value, bytes)):
            eqs.append((n.lineno, n.col_offset, n.comparators[0].value))
    eqs = [v for _, _, v in sorted(eqs)]
    need(len(eqs) == 5, "expected five `key == b'...'` dispatches, found %r" % (eqs,))
    for nm, v in zip(("gen_key_authority", "gen_key_path", "gen_key_scheme", "gen_key_content_length", "gen_key_transfer_encoding"), eqs):
        out += "Definition %s : list Z := %s. (* %s *)\n" % (nm, blist(v), cm(v))
    # the three stores must go to authority/path/scheme in that order
    stores = []
    for n in ast.walk(fn):
        if (isinstance(n, ast.If) and isinstance(n.test, ast.Compare) and isinstance(n.test.left, ast.Name) and n.test.left.id == "key"
                and len(n.body) == 1 and isinstance(n.body[0], ast.Assign) and isinstance(n.body[0].value, ast.Name)
                and n.body[0].value.id == "value"):
            stores.append((n.lineno, n.body[0].targets[0].id))
    need([s for _, s in sorted(stores)] == ["authority", "path", "scheme"], "pseudo-header value stores changed: %r" % stores)
    # value != b"trailers"
    ne = [n for n in ast.walk(fn) if isinstance(n, ast.Compare) and len(n.ops) == 1 and isinstance(n.ops[0], ast.NotEq)
          and isinstance(n.left, ast.Name) and n.left.id == "value" and isinstance(n.comparators[0], ast.Constant)
          and isinstance(n.comparators[0].value, bytes)]
    need(len(ne) == 1, "value != b'...' not found exactly once")
    out += "Definition gen_te_value : list Z := %s. (* %s *)\n" % (blist(ne[0].comparators[0].value), cm(ne[0].comparators[0].value))
    # try: content_length = int(value); if content_length < N: raise ValueError / except X: raise MessageError
    tries = [n for n in ast.walk(fn) if isinstance(n, ast.Try)]
    need(len(tries) == 1, "expected one try statement")
    t = tries[0]
    need(not t.orelse and not t.finalbody and len(t.handlers) == 1, "try shape")
    a0 = t.body[0]
    need(isinstance(a0, ast.Assign) and isinstance(a0.value, ast.Call) and isinstance(a0.value.func, ast.Name)
         and a0.value.func.id == "int" and len(a0.value.args) == 1 and isinstance(a0.value.args[0], ast.Name)
         and a0.value.args[0].id == "value" and not a0.value.keywords and isinstance(a0.targets[0], ast.Name),
         "content_length = int(value)")
    clvar = a0.targets[0].id
    i0 = t.body[1]
    need(isinstance(i0, ast.If) and not i0.orelse and isinstance(i0.test, ast.Compare) and len(i0.test.ops) == 1
         and isinstance(i0.test.left, ast.Name) and i0.test.left.id == clvar and isinstance(i0.body[0], ast.Raise)
         and isinstance(i0.body[0].exc, ast.Name), "negativity test shape")
    out += "Definition gen_cl_bad (n : Z) : bool := %s.\n" % Tr(consts, {clvar: "n"}).b(i0.test)
    need(i0.body[0].exc.id in EXN_KINDS, "unknown exception raised in try: " + i0.body[0].exc.id)
    out += "Definition gen_cl_raised : Z := %d. (* %s *)\n" % (EXN_KINDS[i0.body[0].exc.id], i0.body[0].exc.id)
    h = t.handlers[0]
    if h.type is None or (isinstance(h.type, ast.Name) and h.type.id in ("Exception", "BaseException")):
        caught, cm_ = sorted(set(EXN_KINDS.values())), "all"
    else:
        names = [h.type] if isinstance(h.type, ast.Name) else (list(h.type.elts) if isinstance(h.type, ast.Tuple) else None)
        need(names is not None and all(isinstance(x, ast.Name) and x.id in EXN_KINDS for x in names), "except clause classes")
        caught, cm_ = sorted({EXN_KINDS[x.id] for x in names}), ",".join(x.id for x in names)
    need(len(h.body) == 1 and is_raise_message_error(h.body[0]), "handler does not raise MessageError")
    out += "Definition gen_cl_caught : list Z := %s. (* %s *)\n" % (blist(caught), cm_)
    # stream store guarded by `if stream:`
    st_if = [n for n in ast.walk(fn) if isinstance(n, ast.If) and isinstance(n.test, ast.Name) and n.test.id == "stream"]
    need(len(st_if) == 1 and len(st_if[0].body) == 1 and isinstance(st_if[0].body[0], ast.Assign)
         and isinstance(st_if[0].body[0].targets[0], ast.Attribute) and st_if[0].body[0].targets[0].attr == "expected_content_length"
         and isinstance(st_if[0].body[0].value, ast.Name) and st_if[0].body[0].value.id == clvar, "expected_content_length store")
    # if seen_content_length is not None and content_length != seen_content_length: raise MessageError
    # seen_content_length = content_length          (directly after the try statement)
    parent = [n for n in ast.walk(fn) if isinstance(n, ast.If) and t in n.body]
    need(len(parent) == 1 and parent[0].body.index(t) == 0 and len(parent[0].body) == 4, "content-length branch shape")
    dup, store = parent[0].body[1], parent[0].body[2]
    need(isinstance(store, ast.Assign) and isinstance(store.targets[0], ast.Name) and isinstance(store.value, ast.Name)
         and store.value.id == clvar, "seen_content_length store")
    seen = store.targets[0].id
    inits = [n for n in body_no_doc(fn) if isinstance(n, ast.AnnAssign) and isinstance(n.target, ast.Name) and n.target.id == seen]
    need(len(inits) == 1 and isinstance(inits[0].value, ast.Constant) and inits[0].value.value is None, seen + " is not initialised to None")
    need(len([n for n in ast.walk(fn) if isinstance(n, ast.Name) and n.id == seen and isinstance(n.ctx, ast.Store)]) == 2,
         seen + " is assigned elsewhere")
    tst = dup.test
    need(isinstance(dup, ast.If) and not dup.orelse and len(dup.body) == 1 and is_raise_message_error(dup.body[0])
         and isinstance(tst, ast.BoolOp) and isinstance(tst.op, ast.And) and len(tst.values) == 2, "conflicting content-length check shape")
    a, b = tst.values
    need(isinstance(a, ast.Compare) and isinstance(a.left, ast.Name) and a.left.id == seen and len(a.ops) == 1
         and isinstance(a.ops[0], ast.IsNot) and isinstance(a.comparators[0], ast.Constant) and a.comparators[0].value is None,
         "`seen_content_length is not None` expected")
    need(isinstance(b, ast.Compare) and isinstance(b.left, ast.Name) and isinstance(b.comparators[0], ast.Name) and len(b.ops) == 1
         and {b.left.id, b.comparators[0].id} == {clvar, seen}, "`content_length <op> seen_content_length` expected")
    out += "Definition gen_cl_conflict (n m : Z) : bool := %s.\n" % Tr(consts, {clvar: "n", seen: "m"}).b(b)
    # scheme in (b"http", b"https")
    sch = [n for n in ast.walk(fn) if isinstance(n, ast.Compare) and isinstance(n.left, ast.Name) and n.left.id == "scheme"]
    need(len(sch) == 1 and isinstance(sch[0].ops[0], ast.In) and isinstance(sch[0].comparators[0], ast.Tuple)
         and all(isinstance(e, ast.Constant) and isinstance(e.value, bytes) for e in sch[0].comparators[0].elts), "scheme tuple")
    out += "Definition gen_schemes : list (list Z) := [%s].\n" % "; ".join(blist(e.value) for e in sch[0].comparators[0].elts)
    return out


def gen_wrapper(tree, name, passes_stream):
    fn = func(tree, name)
    body = body_no_doc(fn)
    need(len(body) == 1 and isinstance(body[0], ast.Expr) and isinstance(body[0].value, ast.Call)
         and isinstance(body[0].value.func, ast.Name) and body[0].value.func.id == "validate_headers", name + " shape")
    call = body[0].value
    need(len(call.args) == 1 and isinstance(call.args[0], ast.Name) and call.args[0].id == "headers", name + " positional args")
    kws = {k.arg: k.value for k in call.keywords}
    need(set(kws) == ({"allowed_pseudo_headers", "required_pseudo_headers"} | ({"stream"} if passes_stream else set())),
         name + " keywords %r" % sorted(kws))
    if passes_stream:
        need(isinstance(kws["stream"], ast.Name) and kws["stream"].id == "stream" and [a.arg for a in fn.args.args] == ["headers", "stream"],
             name + " stream argument")

    def fset(v):
        need(isinstance(v, ast.Call) and isinstance(v.func, ast.Name) and v.func.id == "frozenset" and not v.keywords and len(v.args) <= 1,
             name + ": not a frozenset literal")
        if not v.args:
            return []
        need(isinstance(v.args[0], ast.Tuple) and all(isinstance(e, ast.Constant) and isinstance(e.value, bytes) for e in v.args[0].elts),
             name + ": frozenset of non-literals")
        return [e.value for e in v.args[0].elts]
    short = name[len("validate_"):].replace("_headers", "")
    a, r = fset(kws["allowed_pseudo_headers"]), fset(kws["required_pseudo_headers"])
    out = "Definition gen_allowed_%s : list (list Z) := [%s]. (* %s *)\n" % (short, "; ".join(blist(x) for x in a), cm(a))
    out += "Definition gen_required_%s : list (list Z) := [%s]. (* %s *)\n" % (short, "; ".join(blist(x) for x in r), cm(r))
    out += "Definition gen_stream_%s : bool := %s.\n" % (short, "true" if passes_stream else "false")
    return out


def render(text):
    tree = ast.parse(text)
    consts = module_consts(tree)
    out = ["(* GENERATED by tools/gen/c15_tables.py from src/aioquic/h3/connection.py -- do not edit *)",
           "From Coq Require Import ZArith List Bool.", "Import ListNotations.", "Open Scope Z_scope.", ""]
    for n in ("COLON", "NUL", "LF", "CR", "SP", "HTAB"):
        need(isinstance(consts.get(n), int), "constant %s missing" % n)
        out.append("Definition gen_%s : Z := %s." % (n, zlit(consts[n])))
    need(isinstance(consts.get("WHITESPACE"), tuple), "WHITESPACE missing")
    out.append("Definition gen_WHITESPACE : list Z := %s." % blist(consts["WHITESPACE"]))
    out.append("Definition gen_H3_MESSAGE_ERROR : Z := %d." % enum_member(tree, "ErrorCode", "H3_MESSAGE_ERROR"))
    out.append("Definition gen_MessageError_code : Z := %d." % class_error_code(tree, "MessageError"))
    out.append("")
    out.append(gen_name(tree, consts))
    out.append(gen_value(tree, consts))
    out.append(gen_headers(tree, consts))
    out.append(gen_wrapper(tree, "validate_request_headers", True))
    out.append(gen_wrapper(tree, "validate_response_headers", True))
    out.append(gen_wrapper(tree, "validate_push_promise_headers", False))
    out.append(gen_wrapper(tree, "validate_trailers", False))
    return "\n".join(out) + "\n"


# The fragment of connection.py this translator (and the hand model) was written against.  It is used ONLY when the
# current source cannot be translated: the model then still builds from these tables (so that the shared extraction
# driver and the implementation oracle keep running), but `gen_ok` is false, which breaks
# coq/proofs/H3ValidateProofs.v (lemma gen_ok_true) and with it every theorem of coq/props/C15.v: fail closed.
SNAPSHOT = '''
COLON = 0x3A
NUL = 0x00
LF = 0x0A
CR = 0x0D
SP = 0x20
HTAB = 0x09
WHITESPACE = (SP, HTAB)

class ErrorCode(IntEnum):
    H3_DATAGRAM_ERROR = 0x33
    H3_NO_ERROR = 0x100
    H3_GENERAL_PROTOCOL_ERROR = 0x101
    H3_INTERNAL_ERROR = 0x102
    H3_STREAM_CREATION_ERROR = 0x103
    H3_CLOSED_CRITICAL_STREAM = 0x104
    H3_FRAME_UNEXPECTED = 0x105
    H3_FRAME_ERROR = 0x106
    H3_EXCESSIVE_LOAD = 0x107
    H3_ID_ERROR = 0x108
    H3_SETTINGS_ERROR = 0x109
    H3_MISSING_SETTINGS = 0x10A
    H3_REQUEST_REJECTED = 0x10B
    H3_REQUEST_CANCELLED = 0x10C
    H3_REQUEST_INCOMPLETE = 0x10D
    H3_MESSAGE_ERROR = 0x10E
    H3_CONNECT_ERROR = 0x10F
    H3_VERSION_FALLBACK = 0x110
    QPACK_DECOMPRESSION_FAILED = 0x200
    QPACK_ENCODER_STREAM_ERROR = 0x201
    QPACK_DECODER_STREAM_ERROR = 0x202


class ProtocolError(Exception):
    """
    Base class for protocol errors.

    These errors are not exposed to the API user, they are handled
    in :meth:`H3Connection.handle_event`.
    """

    error_code = ErrorCode.H3_GENERAL_PROTOCOL_ERROR

    def __init__(self, reason_phrase: str = ""):
        self.reason_phrase = reason_phrase


class MessageError(ProtocolError):
    error_code = ErrorCode.H3_MESSAGE_ERROR


def validate_header_name(key: bytes) -> None:
    """
    Validate a header name as specified by RFC 9113 section 8.2.1.
    """
    for i, c in enumerate(key):
        if c <= 0x20 or (c >= 0x41 and c <= 0x5A) or c >= 0x7F:
            raise MessageError("Header %r contains invalid characters" % key)
        if c == COLON and i != 0:
            # Colon not at start, definitely bad.  Keys starting with a colon
            # will be checked in pseudo-header validation code.
            raise MessageError("Header %r contains a non-initial colon" % key)


def validate_header_value(key: bytes, value: bytes):
    """
    Validate a header value as specified by RFC 9113 section 8.2.1.
    """
    for c in value:
        if c == NUL or c == LF or c == CR:
            raise MessageError("Header %r value has forbidden characters" % key)
    if len(value) > 0:
        first = value[0]
        if first in WHITESPACE:
            raise MessageError("Header %r value starts with whitespace" % key)
        if len(value) > 1:
            last = value[-1]
            if last in WHITESPACE:
                raise MessageError("Header %r value ends with whitespace" % key)


def validate_headers(
    headers: Headers,
    allowed_pseudo_headers: FrozenSet[bytes],
    required_pseudo_headers: FrozenSet[bytes],
    stream: Optional["H3Stream"] = None,
) -> None:
    after_pseudo_headers = False
    authority: Optional[bytes] = None
    path: Optional[bytes] = None
    scheme: Optional[bytes] = None
    seen_content_length: Optional[int] = None
    seen_pseudo_headers: Set[bytes] = set()
    for key, value in headers:
        validate_header_name(key)
        validate_header_value(key, value)

        if key.startswith(b":"):
            # pseudo-headers
            if after_pseudo_headers:
                raise MessageError(
                    "Pseudo-header %r is not allowed after regular headers" % key
                )
            if key not in allowed_pseudo_headers:
                raise MessageError("Pseudo-header %r is not valid" % key)
            if key in seen_pseudo_headers:
                raise MessageError("Pseudo-header %r is included twice" % key)
            seen_pseudo_headers.add(key)

            # store value
            if key == b":authority":
                authority = value
            elif key == b":path":
                path = value
            elif key == b":scheme":
                scheme = value
        else:
            # regular headers
            after_pseudo_headers = True
            # a few more semantic checks
            if key == b"content-length":
                try:
                    content_length = int(value)
                    if content_length < 0:
                        raise ValueError
                except ValueError:
                    raise MessageError("content-length is not a non-negative integer")
                if (
                    seen_content_length is not None
                    and content_length != seen_content_length
                ):
                    raise MessageError("conflicting content-length values")
                seen_content_length = content_length
                if stream:
                    stream.expected_content_length = content_length
            elif key == b"transfer-encoding" and value != b"trailers":
                raise MessageError(
                    "The only valid value for transfer-encoding is trailers"
                )

    # check required pseudo-headers are present
    missing = required_pseudo_headers.difference(seen_pseudo_headers)
    if missing:
        raise MessageError("Pseudo-headers %s are missing" % sorted(missing))

    if scheme in (b"http", b"https"):
        if not authority:
            raise MessageError("Pseudo-header b':authority' cannot be empty")
        if not path:
            raise MessageError("Pseudo-header b':path' cannot be empty")


def validate_push_promise_headers(headers: Headers) -> None:
    validate_headers(
        headers,
        allowed_pseudo_headers=frozenset(
            (b":method", b":scheme", b":authority", b":path")
        ),
        required_pseudo_headers=frozenset(
            (b":method", b":scheme", b":authority", b":path")
        ),
    )


def validate_request_headers(
    headers: Headers, stream: Optional["H3Stream"] = None
) -> None:
    validate_headers(
        headers,
        allowed_pseudo_headers=frozenset(
            # FIXME: The pseudo-header :protocol is not actually defined, but
            # we use it for the WebSocket demo.
            (b":method", b":scheme", b":authority", b":path", b":protocol")
        ),
        required_pseudo_headers=frozenset((b":method", b":authority")),
        stream=stream,
    )


def validate_response_headers(
    headers: Headers, stream: Optional["H3Stream"] = None
) -> None:
    validate_headers(
        headers,
        allowed_pseudo_headers=frozenset((b":status",)),
        required_pseudo_headers=frozenset((b":status",)),
        stream=stream,
    )


def validate_trailers(headers: Headers) -> None:
    validate_headers(
        headers,
        allowed_pseudo_headers=frozenset(),
        required_pseudo_headers=frozenset(),
    )

'''


def generate():
    try:
        text = render(open(SRC).read())
        text += "\n(* the tables above were translated from the current source *)\nDefinition gen_ok : bool := true.\n"
    except (GenError, SyntaxError, OSError) as e:
        text = render(SNAPSHOT)
        text += ("\n(* TRANSLATION OF THE CURRENT SOURCE FAILED: %s\n   the tables above come from the snapshot inside "
                 "tools/gen/c15_tables.py; no theorem of C15 holds for the current source. *)\n"
                 "Definition gen_ok : bool := false.\n" % cm(str(e))[:1500])
    os.makedirs(os.path.dirname(OUT), exist_ok=True)
    try:
        if open(OUT).read() == text:
            return
    except FileNotFoundError:
        pass
    tmp = OUT + ".tmp%d" % os.getpid()
    with open(tmp, "w") as f:
        f.write(text)
    os.replace(tmp, OUT)


if __name__ == "__main__":
    generate()
    print(open(OUT).read())
