"""C19: the SHIELD discipline of asyncio/protocol.py, read from the source of the tree under check (fail closed).

The cancellation theorems of coq/props/C19.v are stated for `C19Shield.waiters_shielded`, the flag this probe writes into
coq/gen/C19Shield.v; their proofs are about `true`.  The flag is `true` iff, in class QuicConnectionProtocol:

  (1) every `await` is either `await asyncio.shield(<registered waiter>)` or `await self._closed.wait()`
      (an asyncio.Event, which cleans up after itself); a registered waiter is a future made by
      `self._loop.create_future()` and stored in `self._ping_waiters[...]` or `self._connected_waiter`;
  (2) every future made by `create_future()` in a coroutine is registered in one of the two tables and awaited
      (shielded) in the same coroutine;
  (3) the waiter tables (`self._ping_waiters`, `self._connected_waiter`) are modified only by the event loop of
      `_drain_events` / `_process_events`, by `__init__`, and by the registrations themselves
      (`self._ping_waiters[uid] = waiter` in ping(), `self._connected_waiter = create_future()` in wait_connected()):
      no `pop` / `del` / `clear` / re-assignment in a coroutine, in particular none in a `finally:` / `except:` clause
      that runs when the caller is cancelled;
  (4) outside the event loop no method of a registered waiter is called (`waiter.cancel()`, `waiter.set_result(...)`,
      `add_done_callback` ...): a waiter is registered, named by `id()`, handed to `asyncio.shield()`, nothing else.

An `await` of a bare registered waiter, or a clean-up of the tables outside the event loop, gives `false` (the theorems
then no longer check: the unshielded variant is refuted by `unshielded_cancellation_refuted`).  Anything the probe does
not recognise (another awaitable, a future created elsewhere, another table) raises: the output is deleted and everything
depending on it stops compiling.
"""
import ast
import os

VERIF = os.path.dirname(os.path.dirname(os.path.dirname(os.path.abspath(__file__))))
REPO = os.environ.get("VERIF_REPO", "/repo")
OUTPUTS = ["gen/C19Shield.v"]

TABLES = ("_ping_waiters", "_connected_waiter")
EVENT_LOOP_FUNCS = ("_drain_events", "_process_events", "__init__")


class GenError(Exception):
    pass


def _self_attr(node, names=None):
    if isinstance(node, ast.Attribute) and isinstance(node.value, ast.Name) and node.value.id == "self":
        if names is None or node.attr in names:
            return node.attr
    return None


def _is_create_future(node):
    return (isinstance(node, ast.Call) and isinstance(node.func, ast.Attribute) and node.func.attr == "create_future"
            and not node.args and not node.keywords)


def _is_shield(node):
    return (isinstance(node, ast.Call) and isinstance(node.func, ast.Attribute) and node.func.attr == "shield"
            and isinstance(node.func.value, ast.Name) and node.func.value.id == "asyncio" and len(node.args) == 1
            and not node.keywords)


def _is_closed_wait(node):
    return (isinstance(node, ast.Call) and isinstance(node.func, ast.Attribute) and node.func.attr == "wait"
            and _self_attr(node.func.value, ("_closed",)) and not node.args and not node.keywords)


def _table_of(node):
    """self._ping_waiters / self._ping_waiters[...] / self._connected_waiter -> table name"""
    if isinstance(node, ast.Subscript):
        node = node.value
    return _self_attr(node, TABLES)


def analyse(src):
    tree = ast.parse(src)
    cls = [n for n in tree.body if isinstance(n, ast.ClassDef) and n.name == "QuicConnectionProtocol"]
    if len(cls) != 1:
        raise GenError("class QuicConnectionProtocol not found")
    cls = cls[0]
    facts = {"awaits": [], "unshielded": [], "table_writes_outside": [], "coroutines_with_waiter": [], "waiter_used_outside": []}
    # the event-loop side must exist and be where the tables are emptied
    names = {f.name for f in cls.body if isinstance(f, (ast.FunctionDef, ast.AsyncFunctionDef))}
    for need in ("_drain_events", "ping", "wait_connected", "wait_closed"):
        if need not in names:
            raise GenError("QuicConnectionProtocol.%s not found" % need)
    # a waiter table created under another name would escape the probe: the futures of __init__ are exactly these
    for f in cls.body:
        if not isinstance(f, (ast.FunctionDef, ast.AsyncFunctionDef)):
            continue
        # which local names / attributes hold a registered waiter in this function
        local_waiters = set()
        registered = set()
        made = 0
        for n in ast.walk(f):
            if isinstance(n, (ast.Assign, ast.AnnAssign)) and n.value is not None and _is_create_future(n.value):
                made += 1
                targets = n.targets if isinstance(n, ast.Assign) else [n.target]
                for t in targets:
                    if isinstance(t, ast.Name):
                        local_waiters.add(t.id)
                    elif _self_attr(t, ("_connected_waiter",)):
                        registered.add("_connected_waiter")
                    else:
                        raise GenError("%s: future stored in an unknown place (%s)" % (f.name, ast.dump(t)[:80]))
            elif _is_create_future(n) and not any(
                    isinstance(p, (ast.Assign, ast.AnnAssign)) and p.value is n for p in ast.walk(f)):
                raise GenError("%s: create_future() whose result is not assigned" % f.name)
        for n in ast.walk(f):
            if isinstance(n, ast.Assign) and isinstance(n.value, ast.Name) and n.value.id in local_waiters:
                for t in n.targets:
                    tb = _table_of(t)
                    if tb == "_ping_waiters" and isinstance(t, ast.Subscript):
                        registered.add("_ping_waiters")
        if made and not isinstance(f, ast.AsyncFunctionDef):
            raise GenError("%s creates a future but is not a coroutine" % f.name)
        if made:
            if made != 1 or len(registered) != 1:
                raise GenError("%s: expected exactly one future, registered in exactly one waiter table (made %d, tables %s)"
                               % (f.name, made, sorted(registered)))
            facts["coroutines_with_waiter"].append(f.name)

        def is_waiter_expr(e):
            if isinstance(e, ast.Name) and e.id in local_waiters:
                return True
            return _table_of(e) is not None

        shielded_here = 0
        for n in ast.walk(f):
            if isinstance(n, ast.Await):
                v = n.value
                if _is_shield(v) and is_waiter_expr(v.args[0]):
                    facts["awaits"].append((f.name, "shield"))
                    shielded_here += 1
                elif _is_closed_wait(v):
                    facts["awaits"].append((f.name, "closed.wait"))
                elif is_waiter_expr(v):
                    facts["awaits"].append((f.name, "bare"))
                    facts["unshielded"].append("%s:%d" % (f.name, n.lineno))
                else:
                    raise GenError("%s line %d: await of something the probe does not know (%s)"
                                   % (f.name, n.lineno, ast.unparse(v)[:80]))
        # (4) outside the event loop a registered waiter is only registered, named by id() and handed to shield():
        # no method of it is called (waiter.cancel(), waiter.set_result(...), add_done_callback ...)
        if f.name not in EVENT_LOOP_FUNCS:
            for n in ast.walk(f):
                if isinstance(n, ast.Attribute) and is_waiter_expr(n.value) and not (
                        isinstance(n.value, ast.Attribute) and _self_attr(n.value, ("_ping_waiters",))):
                    facts["waiter_used_outside"].append("%s:%d .%s" % (f.name, n.lineno, n.attr))
        if made and shielded_here + len([u for u in facts["unshielded"] if u.startswith(f.name + ":")]) != 1:
            raise GenError("%s: the registered waiter is not awaited exactly once" % f.name)
        # writes to the tables
        if f.name in EVENT_LOOP_FUNCS:
            continue
        for n in ast.walk(f):
            bad = None
            if isinstance(n, ast.Call) and isinstance(n.func, ast.Attribute) and _table_of(n.func.value) \
                    and n.func.attr in ("pop", "popitem", "clear", "update", "setdefault", "__delitem__", "__setitem__"):
                bad = "%s.%s()" % (_table_of(n.func.value), n.func.attr)
            elif isinstance(n, ast.Delete) and any(_table_of(t) for t in n.targets):
                bad = "del"
            elif isinstance(n, (ast.Assign, ast.AnnAssign, ast.AugAssign)):
                targets = n.targets if isinstance(n, ast.Assign) else [n.target]
                for t in targets:
                    tb = _table_of(t)
                    if tb is None:
                        continue
                    value = n.value
                    ok = (f.name in facts["coroutines_with_waiter"] and (
                        (tb == "_ping_waiters" and isinstance(t, ast.Subscript) and isinstance(value, ast.Name)
                         and value.id in local_waiters)
                        or (tb == "_connected_waiter" and not isinstance(t, ast.Subscript) and _is_create_future(value))))
                    if not ok:
                        bad = "assignment to %s" % tb
            if bad:
                facts["table_writes_outside"].append("%s:%d %s" % (f.name, n.lineno, bad))
    if sorted(facts["coroutines_with_waiter"]) != ["ping", "wait_connected"]:
        raise GenError("coroutines that register a waiter: %s (the models know ping and wait_connected)"
                       % facts["coroutines_with_waiter"])
    if not any(k == "closed.wait" for _, k in facts["awaits"]):
        raise GenError("wait_closed() does not await self._closed.wait()")
    # any try/finally or try/except wrapped around an await of a coroutine that registers a waiter runs on
    # cancellation: it is harmless only if it does not touch the tables (checked above); record it
    facts["shielded"] = not facts["unshielded"] and not facts["table_writes_outside"] and not facts["waiter_used_outside"]
    return facts


def read_facts():
    path = os.path.join(REPO, "src", "aioquic", "asyncio", "protocol.py")
    return analyse(open(path).read())


def generate():
    f = read_facts()
    lines = ["(* GENERATED by tools/gen/c19_shield.py from the tree under check -- do not edit *)",
             "(* awaits of QuicConnectionProtocol: %s *)" % ", ".join("%s:%s" % a for a in f["awaits"]),
             "(* unshielded awaits of a registered waiter: %s *)" % (", ".join(f["unshielded"]) or "none"),
             "(* waiter tables modified outside the event loop: %s *)" % (", ".join(f["table_writes_outside"]) or "none"),
             "(* methods of a registered waiter called outside the event loop: %s *)" % (", ".join(f["waiter_used_outside"]) or "none"),
             "Definition waiters_shielded : bool := %s." % ("true" if f["shielded"] else "false")]
    text = "\n".join(lines) + "\n"
    path = os.path.join(VERIF, "coq", "gen", "C19Shield.v")
    os.makedirs(os.path.dirname(path), exist_ok=True)
    try:
        if open(path).read() == text:
            return
    except FileNotFoundError:
        pass
    with open(path, "w") as fh:
        fh.write(text)


if __name__ == "__main__":
    print(read_facts())
