"""C05 translator for the TLS message layer: enum values, the dictionaries and default lists the
handlers index, and the *raise-site skeleton* of every parser / handler of src/aioquic/tls.py, read
from the CURRENT tree ($VERIF_REPO) with `ast` (nothing imported or executed), written to
coq/gen/C05Tls.v.

The skeleton of a function is the source-ordered list of
    raise <Class>            -> R_<Class>
    assert ...               -> R_assert
    try ... except (A, B)    -> T_open, then per handler  C_<A>_<B>, then T_close
    <expr>[<index>] loads    -> S_sub       (possible IndexError / KeyError)
    .decode(...)             -> S_decode    (possible UnicodeDecodeError)
coq/model/TlsRecv.v states the skeletons it was written against (`sites_pinned` / `sites_patched`);
`proofs/TlsRecvP.tls_sites_known` compares them with this file, so a raise site or an except clause
added to / removed from the source without touching the model stops the build.
Fails closed: anything unexpected raises."""
import ast
import os

ROOT = os.path.dirname(os.path.dirname(os.path.dirname(os.path.abspath(__file__))))
REPO = os.environ.get("VERIF_REPO", "/repo")
OUTPUTS = ["gen/C05Tls.v"]

FUNCS = [
    "pull_block", "pull_list", "pull_opaque", "pull_server_name", "pull_key_share", "pull_alpn_protocol",
    "pull_psk_identity", "pull_psk_binder", "pull_offered_psks", "pull_handshake_type",
    "pull_client_hello", "pull_server_hello", "pull_new_session_ticket", "pull_encrypted_extensions",
    "pull_certificate", "pull_certificate_request", "pull_certificate_verify", "pull_finished",
    "decode_public_key", "negotiate", "verify_certificate",
    "Context.handle_message", "Context._handle_reassembled_message", "Context._check_certificate_verify_signature",
    "Context._client_handle_hello", "Context._client_handle_encrypted_extensions",
    "Context._client_handle_certificate_request", "Context._client_handle_certificate",
    "Context._client_handle_certificate_verify", "Context._client_handle_finished",
    "Context._client_handle_new_session_ticket", "Context._server_expect_finished",
    "Context._server_handle_hello", "Context._server_handle_certificate",
    "Context._server_handle_certificate_verify", "Context._server_handle_finished",
    "Context._set_peer_certificate", "Context._build_session_ticket",
]


def _tree():
    path = os.path.join(REPO, "src", "aioquic", "tls.py")
    return ast.parse(open(path).read(), path)


def _int(node, env):
    if isinstance(node, ast.Constant) and isinstance(node.value, int) and not isinstance(node.value, bool):
        return node.value
    if isinstance(node, ast.Name) and node.id in env:
        return env[node.id]
    raise ValueError("c05_tls: cannot evaluate %s" % ast.dump(node)[:100])


def _enum(tree, name):
    for n in tree.body:
        if isinstance(n, ast.ClassDef) and n.name == name:
            out = []
            for s in n.body:
                if isinstance(s, ast.Assign) and isinstance(s.targets[0], ast.Name):
                    out.append((s.targets[0].id, _int(s.value, {})))
            if out:
                return out
    raise ValueError("c05_tls: enum %s not found" % name)


def _attr_of(node, cls):
    """`Cls.NAME` -> NAME"""
    if isinstance(node, ast.Attribute) and isinstance(node.value, ast.Name) and node.value.id == cls:
        return node.attr
    raise ValueError("c05_tls: expected %s.<name>, got %s" % (cls, ast.dump(node)[:80]))


def _module_dict(tree, name):
    for n in tree.body:
        tgt = None
        if isinstance(n, ast.Assign) and isinstance(n.targets[0], ast.Name):
            tgt, val = n.targets[0].id, n.value
        elif isinstance(n, ast.AnnAssign) and isinstance(n.target, ast.Name):
            tgt, val = n.target.id, n.value
        if tgt == name:
            if not isinstance(val, ast.Dict):
                raise ValueError("c05_tls: %s is not a dict literal" % name)
            return list(zip(val.keys, val.values))
    raise ValueError("c05_tls: %s not found" % name)


def _find_func(tree, qual):
    parts = qual.split(".")
    body = tree.body
    node = None
    for p in parts:
        node = None
        for n in body:
            if isinstance(n, (ast.FunctionDef, ast.ClassDef)) and n.name == p:
                node = n
                break
        if node is None:
            raise ValueError("c05_tls: %s not found" % qual)
        body = node.body
    return node


def _exc_name(node):
    if node is None:
        return "bare"
    if isinstance(node, ast.Call):
        node = node.func
    if isinstance(node, ast.Name):
        return node.id
    if isinstance(node, ast.Attribute):
        return node.attr
    if isinstance(node, ast.Tuple):
        return "_".join(_exc_name(e) for e in node.elts)
    raise ValueError("c05_tls: exception expression %s" % ast.dump(node)[:80])


def _sites(fn):
    out = []

    def expr(e):
        for sub in ast.walk(e):
            if isinstance(sub, ast.Subscript) and isinstance(sub.ctx, ast.Load):
                # type annotations such as Optional[bytes] are not visited (only statements' value exprs are)
                out.append("S_sub")
            if isinstance(sub, ast.Call) and isinstance(sub.func, ast.Attribute) and sub.func.attr == "decode":
                out.append("S_decode")

    def stmts(body):
        for s in body:
            if isinstance(s, ast.Raise):
                out.append("R_" + _exc_name(s.exc))
            elif isinstance(s, ast.Assert):
                out.append("R_assert")
            elif isinstance(s, ast.Try):
                out.append("T_open")
                stmts(s.body)
                for h in s.handlers:
                    out.append("C_" + _exc_name(h.type))
                    stmts(h.body)
                stmts(s.orelse)
                stmts(s.finalbody)
                out.append("T_close")
            elif isinstance(s, (ast.If, ast.While)):
                expr(s.test)
                stmts(s.body)
                stmts(s.orelse)
            elif isinstance(s, ast.For):
                expr(s.iter)
                stmts(s.body)
                stmts(s.orelse)
            elif isinstance(s, ast.With):
                for it in s.items:
                    expr(it.context_expr)
                stmts(s.body)
            elif isinstance(s, ast.FunctionDef):
                stmts(s.body)
            elif isinstance(s, ast.AnnAssign):
                if s.value is not None:
                    expr(s.value)
            elif isinstance(s, (ast.Assign, ast.AugAssign, ast.Expr, ast.Return)):
                if s.value is not None:
                    expr(s.value)
            elif isinstance(s, (ast.Pass, ast.Break, ast.Continue, ast.Nonlocal)):
                pass
            else:
                raise ValueError("c05_tls: statement %s in %s" % (type(s).__name__, fn.name))

    stmts(fn.body)
    return out


def read():
    tree = _tree()
    ext = _enum(tree, "ExtensionType")
    grp = _enum(tree, "Group")
    cs = _enum(tree, "CipherSuite")
    sa = _enum(tree, "SignatureAlgorithm")
    consts = {}
    for n in tree.body:
        if isinstance(n, ast.Assign) and isinstance(n.targets[0], ast.Name) and n.targets[0].id in (
                "MAX_HANDSHAKE_MESSAGE_SIZE", "TLS_VERSION_1_2", "TLS_VERSION_1_3"):
            consts[n.targets[0].id] = _int(n.value, {})
    if len(consts) != 3:
        raise ValueError("c05_tls: constants missing: %s" % consts)
    cpath = os.path.join(REPO, "src", "aioquic", "quic", "connection.py")
    for n in ast.parse(open(cpath).read(), cpath).body:
        if isinstance(n, ast.Assign) and isinstance(n.targets[0], ast.Name) and n.targets[0].id == "MAX_EARLY_DATA":
            consts["MAX_EARLY_DATA"] = _int(n.value, {})
    if "MAX_EARLY_DATA" not in consts:
        raise ValueError("c05_tls: MAX_EARLY_DATA not found in connection.py")
    cs_keys = [dict(cs)[_attr_of(k, "CipherSuite")] for k, _ in _module_dict(tree, "CIPHER_SUITES")]
    sig = []
    for k, v in _module_dict(tree, "SIGNATURE_ALGORITHMS"):
        if not (isinstance(v, ast.Tuple) and len(v.elts) == 2):
            raise ValueError("c05_tls: SIGNATURE_ALGORITHMS value shape")
        pad = v.elts[0]
        is_ec = isinstance(pad, ast.Constant) and pad.value is None
        sig.append((dict(sa)[_attr_of(k, "SignatureAlgorithm")], 1 if is_ec else 0))
    curves = [dict(grp)[_attr_of(k, "Group")] for k, _ in _module_dict(tree, "GROUP_TO_CURVE")]
    # Context.__init__: default lists
    init = _find_func(tree, "Context.__init__")
    lists = {}
    appended = {}
    for s in ast.walk(init):
        tgt = None
        if isinstance(s, ast.Assign) and isinstance(s.targets[0], ast.Attribute):
            tgt, val = s.targets[0].attr, s.value
        elif isinstance(s, ast.AnnAssign) and isinstance(s.target, ast.Attribute):
            tgt, val = s.target.attr, s.value
        if tgt in ("_signature_algorithms", "_legacy_compression_methods", "_psk_key_exchange_modes",
                   "_supported_versions", "_cipher_suites", "_supported_groups") and isinstance(val, ast.List):
            lists[tgt] = val.elts
        if (isinstance(s, ast.Call) and isinstance(s.func, ast.Attribute) and s.func.attr == "append"
                and isinstance(s.func.value, ast.Attribute) and s.func.value.attr in ("_signature_algorithms", "_supported_groups")):
            appended.setdefault(s.func.value.attr, []).append(s.args[0])
    enums = {"SignatureAlgorithm": dict(sa), "CompressionMethod": dict(_enum(tree, "CompressionMethod")),
             "PskKeyExchangeMode": dict(_enum(tree, "PskKeyExchangeMode")), "CipherSuite": dict(cs), "Group": dict(grp)}

    def val(e):
        if isinstance(e, ast.Attribute) and isinstance(e.value, ast.Name) and e.value.id in enums:
            return enums[e.value.id][e.attr]
        return _int(e, consts)

    defaults = {k: [val(e) for e in v] for k, v in lists.items()}
    for k in ("_signature_algorithms", "_legacy_compression_methods", "_psk_key_exchange_modes", "_supported_versions",
              "_cipher_suites", "_supported_groups"):
        if k not in defaults:
            raise ValueError("c05_tls: default list %s not found" % k)
    opt = {k: [val(e) for e in v] for k, v in appended.items()}
    sites = [(q, _sites(_find_func(tree, q))) for q in FUNCS]
    return dict(ext=ext, grp=grp, cs=cs, sa=sa, consts=consts, cs_keys=cs_keys, sig=sig, curves=curves,
                defaults=defaults, opt=opt, sites=sites)


def _zl(xs):
    return "[" + "; ".join(str(x) for x in xs) + "]"


def render(t):
    L = ["(* GENERATED by tools/gen/c05_tls.py from src/aioquic/tls.py -- do not edit. *)",
         "From Coq Require Import ZArith List String.", "Import ListNotations.", "Open Scope Z_scope.", ""]
    for pre, key in (("XT_", "ext"), ("GRP_", "grp"), ("CS_", "cs"), ("SA_", "sa")):
        for k, v in t[key]:
            L.append("Definition %s%s : Z := %d." % (pre, k, v))
        L.append("")
    for k, v in sorted(t["consts"].items()):
        L.append("Definition %s : Z := %d." % (k, v))
    L.append("")
    L.append("(* keys of the module-level dictionaries the handlers index *)")
    L.append("Definition CIPHER_SUITES_keys : list Z := %s." % _zl(t["cs_keys"]))
    L.append("Definition SIGNATURE_ALGORITHMS_keys : list Z := %s." % _zl(k for k, _ in t["sig"]))
    L.append("Definition SIGNATURE_ALGORITHMS_ec : list Z := %s.   (* padding class is None *)"
             % _zl(k for k, e in t["sig"] if e))
    L.append("Definition GROUP_TO_CURVE_keys : list Z := %s." % _zl(t["curves"]))
    L.append("")
    L.append("(* Context.__init__ defaults; the *_optional entries are appended when the backend supports them *)")
    for k, v in sorted(t["defaults"].items()):
        L.append("Definition default%s : list Z := %s." % (k, _zl(v)))
    for k, v in sorted(t["opt"].items()):
        L.append("Definition optional%s : list Z := %s." % (k, _zl(v)))
    L.append("")
    L.append("(* raise-site skeletons, in source order *)")
    L.append("Open Scope string_scope.")
    L.append("Definition tls_sites : list (string * list string) := [")
    rows = ['  ("%s", [%s])' % (q, "; ".join('"%s"' % s for s in ss)) for q, ss in t["sites"]]
    L.append(";\n".join(rows))
    L.append("].")
    L.append("Close Scope string_scope.")
    L.append("")
    return "\n".join(L)


def generate():
    text = render(read())
    out = os.path.join(ROOT, "coq", "gen", "C05Tls.v")
    os.makedirs(os.path.dirname(out), exist_ok=True)
    try:
        if open(out).read() == text:
            return out
    except FileNotFoundError:
        pass
    tmp = out + ".tmp%d" % os.getpid()
    with open(tmp, "w") as f:
        f.write(text)
    os.replace(tmp, out)
    return out


if __name__ == "__main__":
    print(generate())
    print(open(os.path.join(ROOT, "coq", "gen", "C05Tls.v")).read())
