#!/usr/bin/env python3
"""C03 translator: tls.py + quic/connection.py -> coq/gen/TlsTranscript.v   (fail closed)

From the CURRENT source (Python `ast`, nothing imported or run):

1. for every handshake handler of tls.Context (_client_send_hello, _client_handle_*, _server_handle_*; callees with
   events are inlined: _server_expect_finished, _set_peer_certificate, _check_certificate_verify_signature,
   _build_session_ticket) the ordered TRANSCRIPT SKELETON: pull_* calls, every update_hash with WHAT is hashed
   (whole input message / the message just pushed under push_message / truncated hello / binder tail / anticipated
   Finished), KeySchedule creation, extract(what), derive_secret / _setup_traffic_protection with the label bytes,
   finished_verify_data(which key), certificate_verify_data(which context string), sign / verify, verify_certificate,
   negotiate(supported list, offered list, alert), raise sites, the verify_data / binder comparisons, state
   transitions, under their `if` structure.  Dropping a message from the transcript, hashing after instead of
   before a derivation, swapping negotiate's preference order or removing a comparison changes this value, and
   proofs/TlsSymbolicPGen.v (which states it equals the skeleton the model was transcribed from) stops compiling;
2. the class KeySchedule / KeyScheduleProxy / negotiate / push_message bodies, compared with the pinned text the
   model's ks_* functions were written from;
3. CIPHER_SUITES (suite -> hash), SIGNATURE_ALGORITHMS (algorithm -> padding class), the context strings;
4. connection.py: is_version_compatible, the order of the identity / version checks of _parse_transport_parameters,
   the server's version choice in _alpn_handler, the common-version choice of _receive_version_negotiation_packet.
"""
import ast
import os
import sys

ROOT = os.path.dirname(os.path.dirname(os.path.dirname(os.path.abspath(__file__))))
REPO = os.environ.get("VERIF_REPO", "/repo")
OUT = os.path.join(ROOT, "coq", "gen", "TlsTranscript.v")
OUTPUTS = ["gen/TlsTranscript.v"]


class Untranslatable(Exception):
    pass


def fail(node, why):
    raise Untranslatable("line %s: %s" % (getattr(node, "lineno", "?"), why))


PULLS = ["pull_server_hello", "pull_encrypted_extensions", "pull_certificate_request", "pull_certificate",
         "pull_certificate_verify", "pull_finished", "pull_new_session_ticket", "pull_client_hello"]
PUSHES = ["push_server_hello", "push_encrypted_extensions", "push_certificate_request", "push_certificate",
          "push_certificate_verify", "push_finished", "push_new_session_ticket", "push_client_hello"]
# arguments of negotiate(): source text -> id
NEG_ARGS = {
    "self._cipher_suites": 1, "peer_hello.cipher_suites": 2, "[peer_hello.cipher_suite]": 3,
    "self._legacy_compression_methods": 4, "peer_hello.legacy_compression_methods": 5,
    "self._psk_key_exchange_modes": 6, "peer_hello.psk_key_exchange_modes": 7,
    "self._signature_algorithms_for_private_key()": 8, "peer_hello.signature_algorithms": 9,
    "self._supported_versions": 10, "peer_hello.supported_versions": 11,
    "self._alpn_protocols": 12, "peer_hello.alpn_protocols": 13,
    "self._certificate_request.signature_algorithms": 14,
}
# recognised `if` conditions -> id (anything else is numbered C_other in order of appearance)
CONDS = {
    "self._session_resumed": 1,
    "self._verify_mode != ssl.CERT_NONE": 2,
    "self._certificate_request is not None": 3,
    "certificate.certificates": 4,
    "self._request_client_certificate": 5,
    "pre_shared_key is None": 6,
    "peer_hello.pre_shared_key is not None": 7,
    "peer_hello.early_data": 8,
    "hello.early_data": 8,
    "self.session_ticket and self.session_ticket.is_valid": 9,
    "finished.verify_data != expected_verify_data": 10,
    "finished.verify_data != self._expected_verify_data": 11,
    "binder != expected_binder": 12,
    "self._key_schedule_psk is None or peer_hello.pre_shared_key != 0 or cipher_suite != self._key_schedule_psk.cipher_suite": 13,
    "peer_hello.compression_method not in self._legacy_compression_methods": 14,
    "peer_hello.supported_version not in self._supported_versions": 15,
    "verify.algorithm not in self._signature_algorithms": 16,
    "not key_matches": 17,
    "not certificate.certificates": 18,
    "peer_hello.key_share is None": 19,
    "shared_key is None": 20,
    "self._alpn_protocols is not None": 21,
    "signature_algorithm": 22,
    "session_ticket is not None and session_ticket.is_valid and (session_ticket.cipher_suite == cipher_suite)": 23,
    "self.get_session_ticket_cb is not None and psk_key_exchange_mode is not None and (peer_hello.pre_shared_key is not None) and (len(peer_hello.pre_shared_key.identities) == 1) and (len(peer_hello.pre_shared_key.binders) == 1)": 24,
    "self.alpn_cb": 25,
    "self.certificate is not None and self.certificate_private_key is not None": 26,
    "self.new_session_ticket_cb is not None and self._psk_key_exchange_mode is not None": 27,
    "self.new_session_ticket_cb is not None": 28,
    "self.session_ticket.max_early_data_size is not None": 29,
}


def is_self_attr(node, name=None):
    return (isinstance(node, ast.Attribute) and isinstance(node.value, ast.Name) and node.value.id == "self"
            and (name is None or node.attr == name))


def enum_ref(node, enum):
    if isinstance(node, ast.Attribute) and isinstance(node.value, ast.Name) and node.value.id == enum:
        return node.attr
    return None


def bytes_lit(b):
    return "[" + "; ".join(str(x) for x in b) + "]"


class Walk:
    def __init__(self, methods, alerts, states, dirs, epochs):
        self.methods, self.alerts = methods, alerts
        self.states, self.dirs, self.epochs = states, dirs, epochs
        self.other = 0

    def alert_of(self, node):
        exc = node.func if isinstance(node, ast.Call) else node
        if isinstance(exc, ast.Name) and exc.id in self.alerts:
            return self.alerts[exc.id]
        return None

    def has_events(self, name, seen):
        if name in seen or name not in self.methods:
            return False
        saved = self.other
        try:
            return bool(self.block(self.methods[name].body, tuple(seen) + (name,)))
        finally:
            self.other = saved

    def call_event(self, sub, seen):
        f = sub.func
        txt = ast.unparse(sub)
        if isinstance(f, ast.Attribute) and f.attr == "update_hash":
            if len(sub.args) != 1:
                fail(sub, "update_hash arity")
            a = ast.unparse(sub.args[0])
            if a == "input_buf.data":
                return ["THash 0"]
            if a == "buf.data":
                return ["THash 4"]
            if a in ("input_buf.data_slice(0, hash_offset)", "tmp_buf.data_slice(0, hash_offset)"):
                return ["THash 2"]
            if a in ("input_buf.data_slice(hash_offset, hash_offset + 3 + binder_length)",
                     "tmp_buf.data_slice(hash_offset, hash_offset + 3) + binder"):
                return ["THash 3"]
            fail(sub, "update_hash of something the model does not know: " + a)
        if isinstance(f, ast.Name) and f.id == "KeySchedule":
            a = ast.unparse(sub.args[0]) if sub.args else ""
            k = {"cipher_suite": 0, "self.session_ticket.cipher_suite": 1}.get(a)
            if k is None:
                fail(sub, "KeySchedule(%s)" % a)
            return ["TNewKs %d" % k]
        if isinstance(f, ast.Name) and f.id == "KeyScheduleProxy":
            if ast.unparse(sub.args[0]) != "self._cipher_suites":
                fail(sub, "KeyScheduleProxy argument")
            return ["TNewProxy"]
        if isinstance(f, ast.Attribute) and f.attr == "select" and "_key_schedule_proxy" in txt:
            return ["TSelect"]
        if isinstance(f, ast.Attribute) and f.attr == "extract":
            a = ast.unparse(sub.args[0]) if sub.args else "None"
            k = {"None": 0, "shared_key": 1, "self.session_ticket.resumption_secret": 2,
                 "session_ticket.resumption_secret": 2}.get(a)
            if k is None:
                fail(sub, "extract(%s)" % a)
            return ["TExtract %d" % k]
        if isinstance(f, ast.Attribute) and f.attr == "derive_secret":
            if len(sub.args) != 1 or not (isinstance(sub.args[0], ast.Constant) and isinstance(sub.args[0].value, bytes)):
                fail(sub, "derive_secret with a non-literal label")
            return ["TDerive %s" % bytes_lit(sub.args[0].value)]
        if is_self_attr(f, "_setup_traffic_protection"):
            if len(sub.args) != 3 or not (isinstance(sub.args[2], ast.Constant) and isinstance(sub.args[2].value, bytes)):
                fail(sub, "_setup_traffic_protection with a non-literal label")
            d, e = enum_ref(sub.args[0], "Direction"), enum_ref(sub.args[1], "Epoch")
            if d not in self.dirs or e not in self.epochs:
                fail(sub, "non-literal direction / epoch")
            return ["TKey %d %d %s" % (self.dirs[d], self.epochs[e], bytes_lit(sub.args[2].value))]
        if is_self_attr(f, "update_traffic_key_cb"):
            d, e = enum_ref(sub.args[0], "Direction"), enum_ref(sub.args[1], "Epoch")
            if d not in self.dirs or e not in self.epochs:
                fail(sub, "non-literal direction / epoch")
            return ["TKeyCb %d %d" % (self.dirs[d], self.epochs[e])]
        if isinstance(f, ast.Attribute) and f.attr == "finished_verify_data":
            a = ast.unparse(sub.args[0])
            k = {"self._dec_key": 0, "self._enc_key": 1, "binder_key": 2}.get(a)
            if k is None:
                fail(sub, "finished_verify_data(%s)" % a)
            return ["TFinVD %d" % k]
        if isinstance(f, ast.Attribute) and f.attr == "certificate_verify_data":
            a = ast.unparse(sub.args[0])
            k = {"SERVER_CONTEXT_STRING": 0, "CLIENT_CONTEXT_STRING": 1,
                 "SERVER_CONTEXT_STRING if self._is_client else CLIENT_CONTEXT_STRING": 2}.get(a)
            if k is None:
                fail(sub, "certificate_verify_data(%s)" % a)
            return ["TCvData %d" % k]
        if isinstance(f, ast.Attribute) and f.attr == "sign" and "certificate_private_key" in txt:
            return ["TSign"]
        if isinstance(f, ast.Attribute) and f.attr == "verify" and ast.unparse(f.value) == "public_key":
            return ["TVerify"]
        if isinstance(f, ast.Name) and f.id == "verify_certificate":
            return ["TCheckCert"]
        if isinstance(f, ast.Name) and f.id in PULLS:
            return ["TPull %d" % PULLS.index(f.id)]
        if isinstance(f, ast.Name) and f.id in PUSHES:
            return ["TPush %d" % PUSHES.index(f.id)]
        if isinstance(f, ast.Name) and f.id == "hkdf_expand_label":
            lab = next((k.value for k in sub.keywords if k.arg == "label"), None)
            if not (isinstance(lab, ast.Constant) and isinstance(lab.value, bytes)):
                fail(sub, "hkdf_expand_label with a non-literal label")
            return ["TExpand %s" % bytes_lit(lab.value)]
        if isinstance(f, ast.Name) and f.id == "negotiate":
            if len(sub.args) < 2:
                fail(sub, "negotiate arity")
            s, o = ast.unparse(sub.args[0]), ast.unparse(sub.args[1])
            if s not in NEG_ARGS or o not in NEG_ARGS:
                fail(sub, "negotiate(%s, %s): unknown lists" % (s, o))
            exc = sub.args[2] if len(sub.args) >= 3 else next((k.value for k in sub.keywords if k.arg == "exc"), None)
            a = -1
            if exc is not None:
                a = self.alert_of(exc)
                if a is None:
                    fail(sub, "negotiate() with an exception that is not a known Alert class")
            return ["TNegotiate %d %d (%d)" % (NEG_ARGS[s], NEG_ARGS[o], a)]
        if is_self_attr(f, "_set_state"):
            n = enum_ref(sub.args[0], "State")
            if n not in self.states:
                fail(sub, "_set_state argument")
            return ["TSet %s" % n]
        if is_self_attr(f, "alpn_cb"):
            return ["TAlpnCb"]
        if is_self_attr(f) and f.attr in self.methods and f.attr not in seen and f.attr not in ("_set_state", "_setup_traffic_protection"):
            if self.has_events(f.attr, seen):
                return self.block(self.methods[f.attr].body, tuple(seen) + (f.attr,))
        return []

    def calls(self, node, seen):
        ev = []
        # post-order would put arguments first; source order by position is what the reader sees, but an inner call
        # (argument) is evaluated before the outer one: sort by end position
        subs = [n for n in ast.walk(node) if isinstance(n, ast.Call)]
        subs.sort(key=lambda n: (n.end_lineno, n.end_col_offset))
        for sub in subs:
            ev += self.call_event(sub, seen)
        return ev

    def cond(self, test):
        txt = ast.unparse(test)
        if txt in CONDS:
            return CONDS[txt]
        self.other += 1
        return 1000 + self.other

    def block(self, stmts, seen):
        ev = []
        for st in stmts:
            if isinstance(st, ast.If):
                ev += self.calls(st.test, seen)
                a = self.block(st.body, seen)
                b = self.block(st.orelse, seen)
                if a or b:
                    ev.append("TIf %d [%s] [%s]" % (self.cond(st.test), "; ".join(a), "; ".join(b)))
            elif isinstance(st, ast.With):
                pm = False
                for it in st.items:
                    ce = it.context_expr
                    if isinstance(ce, ast.Call) and isinstance(ce.func, ast.Name) and ce.func.id == "push_message":
                        a0 = ast.unparse(ce.args[0])
                        if a0 not in ("self.key_schedule", "self._key_schedule_proxy"):
                            fail(st, "push_message on " + a0)
                        pm = True
                    else:
                        ev += self.calls(ce, seen)
                ev += self.block(st.body, seen)
                if pm:
                    ev.append("THash 1")
            elif isinstance(st, ast.For):
                inner = self.calls(st.iter, seen) + self.block(st.body, seen) + self.block(st.orelse, seen)
                if inner:
                    self.other += 1
                    ev.append("TIf %d [%s] []" % (1000 + self.other, "; ".join(inner)))
            elif isinstance(st, ast.Try):
                ev += self.block(st.body, seen)
                for h in st.handlers:
                    inner = self.block(h.body, seen)
                    if inner:
                        self.other += 1
                        ev.append("TIf %d [%s] []" % (1000 + self.other, "; ".join(inner)))
                ev += self.block(st.orelse, seen) + self.block(st.finalbody, seen)
            elif isinstance(st, ast.Raise):
                a = self.alert_of(st.exc) if st.exc is not None else None
                if a is None:
                    fail(st, "raise of something that is not a known Alert class")
                ev.append("TRaise %d" % a)
            elif isinstance(st, ast.Return):
                if st.value is not None:
                    ev += self.calls(st.value, seen)
            elif isinstance(st, ast.Assert):
                ev += self.calls(st, seen)
                if "generation" in ast.unparse(st):
                    ev.append("TAssertGen")
            elif isinstance(st, (ast.Assign, ast.AnnAssign, ast.AugAssign)):
                if getattr(st, "value", None) is not None:
                    ev += self.calls(st.value, seen)
                targets = st.targets if isinstance(st, ast.Assign) else [st.target]
                for t in targets:
                    if is_self_attr(t, "key_schedule"):
                        v = ast.unparse(st.value)
                        k = {"self._key_schedule_psk": 1}.get(v, 0 if "KeySchedule(" in v or "select(" in v else None)
                        if k is None:
                            fail(st, "self.key_schedule = " + v)
                        ev.append("TAssignKs %d" % k)
                    elif is_self_attr(t, "_session_resumed"):
                        ev.append("TResumed")
                    elif is_self_attr(t, "_enc_key") or is_self_attr(t, "_dec_key"):
                        ev.append("TAssignKey %d" % (1 if t.attr == "_enc_key" else 0))
                    elif is_self_attr(t, "alpn_negotiated"):
                        ev.append("TAlpn")
            elif isinstance(st, ast.Expr):
                ev += self.calls(st.value, seen)
            elif isinstance(st, ast.Pass):
                continue
            else:
                txt = ast.dump(st)
                if any(k in txt for k in ("update_hash", "derive_secret", "extract", "Raise(", "finished_verify_data", "negotiate")):
                    fail(st, "tracked call inside an unsupported statement: " + ast.unparse(st)[:60])
        return ev


# pinned text of the small pure pieces the model's ks_* / negotiate were transcribed from (ast.unparse normal form)
PINNED = {
    "KeySchedule.certificate_verify_data": "return b' ' * 64 + context_string + b'\\x00' + self.hash.copy().finalize()",
    "KeySchedule.finished_verify_data": "hmac_key = hkdf_expand_label(algorithm=self.algorithm, secret=secret, label=b'finished', hash_value=b'', length=self.algorithm.digest_size)\nh = hmac.HMAC(hmac_key, algorithm=self.algorithm)\nh.update(self.hash.copy().finalize())\nreturn h.finalize()",
    "KeySchedule.derive_secret": "return hkdf_expand_label(algorithm=self.algorithm, secret=self.secret, label=label, hash_value=self.hash.copy().finalize(), length=self.algorithm.digest_size)",
    "KeySchedule.extract": "if key_material is None:\n    key_material = bytes(self.algorithm.digest_size)\nif self.generation:\n    self.secret = hkdf_expand_label(algorithm=self.algorithm, secret=self.secret, label=b'derived', hash_value=self.hash_empty_value, length=self.algorithm.digest_size)\nself.generation += 1\nself.secret = hkdf_extract(algorithm=self.algorithm, salt=self.secret, key_material=key_material)",
    "KeySchedule.update_hash": "self.hash.update(data)",
    "KeySchedule.__init__": "self.algorithm = cipher_suite_hash(cipher_suite)\nself.cipher_suite = cipher_suite\nself.generation = 0\nself.hash = hashes.Hash(self.algorithm)\nself.hash_empty_value = self.hash.copy().finalize()\nself.secret = bytes(self.algorithm.digest_size)",
    "KeyScheduleProxy.__init__": "self.__schedules = dict(map(lambda c: (c, KeySchedule(c)), cipher_suites))",
    "KeyScheduleProxy.extract": "for k in self.__schedules.values():\n    k.extract(key_material)",
    "KeyScheduleProxy.select": "return self.__schedules[cipher_suite]",
    "KeyScheduleProxy.update_hash": "for k in self.__schedules.values():\n    k.update_hash(data)",
    "negotiate": "if offered is not None:\n    for c in supported:\n        if c in offered:\n            return c\nif exc is not None:\n    raise exc\nreturn None",
    "push_message": "hash_start = buf.tell()\nyield\nkey_schedule.update_hash(buf.data_slice(hash_start, buf.tell()))",
    "cipher_suite_hash": "return CIPHER_SUITES[cipher_suite]()",
    "is_version_compatible": "return set([from_version, to_version]) == set([QuicProtocolVersion.VERSION_1, QuicProtocolVersion.VERSION_2])",
}


def body_text(fn):
    body = [s for s in fn.body if not (isinstance(s, ast.Expr) and isinstance(s.value, ast.Constant) and isinstance(s.value.value, str))]
    return "\n".join(ast.unparse(s) for s in body)


def check_pinned(name, fn):
    got = body_text(fn)
    if got != PINNED[name]:
        raise Untranslatable("%s changed; the model's transcription is stale.\n--- now:\n%s\n--- modelled:\n%s" % (name, got, PINNED[name]))


# transport-parameter checks: recognised (condition text -> id), in order, with the error code name
TP_CONDS = {
    "quic_transport_parameters.initial_source_connection_id != self._remote_initial_source_connection_id": 1,
    "self._is_client and quic_transport_parameters.original_destination_connection_id != self._original_destination_connection_id": 2,
    "self._is_client and quic_transport_parameters.retry_source_connection_id != self._retry_source_connection_id": 3,
    "not self._is_client and version_information.chosen_version not in version_information.available_versions": 4,
    "version_information.chosen_version != self._crypto_packet_version": 5,
    "getattr(quic_transport_parameters, attr) is not None": 6,
}
QERR = {"TRANSPORT_PARAMETER_ERROR": 8, "VERSION_NEGOTIATION_ERROR": 17}


def tp_checks(fn, qerr_values):
    """ordered list of (cond id, error code) of the identity / version raise sites"""
    out = []

    def walk(stmts):
        for st in stmts:
            if isinstance(st, ast.If):
                txt = ast.unparse(st.test)
                raises = [s for s in st.body if isinstance(s, ast.Raise)]
                if raises and txt in TP_CONDS:
                    r = raises[0]
                    code = None
                    for k in r.exc.keywords:
                        if k.arg == "error_code":
                            code = enum_ref(k.value, "QuicErrorCode")
                    if code not in qerr_values:
                        fail(r, "error code of a transport-parameter check")
                    out.append((TP_CONDS[txt], qerr_values[code]))
                walk(st.body)
                walk(st.orelse)
            elif isinstance(st, (ast.For, ast.With, ast.Try)):
                walk(st.body)
    walk(fn.body)
    return out


def analyse():
    tls_path = os.path.join(REPO, "src", "aioquic", "tls.py")
    tree = ast.parse(open(tls_path).read())
    classes = {n.name: n for n in tree.body if isinstance(n, ast.ClassDef)}
    funcs = {n.name: n for n in tree.body if isinstance(n, ast.FunctionDef)}
    for need in ("State", "AlertDescription", "Direction", "Epoch", "Context", "KeySchedule", "KeyScheduleProxy", "CipherSuite",
                 "SignatureAlgorithm"):
        if need not in classes:
            raise Untranslatable("class %s not found in tls.py" % need)

    def members(cls):
        out = {}
        for st in classes[cls].body:
            if isinstance(st, ast.Assign) and isinstance(st.targets[0], ast.Name) and isinstance(st.value, ast.Constant):
                out[st.targets[0].id] = st.value.value
        return out
    states, descs, dirs, epochs = members("State"), members("AlertDescription"), members("Direction"), members("Epoch")
    suites, sigs = members("CipherSuite"), members("SignatureAlgorithm")
    alerts = {}
    for c in classes.values():
        if any(isinstance(b, ast.Name) and b.id == "Alert" for b in c.bases):
            for st in c.body:
                if isinstance(st, ast.Assign) and isinstance(st.targets[0], ast.Name) and st.targets[0].id == "description":
                    alerts[c.name] = descs[enum_ref(st.value, "AlertDescription")]
    # pinned pure pieces
    for cname in ("KeySchedule", "KeyScheduleProxy"):
        ms = {n.name: n for n in classes[cname].body if isinstance(n, ast.FunctionDef)}
        for key in PINNED:
            if key.startswith(cname + "."):
                m = key.split(".", 1)[1]
                if m not in ms:
                    raise Untranslatable(key + " missing")
                check_pinned(key, ms[m])
        extra = set(ms) - {k.split(".", 1)[1] for k in PINNED if k.startswith(cname + ".")}
        if extra:
            raise Untranslatable("%s has methods the model does not know: %s" % (cname, sorted(extra)))
    for f in ("negotiate", "push_message", "cipher_suite_hash"):
        if f not in funcs:
            raise Untranslatable(f + " missing")
        check_pinned(f, funcs[f])
    # tables
    tables = {}
    for st in tree.body:
        tgt = None
        if isinstance(st, ast.AnnAssign) and isinstance(st.target, ast.Name):
            tgt = st.target.id
        elif isinstance(st, ast.Assign) and isinstance(st.targets[0], ast.Name):
            tgt = st.targets[0].id
        if tgt in ("CIPHER_SUITES", "SIGNATURE_ALGORITHMS", "SERVER_CONTEXT_STRING", "CLIENT_CONTEXT_STRING"):
            tables[tgt] = st.value
    hash_id = {"hashes.SHA256": 1, "hashes.SHA384": 2}
    cs = []
    for k, v in zip(tables["CIPHER_SUITES"].keys, tables["CIPHER_SUITES"].values):
        n = enum_ref(k, "CipherSuite")
        if n not in suites or ast.unparse(v) not in hash_id:
            raise Untranslatable("CIPHER_SUITES entry " + ast.unparse(k))
        cs.append((suites[n], hash_id[ast.unparse(v)]))
    sk = []
    for k, v in zip(tables["SIGNATURE_ALGORITHMS"].keys, tables["SIGNATURE_ALGORITHMS"].values):
        n = enum_ref(k, "SignatureAlgorithm")
        pad = ast.unparse(v.elts[0])
        if n not in sigs or pad not in ("None", "padding.PKCS1v15", "padding.PSS"):
            raise Untranslatable("SIGNATURE_ALGORITHMS entry " + ast.unparse(k))
        sk.append((sigs[n], 2 if pad == "None" else 1))
    sk += [(sigs["ED25519"], 3), (sigs["ED448"], 4)]
    ctxs = {}
    for n in ("SERVER_CONTEXT_STRING", "CLIENT_CONTEXT_STRING"):
        if n not in tables or not isinstance(tables[n], ast.Constant) or not isinstance(tables[n].value, bytes):
            raise Untranslatable(n + " is not a bytes literal")
        ctxs[n] = tables[n].value
    # skeletons
    methods = {n.name: n for n in classes["Context"].body if isinstance(n, ast.FunctionDef)}
    handlers = ["_client_send_hello"] + [n for n in methods if n.startswith("_client_handle_") or n.startswith("_server_handle_")]
    w = Walk(methods, alerts, states, dirs, epochs)
    skels = {}
    for h in handlers:
        w.other = 0
        skels[h] = w.block(methods[h].body, (h,))
    # connection.py
    cpath = os.path.join(REPO, "src", "aioquic", "quic", "connection.py")
    ctree = ast.parse(open(cpath).read())
    cfuncs = {n.name: n for n in ctree.body if isinstance(n, ast.FunctionDef)}
    if "is_version_compatible" not in cfuncs:
        raise Untranslatable("is_version_compatible missing")
    check_pinned("is_version_compatible", cfuncs["is_version_compatible"])
    qc = next((n for n in ctree.body if isinstance(n, ast.ClassDef) and n.name == "QuicConnection"), None)
    if qc is None:
        raise Untranslatable("QuicConnection missing")
    qm = {n.name: n for n in qc.body if isinstance(n, ast.FunctionDef)}
    # QuicErrorCode values from packet.py
    ptree = ast.parse(open(os.path.join(REPO, "src", "aioquic", "quic", "packet.py")).read())
    qerr = {}
    for n in ptree.body:
        if isinstance(n, ast.ClassDef) and n.name == "QuicErrorCode":
            for st in n.body:
                if isinstance(st, ast.Assign) and isinstance(st.value, ast.Constant):
                    qerr[st.targets[0].id] = st.value.value
    for k, v in QERR.items():
        if qerr.get(k) != v:
            raise Untranslatable("QuicErrorCode.%s = %r" % (k, qerr.get(k)))
    tpc = tp_checks(qm["_parse_transport_parameters"], qerr)
    src_alpn = ast.unparse(qm["_alpn_handler"])
    for needle in ("for version in self._remote_version_information.available_versions:",
                   "if version == self._version:",
                   "elif version in self._configuration.supported_versions and is_version_compatible(self._version, version):",
                   "self._version = version"):
        if needle not in src_alpn:
            raise Untranslatable("_alpn_handler: expected `%s`" % needle)
    src_vn = ast.unparse(qm["_receive_version_negotiation_packet"])
    for needle in ("if self._version in header.supported_versions:",
                   "common = [x for x in self._configuration.supported_versions if x in header.supported_versions]",
                   "chosen_version = common[0] if common else None",
                   "self._version = chosen_version"):
        if needle not in src_vn:
            raise Untranslatable("_receive_version_negotiation_packet: expected `%s`" % needle)
    src_utk = ast.unparse(qm["_update_traffic_key"])
    if "self._version = self._crypto_packet_version" not in src_utk:
        raise Untranslatable("_update_traffic_key no longer adopts the version of the crypto packet")
    pver = {}
    for n in ptree.body:
        if isinstance(n, ast.ClassDef) and n.name == "QuicProtocolVersion":
            for st in n.body:
                if isinstance(st, ast.Assign) and isinstance(st.value, ast.Constant):
                    pver[st.targets[0].id] = st.value.value
    return dict(handlers=handlers, skels=skels, cs=cs, sk=sk, ctxs=ctxs, tpc=tpc, pver=pver, states=states)


def render(a):
    o = []
    w = o.append
    w("(* GENERATED by tools/gen/c03_transcript.py from src/aioquic/tls.py and quic/connection.py -- do not edit *)")
    w("From AQ Require Import lib.Base gen.TlsDispatch.")
    w("")
    w("Inductive tev : Set :=")
    w("| TPull (what : Z) | TPush (what : Z) | THash (src : Z) | TNewKs (k : Z) | TNewProxy | TSelect | TExtract (arg : Z)")
    w("| TDerive (label : list Z) | TExpand (label : list Z) | TKey (d e : Z) (label : list Z) | TKeyCb (d e : Z)")
    w("| TFinVD (key : Z) | TCvData (ctx : Z) | TSign | TVerify | TCheckCert | TNegotiate (supported offered alert : Z)")
    w("| TRaise (alert : Z) | TSet (s : State) | TAlpnCb | TAssertGen | TAssignKs (k : Z) | TResumed | TAssignKey (enc : Z) | TAlpn")
    w("| TIf (c : Z) (a b : list tev).")
    w("")
    w("Inductive thandler : Set := " + " | ".join("T" + h for h in a["handlers"]) + ".")
    w("Definition transcript_skeleton (h : thandler) : list tev :=")
    w("  match h with")
    for h in a["handlers"]:
        w("  | T%s =>\n      [%s]" % (h, ";\n       ".join(a["skels"][h])))
    w("  end.")
    w("")
    w("Definition gen_cipher_suites : list (Z * Z) := [" + "; ".join("(%d, %d)" % p for p in a["cs"]) + "].")
    w("Definition gen_sig_kinds : list (Z * Z) := [" + "; ".join("(%d, %d)" % p for p in a["sk"]) + "].")
    w("Definition gen_server_context_string : list Z := %s." % bytes_lit(a["ctxs"]["SERVER_CONTEXT_STRING"]))
    w("Definition gen_client_context_string : list Z := %s." % bytes_lit(a["ctxs"]["CLIENT_CONTEXT_STRING"]))
    w("Definition gen_tp_checks : list (Z * Z) := [" + "; ".join("(%d, %d)" % p for p in a["tpc"]) + "].")
    w("Definition gen_version_1 : Z := %d." % a["pver"]["VERSION_1"])
    w("Definition gen_version_2 : Z := %d." % a["pver"]["VERSION_2"])
    return "\n".join(o) + "\n"


def generate():
    text = render(analyse())
    os.makedirs(os.path.dirname(OUT), exist_ok=True)
    try:
        if open(OUT).read() == text:
            return
    except FileNotFoundError:
        pass
    tmp = OUT + ".tmp%d" % os.getpid()
    with open(tmp, "w") as f:
        f.write(text)
    os.replace(tmp, OUT)


generate.__name__ = "c03_transcript"

if __name__ == "__main__":
    try:
        generate()
    except Untranslatable as e:
        print("UNTRANSLATABLE:", e)
        sys.exit(1)
    print(open(OUT).read())
