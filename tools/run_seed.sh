#!/bin/bash
# run_seed.sh Cxx seedN [check-id] [tier]: run ./check against a scratch worktree of /repo (branch given by
# SEED_BASE, default: fixes if it exists, else HEAD) with the seeded change applied.
P=$1; S=$2; C=${3:-$1}; T=${4:-quick}
BASE=${SEED_BASE:-$(git -C /repo rev-parse --verify -q fixes >/dev/null && echo fixes || echo HEAD)}
WT=$(mktemp -d /tmp/seedrun-XXXX); rmdir $WT
git -C /repo worktree add -q --detach $WT $BASE || exit 2
(cd $WT && (git apply /verif/seeded/$P/$S/patch.diff 2>/dev/null || git apply -3 /verif/seeded/$P/$S/patch.diff 2>/dev/null)) || { echo "$P/$S: patch does not apply on $BASE"; git -C /repo worktree remove --force $WT; exit 3; }
VERIF_REPO=$WT /verif/check $C --tier $T > /verif/seeded/$P/$S/check_$C.log 2>&1; RC=$?
git -C /repo worktree remove --force $WT
echo "$P/$S check=$C base=$BASE rc=$RC $(grep -c '^VIOLATION' /verif/seeded/$P/$S/check_$C.log) violation lines; $(grep -h '\[verif\]' /verif/seeded/$P/$S/check_$C.log | head -2 | tr '\n' '|' | cut -c1-220)"
