#!/bin/bash
# run_seed.sh Cxx seedN [check-id] [tier]: run ./check against a scratch worktree of /repo with the seeded change applied.
P=$1; S=$2; C=${3:-$1}; T=${4:-quick}
WT=$(mktemp -d /tmp/seedrun-XXXX); rmdir $WT
git -C /repo worktree add -q --detach $WT HEAD || exit 2
git -C $WT apply /verif/seeded/$P/$S/patch.diff || { git -C /repo worktree remove --force $WT; exit 3; }
VERIF_REPO=$WT /verif/check $C --tier $T > /verif/seeded/$P/$S/check_$C.log 2>&1; RC=$?
git -C /repo worktree remove --force $WT
echo "$P/$S check=$C rc=$RC $(grep -c '^VIOLATION' /verif/seeded/$P/$S/check_$C.log) violation lines"
