#!/bin/bash
# run_benign.sh [name ...]: for every property-PRESERVING change under seeded/benign/<name>/patch.diff run the quick check of
# every property anchored in a file the change touches (properties.jsonl anchors.files), against a scratch worktree of /repo
# HEAD with the change applied.  One line per (change, property) in seeded/BENIGN.tsv:
#   clean            exit 0, no VIOLATION line                         (what one hopes for)
#   tie-broken       every VIOLATION line ends with no-failing-input-found (allowed: the proof/correspondence no longer checks)
#   FALSE-ALARM      a VIOLATION line with a concrete replay            (must be repaired in the machinery)
cd "$(dirname "$0")/.." || exit 2
V=$(pwd); OUT=${OUT:-$V/seeded/BENIGN.tsv}; : > $OUT
NAMES=${@:-$(ls seeded/benign)}
for N in $NAMES; do D=seeded/benign/$N
  if [ -f $D/props ]; then PO=$(cat $D/props); else PO=$PROPS_OVERRIDE; fi
  PROPS=${PO:-$(python3 - "$V" "$D/patch.diff" <<'EOF'
import json,re,sys
V,patch=sys.argv[1:3]
files=set(re.findall(r'^\+\+\+ b/(\S+)',open(patch).read(),re.M))
out=[]
for l in open(V+'/properties.jsonl'):
    p=json.loads(l)
    if files & set(p['anchors']['files']): out.append(p['id'])
print(' '.join(out))
EOF
)}
  for P in $PROPS; do
    WT=$(mktemp -d /tmp/benignrun-XXXX); rmdir $WT
    git -C /repo worktree add -q --detach $WT HEAD || continue
    if ! (cd $WT && git apply $V/$D/patch.diff 2>/dev/null); then echo -e "$N\t$P\tNOAPPLY" >> $OUT; git -C /repo worktree remove --force $WT; continue; fi
    T0=$(date +%s)
    VERIF_REPO=$WT timeout 1800 ./check $P --tier quick > $V/$D/check_$P.log 2>&1; RC=$?
    T1=$(date +%s)
    git -C /repo worktree remove --force $WT
    NV=$(grep -c '^VIOLATION' $V/$D/check_$P.log); NF=$(grep '^VIOLATION' $V/$D/check_$P.log | grep -c 'no-failing-input-found$')
    if [ $RC = 0 ] && [ $NV = 0 ]; then verdict=clean; elif [ $NV -gt 0 ] && [ $NV = $NF ]; then verdict=tie-broken; else verdict=FALSE-ALARM; fi
    echo -e "$N\t$P\t$verdict\trc=$RC\tviolations=$NV\tno_input=$NF\t$((T1-T0))s\t$(grep -h '^VIOLATION' $V/$D/check_$P.log | grep -v 'no-failing-input-found$' | head -1 | cut -c1-160)" >> $OUT
  done
done
cat $OUT
