#!/usr/bin/env python3
"""Assemble MANIFEST.json from harness/props/cXX.meta.json (claimed) and not_applicable.json."""
import json, os, glob
ROOT = os.path.dirname(os.path.dirname(os.path.abspath(__file__)))
checks = []
claimed = set()
for p in sorted(glob.glob(os.path.join(ROOT, "harness", "props", "c*.meta.json"))):
    m = json.load(open(p))
    pid = m["property_id"]
    claimed.add(pid)
    checks.append({
        "property_id": pid,
        "quick_cmd": "./check %s --tier quick" % pid,
        "thorough_cmd": "./check %s --tier thorough" % pid,
        "evidence_file": "/verif/evidence/%s.json" % pid,
        "replay_cmd_template": "./check %s --replay {path}" % pid,
        "engine": "coq-proof+correspondence",
        "level_claimed": {"category": m.get("category", "proof"), "text": m["level_text"], "design_ref": m.get("design_ref", "DESIGN.md section 5 (%s)" % pid)},
        "level_note": m["level_note"],
        "technique": m["technique"],
    })
na = json.load(open(os.path.join(ROOT, "not_applicable.json")))
props = [json.loads(l)["id"] for l in open(os.path.join(ROOT, "properties.jsonl"))]
na_list = []
for pid in props:
    if pid in claimed:
        continue
    na_list.append({"property_id": pid, "reason": na.get(pid, "not yet decided by a registered check in this tree: the Coq model/theorem for it is not finished (see DESIGN.md section 5 for the planned model); no other technique is substituted")})
man = {
    "version": 1,
    "setup_cmd": "./setup.sh",
    "hooks": {"guard": "AIOQUIC_VERIF", "enable": "no hooks are needed: checks build an overlay of /repo's working tree (python symlinked, C helpers compiled) and observe public API only",
              "baseline_off_cmd": "cd /repo && /venv/bin/python -m pytest -ra -q -p no:cacheprovider --timeout=900 --continue-on-collection-errors",
              "source_commits": [], "add_only": True},
    "engines": [{"name": "coq-proof+correspondence", "path": "/verif/check", "serves_properties": sorted(claimed),
                 "kind_free_text": "Coq 8.16 theorems about hand-written Gallina models (coq/props), tied to /repo on every run by generated fragments (tools/gen) and by a correspondence harness running the extracted models against the implementation (harness/)"}],
    "checks": checks,
    "not_applicable": na_list,
    "notes": "All checks rebuild from /repo's working tree on every run (overlay + C compile + regenerated Coq fragments + make). See DESIGN.md.",
}
json.dump(man, open(os.path.join(ROOT, "MANIFEST.json"), "w"), indent=1)
print("claimed:", sorted(claimed))
