#!/bin/bash
# verify_seed3.sh <property> [round-dir=/tmp/seed3] [seed-name=seed3]: confirm a seeded change written by a sub-agent in its
# scratch worktree <round-dir>/<property> (deliverables in seed_out/), then import it as /verif/seeded/<property>/<seed-name>.
P=$1; R=${2:-/tmp/seed3}; N=${3:-seed3}; WT=$R/$P; D=$WT/seed_out
cd $WT || exit 2
[ -f $D/patch.diff ] && [ -f $D/demo.py ] || { echo "$P: deliverables missing"; exit 2; }
TMP=$(mktemp -d /tmp/vs3-XXXX); cp -r $D/. $TMP/
git checkout -q -- . ; git clean -fdq -e seed_out src tests; cp $R/so/*.so src/aioquic/
git apply --check $TMP/patch.diff || { echo "$P: patch does not apply"; rm -rf $TMP; exit 1; }
git apply $TMP/patch.diff
INC=$(/venv/bin/python -c "import sysconfig;print(sysconfig.get_paths()['include'])")
if grep -q '_buffer.c' $TMP/patch.diff; then gcc -O2 -shared -fPIC -std=c99 -DPy_LIMITED_API=0x030A0000 -I$INC src/aioquic/_buffer.c -o src/aioquic/_buffer.abi3.so || exit 3; fi
if grep -q '_crypto.c' $TMP/patch.diff; then gcc -O2 -shared -fPIC -std=c99 -DPy_LIMITED_API=0x030A0000 -I$INC src/aioquic/_crypto.c -o src/aioquic/_crypto.abi3.so -lcrypto || exit 3; fi
T=$(PYTHONPATH=$WT/src timeout 1500 /venv/bin/python -m pytest -q -p no:cacheprovider --timeout=900 tests 2>&1 | tail -1)
(cd $TMP && PYTHONPATH=$WT/src PYTHONHASHSEED=0 timeout 600 /venv/bin/python demo.py > demo_with.log 2>&1); W=$?
git checkout -q -- . ; cp $R/so/*.so src/aioquic/
(cd $TMP && PYTHONPATH=$WT/src PYTHONHASHSEED=0 timeout 600 /venv/bin/python demo.py > demo_without.log 2>&1); WO=$?
/venv/bin/python - "$T" $W $WO $TMP $P $N <<'PY'
import sys, json, os, shutil
t, w, wo, tmp, p, n = sys.argv[1], int(sys.argv[2]), int(sys.argv[3]), sys.argv[4], sys.argv[5], sys.argv[6]
ok = (" passed" in t and "failed" not in t and "error" not in t.lower()) and w != 0 and wo == 0
print(p, "OK" if ok else "REJECTED", "| tests:", t, "| demo with:", w, "without:", wo)
if ok:
    dst = "/verif/seeded/%s/%s" % (p, n)
    os.makedirs(dst, exist_ok=True)
    for f in ("patch.diff", "demo.py"):
        shutil.copy(os.path.join(tmp, f), dst)
    try:
        meta = json.load(open(os.path.join(tmp, "meta.json")))
    except Exception:
        meta = {"property": p}
    meta["base"] = "repo HEAD with the fix commits (not the pinned tree)"
    meta["confirmed_by_me"] = {"how": "tools/verify_seed3.sh in the scratch worktree: patch applies to a clean checkout; full pytest suite with the change; demo.py with and without the change",
                               "tests_with_change": t, "demo_with_change_exit": w, "demo_without_change_exit": wo,
                               "demo_with_change_tail": open(os.path.join(tmp, "demo_with.log")).read()[-600:]}
    json.dump(meta, open(os.path.join(dst, "meta.json"), "w"), indent=1)
PY
rm -rf $TMP
