#!/bin/bash
# verify_seed.sh <property> <seed-out-dir> : confirm a seeded change in its scratch worktree.
# (patch applies to pristine tree; existing suite passes with it; demo fails with it, passes without)
P=$1; D=$2; WT=/tmp/seed/$P
cd $WT || exit 2
git checkout -q -- . ; cp /repo/src/aioquic/*.so src/aioquic/
R=$D/verify.json
git apply --check $D/patch.diff || { echo '{"ok":false,"why":"patch does not apply"}' > $R; exit 1; }
git apply $D/patch.diff
INC=$(/venv/bin/python -c "import sysconfig;print(sysconfig.get_paths()['include'])")
if grep -q '_buffer.c' $D/patch.diff; then gcc -O1 -shared -fPIC -std=c99 -DPy_LIMITED_API=0x030A0000 -I$INC src/aioquic/_buffer.c -o src/aioquic/_buffer.abi3.so || exit 3; fi
if grep -q '_crypto.c' $D/patch.diff; then gcc -O1 -shared -fPIC -std=c99 -DPy_LIMITED_API=0x030A0000 -I$INC src/aioquic/_crypto.c -o src/aioquic/_crypto.abi3.so -lcrypto || exit 3; fi
T=$(PYTHONPATH=$WT/src timeout 1500 /venv/bin/python -m pytest -q -p no:cacheprovider --timeout=900 tests 2>&1 | tail -1)
(cd $D && PYTHONPATH=$WT/src timeout 600 /venv/bin/python demo.py > demo_with.log 2>&1); W=$?
git checkout -q -- . ; cp /repo/src/aioquic/*.so src/aioquic/
(cd $D && PYTHONPATH=$WT/src timeout 600 /venv/bin/python demo.py > demo_without.log 2>&1); WO=$?
python3 - "$T" $W $WO $R <<'PY'
import sys, json, re
t, w, wo, r = sys.argv[1], int(sys.argv[2]), int(sys.argv[3]), sys.argv[4]
ok = (" passed" in t and "failed" not in t and "error" not in t.lower()) and w != 0 and wo == 0
json.dump({"ok": ok, "tests": t, "demo_with_change_exit": w, "demo_without_change_exit": wo}, open(r, "w"))
print(r, ok, t, w, wo)
PY
