#!/bin/bash
# full_pass.sh [tier]: what `vp check` does — setup, then every claimed check's quick command once, sequentially — with a
# one-line summary per property (exit code, VIOLATION / KNOWN-FINDING lines, obligations/discharged, files that failed to build).
cd "$(dirname "$0")/.." || exit 2
T=${1:-quick}
# the environment of the real run: offline, VERIF_SEED=1 (override: SEED=n tools/full_pass.sh)
export CARGO_NET_OFFLINE=true GOPROXY=off PIP_NO_INDEX=1 VERIF_SEED=${SEED:-1} VERIF_TIER=$T
./setup.sh > /tmp/full_pass_setup.$$ 2>&1; echo "setup rc=$? $(tail -1 /tmp/full_pass_setup.$$)"; rm -f /tmp/full_pass_setup.$$
for P in $(python3 -c "import json; print(' '.join(c['property_id'] for c in json.load(open('MANIFEST.json'))['checks']))"); do
  rm -f evidence/$P.json
  T0=$(date +%s); ./check $P --tier $T > /tmp/full_pass_$P.$$ 2>&1; RC=$?; T1=$(date +%s)
  echo "$P rc=$RC $((T1-T0))s viol=$(grep -c '^VIOLATION' /tmp/full_pass_$P.$$) known=$(grep -c '^KNOWN-FINDING' /tmp/full_pass_$P.$$) $(python3 - $P <<'PY'
import json, sys
try:
    e = json.load(open("evidence/%s.json" % sys.argv[1])); c = e["coverage"]
    print("obl=%s dis=%s build_ok=%s failed=%s" % (c.get("obligations"), c.get("discharged"), c.get("build", {}).get("ok"), c.get("build", {}).get("failed")))
except Exception as ex:
    print("evidence: %r" % ex)
PY
)"
  grep '^VIOLATION' /tmp/full_pass_$P.$$ | head -3; rm -f /tmp/full_pass_$P.$$
done
# every evidence file must now be the valid record of a quiet run on /repo's tree (never commit evidence that fails this)
if command -v python3-vt >/dev/null 2>&1; then python3-vt tools/validate_evidence.py; else python3 tools/validate_evidence.py; fi
