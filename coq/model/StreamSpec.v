(* Abstract reference for the receive half of a stream: a simple offset -> byte map.
   Short enough to be checked against the English property (C10) in a minute. *)
From AQ Require Import lib.Base model.StreamRecv.

Definition nthZ (l : list Z) (i : Z) : Z := nth (Z.to_nat i) l 0.

Record rspec := mkRSpec {
  sp_map : Z -> option Z;   (* received, not yet delivered bytes (meaningful at offsets >= sp_del) *)
  sp_del : Z;               (* number of bytes delivered so far *)
  sp_final : option Z;      (* final size, once fixed by a FIN or a reset *)
  sp_hi : Z;                (* highest offset seen *)
  sp_reset : bool           (* a reset has been accepted *)
}.

Definition rspec_init : rspec := mkRSpec (fun _ => None) 0 None 0 false.

(* the maximal contiguous run of defined bytes starting at offset o *)
Fixpoint run (m : Z -> option Z) (o : Z) (fuel : nat) : list Z :=
  match fuel with
  | O => []
  | S f => match m o with Some b => b :: run m (o + 1) f | None => [] end
  end.

Definition spec_frame (sp : rspec) (off : Z) (data : list Z) (fin : bool) : rout * rspec :=
  let e := off + Zlen data in
  let bad := match sp_final sp with
             | Some f => (e >? f) || (fin && negb (e =? f))   (* data beyond, or FIN disagreeing with, the fixed final size *)
             | None => false end in
  if bad then (RFinalSizeError, sp) else
  let final' := if fin then Some e else sp_final sp in
  let hi' := if e >? sp_hi sp then e else sp_hi sp in
  (* last write wins for offsets not delivered yet; delivered offsets are ignored *)
  let m' := fun o => if (off <=? o) && (o <? e) && (sp_del sp <=? o) then Some (nthZ data (o - off)) else sp_map sp o in
  let d := run m' (sp_del sp) (Z.to_nat (hi' - sp_del sp)) in
  let del' := sp_del sp + Zlen d in
  let complete := opt_eqb final' del' in
  (match d, complete with [], false => RNone | _, _ => RData d complete end,
   mkRSpec m' del' final' hi' (sp_reset sp)).

Definition spec_reset (sp : rspec) (fs : Z) : rout * rspec :=
  match sp_final sp with
  | Some f => if negb (f =? fs) then (RFinalSizeError, sp)
              else (RReset, mkRSpec (sp_map sp) (sp_del sp) (Some fs) (sp_hi sp) true)
  | None => (RReset, mkRSpec (sp_map sp) (sp_del sp) (Some fs) (sp_hi sp) true)
  end.

Definition spec_finished (sp : rspec) : bool := sp_reset sp || opt_eqb (sp_final sp) (sp_del sp).

(* operations and traces; a trace ends with the first accepted reset (property C10:
   "until a reset is accepted") *)
Inductive rop := OFrame (off : Z) (data : list Z) (fin : bool) | OReset (fs : Z).

Definition recv_step (st : recv) (op : rop) : rout * recv :=
  match op with OFrame o d f => handle_frame st o d f | OReset fs => handle_reset st fs end.
Definition spec_step (sp : rspec) (op : rop) : rout * rspec :=
  match op with OFrame o d f => spec_frame sp o d f | OReset fs => spec_reset sp fs end.

Definition is_reset (o : rout) : bool := match o with RReset => true | _ => false end.

(* per-op observation: returned event / error, highest_offset, is_finished, starting_offset() *)
Fixpoint recv_trace (st : recv) (ops : list rop) : list (rout * (Z * bool * Z)) :=
  match ops with
  | [] => []
  | op :: t => let '(o, st') := recv_step st op in
               (o, (r_highest st', r_finished st', r_start st')) :: (if is_reset o then [] else recv_trace st' t)
  end.
Fixpoint spec_trace (sp : rspec) (ops : list rop) : list (rout * (Z * bool * Z)) :=
  match ops with
  | [] => []
  | op :: t => let '(o, sp') := spec_step sp op in
               (o, (sp_hi sp', spec_finished sp', sp_del sp')) :: (if is_reset o then [] else spec_trace sp' t)
  end.

(* whole-history observation that ignores the end marker: delivered bytes, FinalSizeError?, reset
   accepted?, highest_offset, starting_offset() *)
Definition bytes_of (o : rout) : list Z := match o with RData d _ => d | _ => [] end.
Definition is_fse (o : rout) : bool := match o with RFinalSizeError => true | _ => false end.
Definition wobs (o : rout) (h s : Z) := (bytes_of o, is_fse o, is_reset o, h, s).
Fixpoint recv_wtrace (st : recv) (ops : list rop) :=
  match ops with
  | [] => []
  | op :: t => let '(o, st') := recv_step st op in wobs o (r_highest st') (r_start st') :: recv_wtrace st' t
  end.
Fixpoint spec_wtrace (sp : rspec) (ops : list rop) :=
  match ops with
  | [] => []
  | op :: t => let '(o, sp') := spec_step sp op in wobs o (sp_hi sp') (sp_del sp') :: spec_wtrace sp' t
  end.
