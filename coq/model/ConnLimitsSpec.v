(* What "a peer that stays within the advertised limits" means (C07), as a ledger kept from the
   PEER's point of view: it knows the transport parameters and the MAX_* frames that were written
   to the wire, and what it has sent itself.  Short enough to be read against RFC 9000 section 4. *)
From AQ Require Import lib.Base model.StreamRecv model.ConnLimits gen.C07Consts.

Definition fupd {A} (f : Z -> A) (k : Z) (v : A) : Z -> A := fun x => if x =? k then v else f x.

Record peer := mkPeer {
  p_hi : Z -> Z;             (* per stream: the largest end offset / final size the peer has used *)
  p_final : Z -> option Z;   (* per stream: the final size, once the peer has sent FIN or RESET_STREAM *)
  p_total : Z;               (* bytes committed to the connection window: sum over streams of p_hi *)
  p_adv_data : Z;            (* initial_max_data, then the largest MAX_DATA written to the wire *)
  p_adv_msd : Z -> Z;        (* per stream: initial_max_stream_data_*, then the largest MAX_STREAM_DATA written *)
  p_adv_bidi : Z;            (* initial_max_streams_bidi, then the largest MAX_STREAMS written *)
  p_adv_uni : Z
}.

Definition peer_init (msd md : Z) : peer :=
  mkPeer (fun _ => 0) (fun _ => None) 0 md (fun _ => msd) INIT_MAX_STREAMS_BIDI INIT_MAX_STREAMS_UNI.

(* the stream and the end offset a frame commits the peer to; fin: the frame fixes the final size *)
Definition frame_end (o : op) : option (Z * Z * bool) :=
  match o with
  | StreamFrame ft sid off d => Some (sid, off + Zlen d, Z.odd ft)
  | ResetStream sid fs => Some (sid, fs, true)
  | _ => None
  end.

(* within every limit (lim = the per-stream data limit that applies), and final-size consistent *)
Definition peer_within (subject_is_client : bool) (p : peer) (lim sid e : Z) (fin : bool) : bool :=
  (Bool.eqb (client_initiated sid) subject_is_client      (* a stream of the subject: no stream-count limit applies *)
   || (sid / 4 + 1 <=? (if unidirectional sid then p_adv_uni p else p_adv_bidi p)))
  && (e <=? lim)
  && (p_total p + Z.max 0 (e - p_hi p sid) <=? p_adv_data p)
  && match p_final p sid with
     | Some f => (e <=? f) && (negb fin || (e =? f))
     | None => negb fin || (p_hi p sid <=? e)
     end.

Definition peer_upd (p : peer) (sid e : Z) (fin : bool) : peer :=
  mkPeer (fupd (p_hi p) sid (Z.max e (p_hi p sid)))
         (if fin then fupd (p_final p) sid (Some e) else p_final p)
         (p_total p + Z.max 0 (e - p_hi p sid))
         (p_adv_data p) (p_adv_msd p) (p_adv_bidi p) (p_adv_uni p).

Definition peer_see1 (p : peer) (w : wire) : peer :=
  match w with W ft a v =>
    if ft =? FT_MAX_DATA then mkPeer (p_hi p) (p_final p) (p_total p) (Z.max v (p_adv_data p)) (p_adv_msd p) (p_adv_bidi p) (p_adv_uni p)
    else if ft =? FT_MAX_STREAM_DATA then
      mkPeer (p_hi p) (p_final p) (p_total p) (p_adv_data p) (fupd (p_adv_msd p) a (Z.max v (p_adv_msd p a))) (p_adv_bidi p) (p_adv_uni p)
    else if ft =? FT_MAX_STREAMS_BIDI then mkPeer (p_hi p) (p_final p) (p_total p) (p_adv_data p) (p_adv_msd p) (Z.max v (p_adv_bidi p)) (p_adv_uni p)
    else if ft =? FT_MAX_STREAMS_UNI then mkPeer (p_hi p) (p_final p) (p_total p) (p_adv_data p) (p_adv_msd p) (p_adv_bidi p) (Z.max v (p_adv_uni p))
    else p
  end.
Definition peer_see (p : peer) (w : list wire) : peer := fold_left peer_see1 w p.

Definition accusation (code : Z) : bool :=
  (code =? E_FLOW_CONTROL_ERROR) || (code =? E_STREAM_LIMIT_ERROR) || (code =? E_FINAL_SIZE_ERROR).

(* the per-stream data limit the endpoint currently applies to sid *)
Definition local_msd (c : conn) (sid : Z) : Z :=
  match sget sid (c_streams c) with Some s => sm_msd s | None => c_msd c end.

(* run the endpoint model and the peer's ledger in lock step: true iff a frame that is within every limit
   (and all frames before it were) is answered by FLOW_CONTROL_ERROR, STREAM_LIMIT_ERROR or FINAL_SIZE_ERROR.
   wire_msd = true: the per-stream data limit is the one the peer saw on the wire (p_adv_msd);
   wire_msd = false: it is the endpoint's current max_stream_data_local.  The connection-level limit and the
   stream-count limits are always the ones seen on the wire. *)
Fixpoint accused (wire_msd : bool) (c : conn) (p : peer) (ops : list op) : bool :=
  match ops with
  | [] => false
  | o :: t =>
      let '(r, c') := step c o in
      match frame_end o with
      | Some (sid, e, fin) =>
          if peer_within (c_client c) p (if wire_msd then p_adv_msd p sid else local_msd c sid) sid e fin then
            match r with
            | OErr code _ => accusation code
            | OExn => false
            | _ => accused wire_msd c' (peer_upd p sid e fin) t
            end
          else false
      | None =>
          match r with
          | OWrote w => accused wire_msd c' (peer_see p w) t
          | OErr _ _ | OExn => false
          | _ => accused wire_msd c' p t
          end
      end
  end.
