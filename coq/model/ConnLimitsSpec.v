(* What "a peer that stays within the advertised limits" means (C07), as a ledger kept from the
   PEER's point of view: it knows the transport parameters and the MAX_* frames that were written
   to the wire, and what it has sent itself.  Short enough to be read against RFC 9000 section 4. *)
From AQ Require Import lib.Base model.StreamRecv model.ConnLimits gen.C07Consts.

Definition zget (k : Z) (l : list (Z * Z)) (d : Z) : Z :=
  match find (fun p => fst p =? k) l with Some p => snd p | None => d end.
Definition zfind (k : Z) (l : list (Z * Z)) : option Z :=
  match find (fun p => fst p =? k) l with Some p => Some (snd p) | None => None end.
Definition zset (k v : Z) (l : list (Z * Z)) : list (Z * Z) :=
  (k, v) :: filter (fun p => negb (fst p =? k)) l.
Definition total (l : list (Z * Z)) : Z := fold_right (fun p a => snd p + a) 0 l.

Record peer := mkPeer {
  p_hi : list (Z * Z);       (* per stream: the largest end offset / final size the peer has used *)
  p_final : list (Z * Z);    (* per stream: the final size, once the peer has sent FIN or RESET_STREAM *)
  p_adv_data : Z;            (* initial_max_data, then the largest MAX_DATA written to the wire *)
  p_msd0 : Z;                (* initial_max_stream_data_* *)
  p_adv_msd : list (Z * Z);  (* per stream: the largest MAX_STREAM_DATA written to the wire *)
  p_adv_bidi : Z;            (* initial_max_streams_bidi, then the largest MAX_STREAMS written *)
  p_adv_uni : Z
}.

Definition peer_init (msd md : Z) : peer := mkPeer [] [] md msd [] INIT_MAX_STREAMS_BIDI INIT_MAX_STREAMS_UNI.

(* the stream and the end offset a frame commits the peer to; fin: the frame fixes the final size *)
Definition frame_end (o : op) : option (Z * Z * bool) :=
  match o with
  | StreamFrame ft sid off d => Some (sid, off + Zlen d, Z.odd ft)
  | ResetStream sid fs => Some (sid, fs, true)
  | _ => None
  end.

(* within every limit advertised so far, and final-size consistent *)
Definition peer_within (subject_is_client : bool) (p : peer) (sid e : Z) (fin : bool) : bool :=
  let hi := zget sid (p_hi p) 0 in
  (Bool.eqb (client_initiated sid) subject_is_client      (* a stream of the subject: no stream-count limit applies *)
   || (sid / 4 + 1 <=? (if unidirectional sid then p_adv_uni p else p_adv_bidi p)))
  && (e <=? zget sid (p_adv_msd p) (p_msd0 p))
  && (total (p_hi p) + Z.max 0 (e - hi) <=? p_adv_data p)
  && match zfind sid (p_final p) with
     | Some f => (e <=? f) && (negb fin || (e =? f))
     | None => negb fin || (hi <=? e)
     end.

Definition peer_upd (p : peer) (sid e : Z) (fin : bool) : peer :=
  mkPeer (zset sid (Z.max e (zget sid (p_hi p) 0)) (p_hi p))
         (if fin then zset sid e (p_final p) else p_final p)
         (p_adv_data p) (p_msd0 p) (p_adv_msd p) (p_adv_bidi p) (p_adv_uni p).

Definition peer_see1 (p : peer) (w : wire) : peer :=
  match w with W ft a v =>
    if ft =? FT_MAX_DATA then mkPeer (p_hi p) (p_final p) (Z.max v (p_adv_data p)) (p_msd0 p) (p_adv_msd p) (p_adv_bidi p) (p_adv_uni p)
    else if ft =? FT_MAX_STREAM_DATA then
      mkPeer (p_hi p) (p_final p) (p_adv_data p) (p_msd0 p) (zset a (Z.max v (zget a (p_adv_msd p) (p_msd0 p))) (p_adv_msd p)) (p_adv_bidi p) (p_adv_uni p)
    else if ft =? FT_MAX_STREAMS_BIDI then mkPeer (p_hi p) (p_final p) (p_adv_data p) (p_msd0 p) (p_adv_msd p) (Z.max v (p_adv_bidi p)) (p_adv_uni p)
    else if ft =? FT_MAX_STREAMS_UNI then mkPeer (p_hi p) (p_final p) (p_adv_data p) (p_msd0 p) (p_adv_msd p) (p_adv_bidi p) (Z.max v (p_adv_uni p))
    else p
  end.
Definition peer_see (p : peer) (w : list wire) : peer := fold_left peer_see1 w p.

Definition accusation (code : Z) : bool :=
  (code =? E_FLOW_CONTROL_ERROR) || (code =? E_STREAM_LIMIT_ERROR) || (code =? E_FINAL_SIZE_ERROR).

(* run the endpoint model and the peer's ledger in lock step: true iff a frame that is within every
   advertised limit (and all frames before it were) is answered by FLOW_CONTROL_ERROR, STREAM_LIMIT_ERROR or
   FINAL_SIZE_ERROR *)
Fixpoint accused (c : conn) (p : peer) (ops : list op) : bool :=
  match ops with
  | [] => false
  | o :: t =>
      let '(r, c') := step c o in
      match frame_end o with
      | Some (sid, e, fin) =>
          if peer_within (c_client c) p sid e fin then
            match r with
            | OErr code _ => accusation code
            | OExn => false
            | _ => accused c' (peer_upd p sid e fin) t
            end
          else false
      | None =>
          match r with
          | OWrote w => accused c' (peer_see p w) t
          | OErr _ _ | OExn => false
          | _ => accused c' p t
          end
      end
  end.

(* bytes the peer has committed to the connection-level window: sum over streams of max(end offsets, final size) *)
Fixpoint peer_total (p : peer) (ops : list op) : Z :=
  match ops with
  | [] => total (p_hi p)
  | o :: t => match frame_end o with
              | Some (sid, e, fin) => peer_total (peer_upd p sid e fin) t
              | None => peer_total p t
              end
  end.
