(* Model of QuicPacketBuilder (src/aioquic/quic/packet_builder.py) on SIZES only.

   The byte content of the buffer is abstracted to its write position [b_tell]; the Buffer object
   has capacity max_datagram_size and raises BufferWriteError on any write past it (src/aioquic/_buffer.c).
   CryptoPair.encrypt_packet is an oracle returning header + payload + AEAD_TAG_SIZE bytes, or raising
   CryptoError when that exceeds the size limit [c_cmax] of the crypto implementation.
   Exceptions are outcomes ([outcome]); the state after an exception is the state the Python object
   is left in (the code has no try/except).

   Fields marked GHOST do not exist in the code and are never read by the transition functions;
   they only record, per flushed datagram, what the theorems talk about. *)
From AQ Require Import lib.Base lib.Tok gen.C13Consts.

Record cfg := mkCfg {
  c_client : bool;            (* is_client *)
  c_mds : Z;                  (* max_datagram_size = capacity of self._buffer *)
  c_peer : Z;                 (* len(peer_cid) *)
  c_host : Z;                 (* len(host_cid) *)
  c_token : Z;                (* len(peer_token) *)
  c_max_flight : option Z;    (* max_flight_bytes (None | int), set before the first start_packet *)
  c_max_total : option Z;     (* max_total_bytes *)
  c_cmax : option Z           (* the CryptoPair handed to start_packet: Some m = aioquic's own CryptoPair, whose
                                 _crypto.c raises CryptoError when header + payload + tag exceed its m = 1500-byte
                                 scratch buffers (AEAD.encrypt / HeaderProtection.apply length checks, fix f35cfc1);
                                 None = a CryptoPair without a size limit *)
}.

(* the current packet: self._packet plus _header_size/_packet_start/_packet_type *)
Record pkt := mkPkt {
  p_type : Z; p_start : Z; p_hdr : Z;
  p_inflight : bool; p_ackel : bool; p_crypto : bool; p_pn : Z
}.

(* a QuicSentPacket as observed: packet_type, sent_bytes, in_flight, is_ack_eliciting, is_crypto_packet, packet_number *)
Definition spkt := (Z * Z * bool * bool * bool * Z)%type.

(* GHOST: one record per datagram appended to self._datagrams *)
Record dgram := mkDg {
  d_len : Z;          (* len(datagram) *)
  d_init : bool;      (* contains a completed Initial packet of a client / an ack-eliciting Initial packet *)
  d_fcap : Z;         (* _flight_capacity when it was flushed *)
  d_bcap : Z;         (* _buffer_capacity when it was flushed *)
  d_raw : Z           (* buffer position before the datagram-level Initial padding *)
}.

Record st := mkSt {
  b_tell : Z;                 (* self._buffer.tell() *)
  b_bcap : Z;                 (* _buffer_capacity *)
  b_fcap : Z;                 (* _flight_capacity *)
  b_dgflight : Z;             (* _datagram_flight_bytes *)
  b_dginit : bool;            (* _datagram_init *)
  b_dgpad : bool;             (* _datagram_needs_padding *)
  b_flight : Z;               (* _flight_bytes *)
  b_total : Z;                (* _total_bytes *)
  b_cur : option pkt;         (* _packet *)
  b_hascrypto : bool;         (* _packet_crypto is not None *)
  b_pn : Z;                   (* _packet_number *)
  b_dgrams : list Z;          (* lengths of self._datagrams *)
  b_pkts : list spkt;         (* self._packets *)
  g_hasinit : bool;           (* GHOST: the datagram under construction contains such an Initial *)
  g_log : list dgram          (* GHOST: every datagram flushed so far, oldest first *)
}.

Definition init_st (c : cfg) (pn : Z) : st :=
  mkSt 0 (c_mds c) (c_mds c) 0 true false 0 0 None false pn [] [] false [].

Inductive outcome :=
| ODone                    (* returned normally *)
| OStop                    (* QuicPacketBuilderStop *)
| OBufferWrite             (* BufferWriteError *)
| OAssertion               (* AssertionError *)
| OAttribute               (* AttributeError (no longer raised by any modelled method since fix e93c691; code 4 kept) *)
| OValue                   (* ValueError *)
| OCrypto.                 (* CryptoError (a ValueError subclass) out of CryptoPair.encrypt_packet *)

Definition zmem (x : Z) (l : list Z) : bool := existsb (Z.eqb x) l.
Definition zsum (l : list Z) : Z := fold_right Z.add 0 l.

(* aioquic.buffer.size_uint_var; None = ValueError (value >= 2^62) *)
Definition size_uint_var (v : Z) : option Z :=
  if v <? 64 then Some 1 else if v <? 16384 then Some 2 else if v <? 1073741824 then Some 4
  else if v <? 4611686018427387904 then Some 8 else None.

Definition valid_ptype (t : Z) : bool :=
  (t =? PT_INITIAL) || (t =? PT_HANDSHAKE) || (t =? PT_ZERO_RTT) || (t =? PT_ONE_RTT).

Definition header_size (c : cfg) (t : Z) : Z :=
  if negb (t =? PT_ONE_RTT) then
    let h := LONG_HEADER_FIXED + c_peer c + c_host c in
    if t =? PT_INITIAL then
      h + match size_uint_var (c_token c) with Some s => s | None => 8 end + c_token c
    else h
  else SHORT_HEADER_FIXED + c_peer c.

Definition remaining_buffer_space (s : st) : Z := b_bcap s - b_tell s - AEAD_TAG_SIZE.
Definition remaining_flight_space (s : st) : Z := b_fcap s - b_tell s - AEAD_TAG_SIZE.

Definition set_tell (s : st) (t : Z) : st :=
  mkSt t (b_bcap s) (b_fcap s) (b_dgflight s) (b_dginit s) (b_dgpad s) (b_flight s) (b_total s)
       (b_cur s) (b_hascrypto s) (b_pn s) (b_dgrams s) (b_pkts s) (g_hasinit s) (g_log s).
Definition set_cur (s : st) (p : option pkt) : st :=
  mkSt (b_tell s) (b_bcap s) (b_fcap s) (b_dgflight s) (b_dginit s) (b_dgpad s) (b_flight s) (b_total s)
       p (b_hascrypto s) (b_pn s) (b_dgrams s) (b_pkts s) (g_hasinit s) (g_log s).
Definition set_dgpad (s : st) (b : bool) : st :=
  mkSt (b_tell s) (b_bcap s) (b_fcap s) (b_dgflight s) (b_dginit s) b (b_flight s) (b_total s)
       (b_cur s) (b_hascrypto s) (b_pn s) (b_dgrams s) (b_pkts s) (g_hasinit s) (g_log s).

(* _flush_current_datagram.  The padding push cannot exceed the Buffer in reachable states
   (flight_capacity <= max_datagram_size); the BufferWriteError branch is modelled anyway. *)
Definition flush_current (c : cfg) (s : st) : outcome * st :=
  if b_tell s =? 0 then (ODone, s) else
  let extra := if b_dgpad s then b_fcap s - b_tell s else 0 in
  let extra := if extra >? 0 then extra else 0 in
  if b_tell s + extra >? c_mds c then (OBufferWrite, s) else
  let len := b_tell s + extra in
  let dgf := b_dgflight s + extra in
  (ODone,
   mkSt 0 (b_bcap s) (b_fcap s) dgf true (b_dgpad s) (b_flight s + dgf) (b_total s + len)
        (b_cur s) (b_hascrypto s) (b_pn s) (b_dgrams s ++ [len]) (b_pkts s) false
        (g_log s ++ [mkDg len (g_hasinit s) (b_fcap s) (b_bcap s) (b_tell s)])).

(* _end_packet for the current packet p (self._packet is not None) *)
Definition end_packet (c : cfg) (s : st) (p : pkt) : outcome * st :=
  let packet_size := b_tell s - p_start p in
  if packet_size >? p_hdr p then
    let padding := PACKET_NUMBER_MAX_SIZE - PACKET_NUMBER_SEND_SIZE + p_hdr p - packet_size in
    let is_init := (c_client c || p_ackel p) && (p_type p =? PT_INITIAL) in
    let pad1 := b_dgpad s || is_init in
    let '(padding, pad2) :=
      if pad1 && (p_type p =? PT_ONE_RTT) then
        ((if remaining_flight_space s >? padding then remaining_flight_space s else padding), false)
      else (padding, pad1) in
    let s1 := set_dgpad s pad2 in
    if (padding >? 0) && (b_tell s + padding >? c_mds c) then (OBufferWrite, s1) else
    let '(packet_size, inflight) :=
      if padding >? 0 then (packet_size + padding, true) else (packet_size, p_inflight p) in
    let p1 := mkPkt (p_type p) (p_start p) (p_hdr p) inflight (p_ackel p) (p_crypto p) (p_pn p) in
    let sent := packet_size + AEAD_TAG_SIZE in
    (* header is rewritten in place, buf.seek(packet_start), encrypt_packet(...) is evaluated (it can raise
       CryptoError), then the encrypted packet is pushed from packet_start *)
    if (match c_cmax c with Some m => sent >? m | None => false end)
    then (OCrypto, set_cur (set_tell s1 (p_start p)) (Some p1)) else
    if p_start p + sent >? c_mds c then (OBufferWrite, set_cur (set_tell s1 (p_start p)) (Some p1)) else
    let dgf := if inflight then b_dgflight s + sent else b_dgflight s in
    let s2 := mkSt (p_start p + sent) (b_bcap s) (b_fcap s) dgf (b_dginit s) pad2 (b_flight s) (b_total s)
                   (Some p1) (b_hascrypto s) (b_pn s) (b_dgrams s)
                   (b_pkts s ++ [(p_type p, sent, inflight, p_ackel p, p_crypto p, p_pn p)])
                   (g_hasinit s || is_init) (g_log s) in
    let '(o, s3) := if p_type p =? PT_ONE_RTT then flush_current c s2 else (ODone, s2) in
    match o with
    | ODone =>
        (ODone, mkSt (b_tell s3) (b_bcap s3) (b_fcap s3) (b_dgflight s3) (b_dginit s3) (b_dgpad s3) (b_flight s3)
                     (b_total s3) None (b_hascrypto s3) (b_pn s3 + 1) (b_dgrams s3) (b_pkts s3) (g_hasinit s3) (g_log s3))
    | _ => (o, s3)
    end
  else
    (ODone, set_cur (set_tell s (p_start p)) None).

Definition end_current (c : cfg) (s : st) : outcome * st :=
  match b_cur s with Some p => end_packet c s p | None => (ODone, s) end.

(* the "initialize datagram if needed" block of start_packet *)
Definition datagram_init (c : cfg) (s : st) : st :=
  if b_dginit s then
    let bcap := match c_max_total c with
                | Some m => let r := m - b_total s in if r <? b_bcap s then r else b_bcap s
                | None => b_bcap s end in
    let fcap := match c_max_flight c with
                | Some m => let r := m - b_flight s in if r <? bcap then r else bcap
                | None => bcap end in
    mkSt (b_tell s) bcap fcap 0 false false (b_flight s) (b_total s) (b_cur s) (b_hascrypto s) (b_pn s)
         (b_dgrams s) (b_pkts s) false (g_log s)
  else s.

Definition start_packet (c : cfg) (s : st) (t : Z) : outcome * st :=
  if negb (valid_ptype t) then (OAssertion, s) else
  let '(o, s1) := end_current c s in
  match o with
  | ODone =>
      let '(o2, s2) := if b_bcap s1 - b_tell s1 <? DATAGRAM_MIN_SPACE then flush_current c s1 else (ODone, s1) in
      match o2 with
      | ODone =>
          let packet_start := b_tell s2 in
          let s3 := datagram_init c s2 in
          let h := header_size c t in
          if packet_start + h >=? b_bcap s3 then (OStop, s3) else
          (ODone,
           mkSt (packet_start + h) (b_bcap s3) (b_fcap s3) (b_dgflight s3) (b_dginit s3) (b_dgpad s3) (b_flight s3)
                (b_total s3) (Some (mkPkt t packet_start h false false false (b_pn s3))) true (b_pn s3)
                (b_dgrams s3) (b_pkts s3) (g_hasinit s3) (g_log s3))
      | _ => (o2, s2)
      end
  | _ => (o, s1)
  end.

(* start_frame.  Since fix e93c691 the first thing evaluated is self.packet_is_empty, which asserts
   self._packet is not None: outside a packet (before the first start_packet, after a flush, after a
   start_packet that raised QuicPacketBuilderStop) start_frame raises AssertionError and changes nothing.
   In an EMPTY packet the declared capacity is raised to START_FRAME_EMPTY_RESERVE
   (= PACKET_NUMBER_MAX_SIZE - PACKET_NUMBER_SEND_SIZE in the source: room for the header-protection sample
   padding that _end_packet adds to a packet with a one-byte payload) before the two space checks.
   _packet and _packet_crypto are set together by start_packet, so the AttributeError of
   remaining_buffer_space (no _packet_crypto) cannot be reached any more; its place in the order of
   evaluation is kept. *)
Definition start_frame (c : cfg) (s : st) (ft cap : Z) : outcome * st :=
  match b_cur s with
  | None => (OAssertion, s)
  | Some p =>
      let cap := if b_tell s - p_start p <=? p_hdr p
                 then (if cap <? START_FRAME_EMPTY_RESERVE then START_FRAME_EMPTY_RESERVE else cap)
                 else cap in
      if negb (b_hascrypto s) then (OAttribute, s) else
      let nif := zmem ft NON_IN_FLIGHT in
      let nae := zmem ft NON_ACK_ELICITING in
      if (remaining_buffer_space s <? cap) || (negb nif && (remaining_flight_space s <? cap)) then (OStop, s) else
      (* Buffer.push_uint_var: the "K" argument format reduces modulo 2^64 *)
      match size_uint_var (ft mod 18446744073709551616) with
      | None => (OValue, s)
      | Some sz =>
          if b_tell s + sz >? c_mds c then (OBufferWrite, s) else
          let s1 := set_tell s (b_tell s + sz) in
          (ODone, set_cur s1 (Some (mkPkt (p_type p) (p_start p) (p_hdr p)
                                          (p_inflight p || negb nif) (p_ackel p || negb nae)
                                          (p_crypto p || (ft =? FT_CRYPTO)) (p_pn p))))
      end
  end.

(* buf.push_bytes(bytes(n)) on the buffer handed out by start_frame *)
Definition push (c : cfg) (s : st) (n : Z) : outcome * st :=
  if n <? 0 then (OValue, s) else
  if b_tell s + n >? c_mds c then (OBufferWrite, s) else (ODone, set_tell s (b_tell s + n)).

(* flush(): returns (datagram lengths, packets) *)
Definition flush (c : cfg) (s : st) : outcome * st * list Z * list spkt :=
  let '(o, s1) := end_current c s in
  match o with
  | ODone =>
      let '(o2, s2) := flush_current c s1 in
      match o2 with
      | ODone =>
          (ODone, mkSt (b_tell s2) (b_bcap s2) (b_fcap s2) (b_dgflight s2) (b_dginit s2) (b_dgpad s2) (b_flight s2)
                       (b_total s2) (b_cur s2) (b_hascrypto s2) (b_pn s2) [] [] (g_hasinit s2) (g_log s2),
           b_dgrams s2, b_pkts s2)
      | _ => (o2, s2, [], [])
      end
  | _ => (o, s1, [], [])
  end.

(* ---------- op sequences ------------------------------------------------------------------ *)
Inductive op :=
| OpStartPacket (t : Z)
| OpStartFrame (ft cap : Z)
| OpPush (n : Z)
| OpFlush.

Definition step (c : cfg) (s : st) (o : op) : outcome * st * list Z :=
  match o with
  | OpStartPacket t => let '(r, s') := start_packet c s t in (r, s', [])
  | OpStartFrame ft cap => let '(r, s') := start_frame c s ft cap in (r, s', [])
  | OpPush n => let '(r, s') := push c s n in (r, s', [])
  | OpFlush => let '(r, s', d, _) := flush c s in (r, s', d)
  end.

(* run: final state and all datagram lengths returned by flush() calls, in order *)
Fixpoint run (c : cfg) (s : st) (ops : list op) : st * list Z :=
  match ops with
  | [] => (s, [])
  | o :: t => let '(_, s', d) := step c s o in let '(s'', d') := run c s' t in (s'', d ++ d')
  end.

(* Caller discipline (what connection.py's frame writers do): frames only inside an open packet, a
   frame's declared capacity covers its type varint, bytes are pushed only into the buffer handed out by
   start_frame (i.e. after a frame has been started in the open packet: the packet is no longer empty),
   and every push fits the remaining buffer space. *)
Definition cur_nonempty (s : st) : bool :=
  match b_cur s with Some p => negb (b_tell s - p_start p <=? p_hdr p) | None => false end.

Definition op_disciplined (s : st) (o : op) : bool :=
  match o with
  | OpStartPacket _ | OpFlush => true
  | OpStartFrame ft cap =>
      match b_cur s, size_uint_var (ft mod 18446744073709551616) with
      | Some _, Some sz => sz <=? cap
      | _, _ => false
      end
  | OpPush n => cur_nonempty s && (0 <=? n) && (n <=? remaining_buffer_space s)
  end.

Fixpoint disciplined (c : cfg) (s : st) (ops : list op) : bool :=
  match ops with
  | [] => true
  | o :: t => op_disciplined s o && (let '(_, s', _) := step c s o in disciplined c s' t)
  end.

(* payload bytes of the open packet (0 when there is none) *)
Definition cur_payload (s : st) : Z :=
  match b_cur s with Some p => b_tell s - p_start p - p_hdr p | None => 0 end.

(* ---------- executable interface ------------------------------------------------------------
   input:  is_client mds peer host token  mf_opt mt_opt cmax_opt  pn   ops...
           opt = 0 | 1 v
   ops:    0 t = start_packet ; 1 ft cap = start_frame ; 2 n = push ; 3 = flush
   output per op: outcome code, then observers
             remaining_buffer_space / remaining_flight_space (1 v v | 0 when _packet_crypto is None),
             packet_is_empty (1 b | 0 when no packet), packet_number;
           for flush additionally: n, per datagram (len, has_init) ; m, per packet 6 fields *)
Definition out_outcome (o : outcome) : Z :=
  match o with ODone => 0 | OStop => 1 | OBufferWrite => 2 | OAssertion => 3 | OAttribute => 4 | OValue => 5 | OCrypto => 6 end.

Definition obs (s : st) : list Z :=
  (if b_hascrypto s then [1; remaining_buffer_space s; remaining_flight_space s] else [0]) ++
  (match b_cur s with
   | Some p => [1; b2z (b_tell s - p_start p <=? p_hdr p)]
   | None => [0] end) ++ [b_pn s].

Definition out_spkt (p : spkt) : list Z :=
  let '(t, sent, inf, ae, cr, pn) := p in [t; sent; b2z inf; b2z ae; b2z cr; pn].

(* the has_init flags of the last n log entries *)
Definition last_inits (n : nat) (log : list dgram) : list bool :=
  map d_init (skipn (length log - n) log).

Fixpoint zip_dg (l : list Z) (f : list bool) : list Z :=
  match l, f with
  | x :: l', b :: f' => x :: b2z b :: zip_dg l' f'
  | x :: l', [] => x :: 0 :: zip_dg l' []
  | [], _ => []
  end.

Fixpoint exec_ops (fuel : nat) (c : cfg) (s : st) (toks : list Z) : list Z :=
  match fuel with O => [] | S fuel =>
  match toks with
  | 0 :: t :: r => let '(o, s') := start_packet c s t in out_outcome o :: obs s' ++ exec_ops fuel c s' r
  | 1 :: ft :: cap :: r => let '(o, s') := start_frame c s ft cap in out_outcome o :: obs s' ++ exec_ops fuel c s' r
  | 2 :: n :: r => let '(o, s') := push c s n in out_outcome o :: obs s' ++ exec_ops fuel c s' r
  | 3 :: r =>
      let '(o, s', d, p) := flush c s in
      out_outcome o :: obs s' ++ (Zlen d :: zip_dg d (last_inits (length d) (g_log s')))
        ++ (Zlen p :: flat_map out_spkt p) ++ exec_ops fuel c s' r
  | _ => []
  end end.

(* EXTRACT: exec_builder *)
Definition exec_builder (toks : list Z) : list Z :=
  match toks with
  | cl :: mds :: peer :: host :: token :: r =>
      let '(mf, r) := tk_opt r in
      let '(mt, r) := tk_opt r in
      let '(cm, r) := tk_opt r in
      match r with
      | pn :: r =>
          let c := mkCfg (z2b cl) mds peer host token mf mt cm in
          exec_ops (length r) c (init_st c pn) r
      | [] => []
      end
  | _ => []
  end.
