(* Model of Buffer_push_uint_var / Buffer_pull_uint_var (src/aioquic/_buffer.c) and
   size_uint_var / encode_uint_var (src/aioquic/buffer.py): RFC 9000 section 16 integers. *)
From AQ Require Import lib.Base lib.Tok model.Codec.

Definition UINT_VAR_MAX : Z := 2 ^ 62 - 1.

(* first byte | prefix  (the 6 low bits hold data, so | is +) *)
Definition with_prefix (p : Z) (bs : list Z) : list Z :=
  match bs with
  | b :: t => (b + p) :: t
  | [] => []
  end.

(* Buffer_push_uint_var: "K" reduces the argument modulo 2^64 (no range check), then the
   size is chosen by comparisons; only the last branch raises, before any bounds check. *)
Definition push_uint_var (v0 : Z) : chunk :=
  let v := v0 mod 2 ^ 64 in
  if v <=? 63 then Ok (be_enc 1 v)
  else if v <=? 16383 then Ok (with_prefix 64 (be_enc 2 v))
  else if v <=? 1073741823 then Ok (with_prefix 128 (be_enc 4 v))
  else if v <=? UINT_VAR_MAX then Ok (with_prefix 192 (be_enc 8 v))
  else Err E_VALUE.

(* length selected by the two high bits of the first byte *)
Definition var_len (b0 : Z) : nat :=
  let k := b0 / 64 in
  if k =? 0 then 1%nat else if k =? 1 then 2%nat else if k =? 2 then 4%nat else 8%nat.

(* first byte & 0x3F *)
Definition mask_first (bs : list Z) : list Z :=
  match bs with
  | b :: t => (b mod 64) :: t
  | [] => []
  end.

(* Buffer_pull_uint_var: CHECK_READ_BOUNDS(1), switch on the prefix, CHECK_READ_BOUNDS(n) *)
Definition pull_uint_var (bs : list Z) : Res (Z * list Z) :=
  match bs with
  | [] => Err E_READ
  | b0 :: _ =>
      let n := var_len b0 in
      if Zlen bs <? Z.of_nat n then Err E_READ
      else Ok (be_dec 0 (mask_first (firstn n bs)), skipn n bs)
  end.

(* buffer.size_uint_var: plain Python comparisons, NO reduction modulo 2^64 *)
Definition size_uint_var (v : Z) : Res Z :=
  if v <=? 63 then Ok 1
  else if v <=? 16383 then Ok 2
  else if v <=? 1073741823 then Ok 4
  else if v <=? UINT_VAR_MAX then Ok 8
  else Err E_VALUE.

(* ---------- executable interface -------------------------------------------------------
   one op per case:
     0 w v          push_uintW v (W in 1,2,4,8) into an empty buffer of ample capacity
     1 v            push_uint_var v
     2 v            size_uint_var v
     3 w n b1..bn   pull_uintW on the bytes
     4 n b1..bn     pull_uint_var on the bytes
     5 cap v        push_uint_var v into a buffer of capacity cap (bounds check order)
     6 k n b1..bn   pull_bytes(k)
   output: status (0 | error kind), then value / bytes, then number of bytes consumed *)
Definition out_chunk (c : chunk) : list Z := out_res out_bytes c.
Definition out_pull (total : Z) (r : Res (Z * list Z)) : list Z :=
  out_res (fun p => [fst p; total - Zlen (snd p)]) r.

Definition exec_varint (toks : list Z) : list Z :=
  match toks with
  | 0 :: w :: v :: _ =>
      out_chunk (if w =? 1 then push_uint8 v else if w =? 2 then push_uint16 v
                 else if w =? 4 then push_uint32 v else push_uint64 v)
  | 1 :: v :: _ => out_chunk (push_uint_var v)
  | 2 :: v :: _ => out_res (fun n => [n]) (size_uint_var v)
  | 3 :: w :: t =>
      let '(bs, _) := tk_list t in
      out_pull (Zlen bs) (if w =? 1 then pull_uint8 bs else if w =? 2 then pull_uint16 bs
                          else if w =? 4 then pull_uint32 bs else pull_uint64 bs)
  | 4 :: t =>
      let '(bs, _) := tk_list t in out_pull (Zlen bs) (pull_uint_var bs)
  | 5 :: cap :: v :: _ => out_res out_bytes (w_chunks cap [] [push_uint_var v])
  | 6 :: k :: t =>
      let '(bs, _) := tk_list t in
      out_res (fun p => out_bytes (fst p) ++ [Zlen bs - Zlen (snd p)]) (pull_bytes k bs)
  | _ => []
  end.
(* EXTRACT: exec_varint *)
