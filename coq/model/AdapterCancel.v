(* Cancellation of the application coroutines that await the adapter's waiters
   (src/aioquic/asyncio/protocol.py: ping(), wait_connected(), wait_closed()), on top of model/Adapter.v.

   A schedule is a list of cop: the steps of Adapter.v (loop callbacks and API calls) interleaved, at ANY position,
   with cancellations of the tasks that are blocked in one of the awaits:

     CCancel i       the task that awaits future i (a ping waiter or the connected waiter; i = index in creation
                     order, as in `futs`) is cancelled: task.cancel(), the deadline of asyncio.wait_for /
                     asyncio.timeout, the exit of a TaskGroup...  What task.cancel() does synchronously is
                     `task._fut_waiter.cancel()`; the CancelledError is thrown into the coroutine only when the
                     loop runs the task again, one iteration later (CResume).
     CCancelClosed   a task blocked in wait_closed() (= asyncio.Event.wait()) is cancelled
     CResume i       the loop runs the cancelled task: CancelledError is raised at its await and its
                     `finally` clauses run

   sh = the SHIELD discipline of the code, a source fact pinned by tools/gen/c19_shield.py (gen/C19Shield.v):
     sh = true   (the code as it is) every await of a registered waiter is `await asyncio.shield(waiter)`:
                 `_fut_waiter` is the OUTER future made by shield(), the registered future is not touched, stays
                 in _ping_waiters / _connected_waiter and is resolved later by _drain_events like any other
                 (shield's done-callback retrieves its exception, nobody else looks at it); no clean-up code
                 touches the waiter tables outside _drain_events.  asyncio.Event.wait() removes its own future in
                 a `finally` and Event.set() skips done futures: the adapter's state is not involved.
     sh = false  the unshielded variant (`await waiter`, with or without `finally: self._ping_waiters.pop(uid,
                 None)`): `_fut_waiter` IS the registered future: CCancel marks it cancelled at once while
                 its table entry stays until CResume.
   No proofs in this file. *)
From AQ Require Import lib.Base lib.Tok model.Adapter.

Inductive cop :=
| CBase (o : op)
| CCancel (i : nat)
| CCancelClosed
| CResume (i : nat).

(* base: the adapter; cancelled: ghost, the futures whose awaiting task has been cancelled (what the CALLER sees) *)
Record cst := mkC { base : st; cancelled : list nat }.

Definition cinit : cst := mkC st_init [].

(* Future.cancel(): a pending future becomes cancelled, a done one is left alone (returns False) *)
Definition cancel_fut (i : nat) (f : list fstate) : list fstate :=
  match nth_error f i with
  | Some FPending => set_nth i FCancelled f
  | _ => f
  end.

(* finally: self._ping_waiters.pop(uid, None)  with uid = id(waiter): the entry of THAT future *)
Fixpoint ping_del_fut (i : nat) (l : list (Z * nat)) : list (Z * nat) :=
  match l with
  | [] => []
  | (u, f) :: t => if Nat.eqb f i then t else (u, f) :: ping_del_fut i t
  end.

Definition cstep (sh fx : bool) (c : cst) (o : cop) : option Z * list Z * cst :=
  match o with
  | CBase b => let '(x, extra, s') := step fx (base c) b in (x, extra, mkC s' (cancelled c))
  | CCancel i =>
      if sh then (None, [], mkC (base c) (i :: cancelled c))
      else (None, [], mkC (with_futs (base c) (cancel_fut i (futs (base c)))) (i :: cancelled c))
  | CCancelClosed => (None, [], c)
  | CResume i =>
      if sh then (None, [], c)
      else (None, [], mkC (with_pings (base c) (ping_del_fut i (pings (base c)))) (cancelled c))
  end.

Fixpoint crun (sh fx : bool) (c : cst) (cops : list cop) : cst :=
  match cops with
  | [] => c
  | o :: t => let '(_, _, c') := cstep sh fx c o in crun sh fx c' t
  end.

(* the schedule without its cancellation steps *)
Fixpoint erase (cops : list cop) : list op :=
  match cops with
  | [] => []
  | CBase o :: t => o :: erase t
  | _ :: t => erase t
  end.

(* what every adapter step of a schedule returned / raised and the adapter state it left *)
Fixpoint trace (fx : bool) (s : st) (ops : list op) : list (option Z * list Z * st) :=
  match ops with
  | [] => []
  | o :: t => let r := step fx s o in r :: trace fx (snd r) t
  end.

Fixpoint ctrace (sh fx : bool) (c : cst) (cops : list cop) : list (option Z * list Z * st) :=
  match cops with
  | [] => []
  | o :: t =>
      let '(x, e, c') := cstep sh fx c o in
      match o with
      | CBase _ => (x, e, base c') :: ctrace sh fx c' t
      | _ => ctrace sh fx c' t
      end
  end.

(* what the application task that awaited future i gets *)
Inductive outcome := OWaiting | OResult | OConnectionError | OCancelled.

Definition outcome_of (f : option fstate) : outcome :=
  match f with
  | Some FOk => OResult
  | Some FErr => OConnectionError
  | Some FCancelled => OCancelled
  | _ => OWaiting
  end.

Fixpoint memn (i : nat) (l : list nat) : bool :=
  match l with [] => false | x :: t => Nat.eqb x i || memn i t end.

Definition caller_outcome (c : cst) (i : nat) : outcome :=
  if memn i (cancelled c) then OCancelled else outcome_of (nth_error (futs (base c)) i).

(* ---------- executable interface ------------------------------------------------------------------
   As exec_adapter (first token fx, then ops 0..10 of Adapter.tk_op) plus
     11 i   CCancel i        12   CCancelClosed
   with the shield discipline of the code (sh = true).  Output per op: as exec_adapter. *)
Definition tk_cop (t : list Z) : option (cop * list Z) :=
  match t with
  | 11 :: i :: t => Some (CCancel (Z.to_nat i), t)
  | 12 :: t => Some (CCancelClosed, t)
  | _ => match tk_op t with Some (o, t) => Some (CBase o, t) | None => None end
  end.

Fixpoint exec_adc (fuel : nat) (fx : bool) (c : cst) (t : list Z) : list Z :=
  match fuel with O => [] | S fuel =>
  match tk_cop t with
  | None => []
  | Some (o, t) =>
      let '(x, extra, c') := cstep true fx c o in
      out_exn x :: out_list extra ++ obs_st (base c') ++ exec_adc fuel fx c' t
  end end.

(* EXTRACT: exec_adapter_cancel *)
Definition exec_adapter_cancel (ops : list Z) : list Z :=
  match ops with
  | [] => []
  | f :: t => exec_adc (length t) (z2b f) cinit t
  end.
