(* Model of the key-phase state machine of src/aioquic/quic/crypto.py: CryptoContext (key_phase, secret),
   next_key_phase, apply_key_phase, CryptoContext.decrypt_packet's choice of keys, and CryptoPair
   (decrypt_packet, encrypt_packet, update_key, key_phase, _update_key), for the 1-RTT pair of a connection.

   Abstraction of the key material: the secret of a CryptoContext of one direction is
   secret_g = HKDF-Expand-Label^g(secret_0, "quic ku"), so it is represented by its GENERATION g (a Z); the AEAD
   is ideal (the hypothesis of C02.altered_rejected): a packet opens under the keys of generation g iff it is
   the unmodified sealing, header included, under exactly those keys.  A packet is therefore (q_auth, q_phase,
   q_long): q_auth = Some g -- genuine sealing under generation g of the direction it travels in; None --
   anything else (altered in any bit, forged, sealed for another direction/connection); q_phase = the key phase
   bit of the first byte AFTER header protection removal (an attacker chooses it freely: flipping bit 0x04 of a
   genuine packet yields q_auth = None with the other phase); q_long = long header.

   The complete state of a CryptoContext w.r.t. key phases is (generation, phase bit); of a CryptoPair:
   (recv, send, _update_key_requested).  There is NOTHING else: the check ties this claim to the code by
   comparing, on every run, the full attribute digest of the real objects with this state (harness/props/c02.py
   "keyphase" suite).  No proofs in this file. *)
From AQ Require Import lib.Base lib.Tok.

Record kctx := mkK { k_gen : Z; k_phase : Z }.

(* next_key_phase: CryptoContext(key_phase=int(not self.key_phase)) with the next secret *)
Definition k_next (c : kctx) : kctx := mkK (k_gen c + 1) (if k_phase c =? 0 then 1 else 0).

Record kpkt := mkQ { q_auth : option Z; q_phase : Z; q_long : bool }.

(* CryptoContext.decrypt_packet: which context opens the packet *)
Definition k_select (c : kctx) (p : kpkt) : kctx * bool :=
  if q_long p then (c, false)
  else if q_phase p =? k_phase c then (c, false)
  else (k_next c, true).

Definition auth_under (p : kpkt) (g : Z) : bool :=
  match q_auth p with Some g' => g' =? g | None => false end.

(* None = CryptoError (aead.decrypt raised); Some upd = (…, crypto != self) *)
Definition ctx_decrypt (c : kctx) (p : kpkt) : option bool :=
  let '(cr, upd) := k_select c p in
  if auth_under p (k_gen cr) then Some upd else None.

Record kpair := mkP { p_recv : kctx; p_send : kctx; p_req : bool }.

(* CryptoPair._update_key: apply_key_phase(recv, next_key_phase(recv)); the same for send; flag cleared *)
Definition pair_update (s : kpair) : kpair := mkP (k_next (p_recv s)) (k_next (p_send s)) false.

(* CryptoPair.update_key (QuicConnection.request_key_update) *)
Definition pair_request (s : kpair) : kpair := mkP (p_recv s) (p_send s) true.

(* CryptoPair.key_phase (property; the packet builder writes it into the first byte) *)
Definition pair_key_phase (s : kpair) : Z :=
  if p_req s then (if k_phase (p_recv s) =? 0 then 1 else 0) else k_phase (p_recv s).

Inductive verdict := Accepted (updated : bool) | Rejected.

(* CryptoPair.decrypt_packet: the exception of recv.decrypt_packet propagates before anything is assigned *)
Definition pair_decrypt (s : kpair) (p : kpkt) : kpair * verdict :=
  match ctx_decrypt (p_recv s) p with
  | None => (s, Rejected)
  | Some upd => (if upd then pair_update s else s, Accepted upd)
  end.

(* packet builder + CryptoPair.encrypt_packet: header bit = key_phase property read before the call; a pending
   local update is performed by encrypt_packet; sealed with the (new) send context *)
Definition pair_send (s : kpair) : kpair * kpkt :=
  let ph := pair_key_phase s in
  let s' := if p_req s then pair_update s else s in
  (s', mkQ (Some (k_gen (p_send s'))) ph false).

Definition pair_init : kpair := mkP (mkK 0 0) (mkK 0 0) false.

(* ---- two endpoints.  Endpoint false = A, true = B.  hist x = every packet x has ever sent (to the other
   endpoint), oldest first: the network may deliver any of them at any time, any number of times, in any order,
   and anybody may inject packets that are not authentic (q_auth = None). *)
Record sys := mkS { s_a : kpair; s_b : kpair; h_a : list kpkt; h_b : list kpkt }.

Definition ep (s : sys) (x : bool) : kpair := if x then s_b s else s_a s.
Definition hist (s : sys) (x : bool) : list kpkt := if x then h_b s else h_a s.
Definition set_ep (s : sys) (x : bool) (e : kpair) : sys :=
  if x then mkS (s_a s) e (h_a s) (h_b s) else mkS e (s_b s) (h_a s) (h_b s).
Definition push_hist (s : sys) (x : bool) (p : kpkt) : sys :=
  if x then mkS (s_a s) (s_b s) (h_a s) (h_b s ++ [p]) else mkS (s_a s) (s_b s) (h_a s ++ [p]) (h_b s).

Inductive event :=
| ERequest (x : bool)              (* x.request_key_update() *)
| ESend (x : bool)                 (* x sends a 1-RTT packet *)
| EDeliver (x : bool) (k : Z)      (* the k-th packet x has sent reaches the other endpoint *)
| EInject (y : bool) (p : kpkt).   (* an arbitrary packet reaches y *)

Definition forged (p : kpkt) : kpkt := mkQ None (q_phase p) (q_long p).

(* observable of one step: None for application actions, Some verdict for a received packet *)
Definition step (s : sys) (e : event) : sys * option verdict :=
  match e with
  | ERequest x => (set_ep s x (pair_request (ep s x)), None)
  | ESend x => let '(e', p) := pair_send (ep s x) in (push_hist (set_ep s x e') x p, None)
  | EDeliver x k =>
      match nth_error (hist s x) (Z.to_nat k) with
      | Some p => let '(e', v) := pair_decrypt (ep s (negb x)) p in (set_ep s (negb x) e', Some v)
      | None => (s, None)
      end
  | EInject y p => let '(e', v) := pair_decrypt (ep s y) p in (set_ep s y e', Some v)
  end.

Fixpoint run (s : sys) (evs : list event) : sys * list (option verdict) :=
  match evs with
  | [] => (s, [])
  | e :: t => let '(s1, o) := step s e in let '(s2, os) := run s1 t in (s2, o :: os)
  end.

Definition sys_init : sys := mkS pair_init pair_init [] [].

(* ---------- executable interface --------------------------------------------------------------
   ops:  1 x          request          -> state
         2 x          send             -> gen phase state
         3 x k        deliver          -> v state        (v: 0 rejected, 1 accepted, 2 accepted + key update, 9 no such packet)
         4 y a g ph l inject (a = 0: q_auth None; a = 1: Some g) -> v state
   state = the ten numbers  recv.gen recv.phase send.gen send.phase requested  of A, then of B *)
Definition out_pair (e : kpair) : list Z :=
  [k_gen (p_recv e); k_phase (p_recv e); k_gen (p_send e); k_phase (p_send e); b2z (p_req e)].
Definition out_sys (s : sys) : list Z := out_pair (s_a s) ++ out_pair (s_b s).
Definition out_verdict (o : option verdict) : Z :=
  match o with None => 9 | Some Rejected => 0 | Some (Accepted false) => 1 | Some (Accepted true) => 2 end.

Fixpoint exec_keyphase_go (fuel : nat) (s : sys) (toks : list Z) : list Z :=
  match fuel with
  | O => []
  | S f =>
      match toks with
      | 1 :: x :: t => let '(s', _) := step s (ERequest (z2b x)) in out_sys s' ++ exec_keyphase_go f s' t
      | 2 :: x :: t =>
          let '(s', _) := step s (ESend (z2b x)) in
          match last (hist s' (z2b x)) (mkQ None 0 false) with
          | mkQ (Some g) ph _ => g :: ph :: out_sys s' ++ exec_keyphase_go f s' t
          | _ => []
          end
      | 3 :: x :: k :: t =>
          let '(s', o) := step s (EDeliver (z2b x) k) in out_verdict o :: out_sys s' ++ exec_keyphase_go f s' t
      | 4 :: y :: a :: g :: ph :: l :: t =>
          let p := mkQ (if a =? 0 then None else Some g) ph (z2b l) in
          let '(s', o) := step s (EInject (z2b y) p) in out_verdict o :: out_sys s' ++ exec_keyphase_go f s' t
      | _ => []
      end
  end.

(* EXTRACT: exec_keyphase *)
Definition exec_keyphase (toks : list Z) : list Z := exec_keyphase_go (length toks) sys_init toks.
