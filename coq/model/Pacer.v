(* Model of QuicPacketPacer (src/aioquic/quic/recovery.py). *)
From AQ Require Import lib.Base model.RecBase.

Section Pacer.
Context {T : Type} (F : fops T).

Record pacer := mkPacer {
  pc_mss : Z;
  pc_bucket_max : T;
  pc_bucket_time : T;
  pc_eval_time : T;
  pc_packet_time : option T;
  pc_anom : bool              (* sticky: ZeroDivisionError would have been raised (pacing_rate == 0) *)
}.

Definition pacer_init (mss : Z) : pacer :=
  mkPacer mss (fofZ F 0) (fofZ F 0) (fofZ F 0) None false.

Definition update_rate (p : pacer) (cwnd : Z) (srtt : T) : pacer :=
  let rate := fdiv F (fofZ F cwnd) (pymax F srtt (fconstv F CMicro)) in
  let pt := pymax F (fconstv F CMicro) (pymin F (fdiv F (fofZ F (pc_mss p)) rate) (fconstv F CSecond)) in
  let bmax := fdiv F (fofZ F (Z.max (2 * pc_mss p) (Z.min (cwnd / 4) (16 * pc_mss p)))) rate in
  let bt := if fltb F bmax (pc_bucket_time p) then bmax else pc_bucket_time p in
  mkPacer (pc_mss p) bmax bt (pc_eval_time p) (Some pt) (pc_anom p || feqb F rate (fofZ F 0)).

Definition update_bucket (p : pacer) (now : T) : pacer :=
  if fltb F (pc_eval_time p) now then
    mkPacer (pc_mss p) (pc_bucket_max p)
            (pymin F (fadd F (pc_bucket_time p) (fsub F now (pc_eval_time p))) (pc_bucket_max p))
            now (pc_packet_time p) (pc_anom p)
  else p.

Definition next_send_time (p : pacer) (now : T) : option T * pacer :=
  match pc_packet_time p with
  | Some pt =>
      let p1 := update_bucket p now in
      if fleb F (pc_bucket_time p1) (fofZ F 0) then (Some (fadd F now pt), p1) else (None, p1)
  | None => (None, p)
  end.

Definition update_after_send (p : pacer) (now : T) : pacer :=
  match pc_packet_time p with
  | Some pt =>
      let p1 := update_bucket p now in
      let bt := if fltb F (pc_bucket_time p1) pt then fofZ F 0 else fsub F (pc_bucket_time p1) pt in
      mkPacer (pc_mss p1) (pc_bucket_max p1) bt (pc_eval_time p1) (pc_packet_time p1) (pc_anom p1)
  | None => p
  end.

End Pacer.
