(* Model of the CALLERS of QuicPacketBuilder in src/aioquic/quic/connection.py: every _write_*_frame method,
   _write_handshake, _write_application and the builder part of datagrams_to_send, as functions that drive the builder
   model (model/Builder.v) and log the builder ops they perform (the trace).

   The frame types, the capacities handed to start_frame and the sequence of buf.push_* calls of every writer come from
   the GENERATED fragment gen/C13Writers.v (tools/gen/c13_writers.py, AST of the current source); this file supplies the
   control flow (written from the source) and the field values.

   Inputs that are decided elsewhere in the connection (which frames are pending, their field values, the stream
   senders that get_frame is called on) are abstract decision inputs: any list of loop iterations with any decisions is a
   possible input, which over-approximates the real connection.  The stream sender is the C10 model (model/StreamSend.v). *)
From AQ Require Import lib.Base lib.Tok gen.C13Consts gen.C13Writers model.Builder model.StreamSend.
From AQ Require model.Varint.

(* result of a writer: outcome (ODone = returned, OStop = QuicPacketBuilderStop, others = the exception that escaped),
   the builder state it leaves, the builder ops it performed in order (the op that raised included) *)
Definition wres := (outcome * st * list op)%type.

Definition wseq (r : wres) (k : st -> wres) : wres :=
  let '(o, s, tr) := r in
  match o with
  | ODone => let '(o2, s2, tr2) := k s in (o2, s2, tr ++ tr2)
  | _ => (o, s, tr)
  end.

(* except QuicPacketBuilderStop: pass *)
Definition wcatch (r : wres) : wres :=
  let '(o, s, tr) := r in match o with OStop => (ODone, s, tr) | _ => r end.

(* number of bytes one generated push writes; None = the push raises ValueError (push_uint_var of a value >= 2^62
   after reduction modulo 2^64; push_uint8 / push_uint16 use unchecked formats; push_bytes of a bytes object) *)
Definition push_size (p : Z * Z) : option Z :=
  let '(k, v) := p in
  if k =? 0 then Builder.size_uint_var (v mod 18446744073709551616)
  else if k =? 1 then Some v
  else if k =? 2 then Some 1
  else if k =? 3 then Some 2
  else None.

Fixpoint do_pushes (c : cfg) (s : st) (ps : list (Z * Z)) : wres :=
  match ps with
  | [] => (ODone, s, [])
  | p :: t =>
      match push_size p with
      | None => (OValue, s, [])
      | Some n =>
          let '(o, s1) := push c s n in
          match o with
          | ODone => let '(o2, s2, tr) := do_pushes c s1 t in (o2, s2, OpPush n :: tr)
          | _ => (o, s1, [OpPush n])
          end
      end
  end.

(* buf = builder.start_frame(ft, capacity=cap, ...); buf.push_*(...) ... *)
Definition do_frame (c : cfg) (s : st) (ft cap : Z) (ps : list (Z * Z)) : wres :=
  let '(o, s1) := start_frame c s ft cap in
  match o with
  | ODone => let '(o2, s2, tr) := do_pushes c s1 ps in (o2, s2, OpStartFrame ft cap :: tr)
  | _ => (o, s1, [OpStartFrame ft cap])
  end.

Definition do_start_packet (c : cfg) (s : st) (pt : Z) : wres :=
  let '(o, s1) := start_packet c s pt in (o, s1, [OpStartPacket pt]).

Definition do_flush (c : cfg) (s : st) : wres :=
  let '(o, s1, _, _) := flush c s in (o, s1, [OpFlush]).

Definition wskip (s : st) : wres := (ODone, s, []).

(* ---------- the frame writers ---------------------------------------------------------------------------- *)

Definition w_ping (c : cfg) (s : st) : wres :=
  do_frame c s W_ping_frame_0_ft W_ping_frame_0_cap W_ping_frame_0_pushes.

Definition w_handshake_done (c : cfg) (s : st) : wres :=
  do_frame c s W_handshake_done_frame_0_ft W_handshake_done_frame_0_cap W_handshake_done_frame_0_pushes.

(* challenge = os.urandom(8) / the 8 bytes pulled from the peer's PATH_CHALLENGE *)
Definition w_path_challenge (c : cfg) (s : st) : wres :=
  do_frame c s W_path_challenge_frame_0_ft W_path_challenge_frame_0_cap (W_path_challenge_frame_0_pushes 8).

Definition w_path_response (c : cfg) (s : st) : wres :=
  do_frame c s W_path_response_frame_0_ft W_path_response_frame_0_cap (W_path_response_frame_0_pushes 8).

(* packet.push_ack_frame on the values it computes from the range set: largest = last.stop - 1, first = length of the
   last range - 1, then per further range (gap, length - 1), newest first.  [rest] has len(ack_queue) - 1 entries. *)
Definition ack_pushes (largest delay first : Z) (rest : list (Z * Z)) : list (Z * Z) :=
  [(0, largest); (0, delay); (0, Zlen rest); (0, first)] ++ flat_map (fun gl => [(0, fst gl); (0, snd gl)]) rest.

Definition expand_ack (ps : list (Z * Z)) (a : list (Z * Z)) : list (Z * Z) :=
  flat_map (fun p => if fst p =? 4 then a else [p]) ps.

(* _write_ack_frame (the ranges are those left after the MAX_ACK_RANGES cap); an ACK with more than one range in a packet
   whose number is a multiple of 8 is followed by a PING *)
Definition w_ack (c : cfg) (s : st) (largest delay first : Z) (rest : list (Z * Z)) : wres :=
  wseq (do_frame c s W_ack_frame_0_ft (W_ack_frame_0_cap (1 + Zlen rest))
                 (expand_ack W_ack_frame_0_pushes (ack_pushes largest delay first rest)))
       (fun s1 => if (1 <? 1 + Zlen rest) && (b_pn s1 mod 8 =? 0) then w_ping c s1 else wskip s1).

(* _write_connection_close_frame.  early = epoch in (INITIAL, HANDSHAKE); ft = None: application close;
   rlen = len(reason_phrase.encode("utf8")); loss = the bytes of a cut multi-byte character dropped by
   decode("utf8", "ignore") when the reason is shortened *)
Definition w_close (c : cfg) (s : st) (early : bool) (code : Z) (ft : option Z) (rlen loss : Z) : wres :=
  let '(code, ft, rlen) :=
    match ft with
    | None => if early then (QEC_APPLICATION_ERROR, Some WFT_PADDING, 0) else (code, ft, rlen)
    | Some _ => (code, ft, rlen)
    end in
  let maxr := W_connection_close_frame_max_reason_length (remaining_buffer_space s) in
  let r := if rlen >? maxr then Z.max 0 (maxr - loss) else rlen in
  match ft with
  | None => do_frame c s W_connection_close_frame_0_ft (W_connection_close_frame_0_cap r)
                     (W_connection_close_frame_0_pushes code r r)
  | Some f => do_frame c s W_connection_close_frame_1_ft (W_connection_close_frame_1_cap r)
                       (W_connection_close_frame_1_pushes code f r r)
  end.

(* one MAX_DATA / MAX_STREAMS frame of _write_connection_limits *)
Definition w_conn_limit (c : cfg) (s : st) (ft value : Z) : wres :=
  do_frame c s (W_connection_limits_0_ft ft) W_connection_limits_0_cap (W_connection_limits_0_pushes value).

Definition w_stream_limit (c : cfg) (s : st) (sid value : Z) : wres :=
  do_frame c s W_stream_limits_0_ft W_stream_limits_0_cap (W_stream_limits_0_pushes sid value).

Definition w_new_connection_id (c : cfg) (s : st) (seq cidlen : Z) : wres :=
  do_frame c s W_new_connection_id_frame_0_ft W_new_connection_id_frame_0_cap
           (W_new_connection_id_frame_0_pushes seq W_new_connection_id_frame_retire_prior_to cidlen cidlen
                                               STATELESS_RESET_TOKEN_SIZE).

Definition w_retire_connection_id (c : cfg) (s : st) (seq : Z) : wres :=
  do_frame c s W_retire_connection_id_frame_0_ft W_retire_connection_id_frame_0_cap
           (W_retire_connection_id_frame_0_pushes seq).

Definition w_streams_blocked (c : cfg) (s : st) (ft limit : Z) : wres :=
  do_frame c s (W_streams_blocked_frame_0_ft ft) W_streams_blocked_frame_0_cap (W_streams_blocked_frame_0_pushes limit).

Definition w_reset_stream (c : cfg) (s : st) (sid code final : Z) : wres :=
  do_frame c s W_reset_stream_frame_0_ft W_reset_stream_frame_0_cap (W_reset_stream_frame_0_pushes sid code final).

Definition w_stop_sending (c : cfg) (s : st) (sid code : Z) : wres :=
  do_frame c s W_stop_sending_frame_0_ft W_stop_sending_frame_0_cap (W_stop_sending_frame_0_pushes sid code).

(* size_uint_var(v) raises ValueError above UINT_VAR_MAX *)
Definition vsz_raises (v : Z) : bool := match Varint.size_uint_var v with Ok _ => false | Err _ => true end.

(* _write_datagram_frame *)
Definition w_datagram (c : cfg) (s : st) (len : Z) : wres :=
  if vsz_raises len then (OValue, s, []) else
  do_frame c s (W_datagram_frame_0_ft WFT_DATAGRAM_WITH_LENGTH) (W_datagram_frame_0_cap (W_datagram_frame_frame_size len))
           (W_datagram_frame_0_pushes len len).

(* the part of _write_crypto_frame after get_frame returned (offset, data) *)
Definition w_crypto_with (c : cfg) (s : st) (ov off len : Z) : wres :=
  do_frame c s W_crypto_frame_0_ft (W_crypto_frame_0_cap ov) (W_crypto_frame_0_pushes off len len).

(* _write_crypto_frame; nxt = stream.sender.next_offset, gf max_size = what stream.sender.get_frame(max_size) returns *)
Definition w_crypto_gen (c : cfg) (s : st) (nxt : Z) (gf : Z -> sout) : wres :=
  if vsz_raises nxt then (OValue, s, []) else
  let ov := W_crypto_frame_frame_overhead nxt in
  match gf (remaining_flight_space s - ov) with
  | SFrame off data _ => w_crypto_with c s ov off (Zlen data)
  | SNone => wskip s
  | _ => (OAssertion, s, [])
  end.

(* ... on the C10 sender [snd] of the crypto stream *)
Definition w_crypto (c : cfg) (s : st) (snd : send) : wres :=
  w_crypto_gen c s (next_offset snd) (fun ms => fst (get_frame snd ms None)).

(* frame_type = STREAM_BASE | 2, | 4 with an offset, | 1 with FIN *)
Definition stream_ft (off : Z) (fin : bool) : Z :=
  WFT_STREAM_BASE + 2 + (if off =? 0 then 0 else 4) + (if fin then 1 else 0).

Definition w_stream_with (c : cfg) (s : st) (sid ov off len : Z) (fin : bool) : wres :=
  do_frame c s (W_stream_frame_0_ft (stream_ft off fin)) (W_stream_frame_0_cap ov) (W_stream_frame_0_pushes sid off len len).

(* the check added before get_frame: raise QuicPacketBuilderStop unless the frame header fits both spaces *)
Definition stream_gate (s : st) (ov : Z) : bool :=
  (remaining_flight_space s <? ov) || (remaining_buffer_space s <? ov).

(* _write_stream_frame; gf max_size = what stream.sender.get_frame(max_size, max_offset) returns *)
Definition w_stream_gen (c : cfg) (s : st) (sid nxt : Z) (gf : Z -> sout) : wres :=
  if vsz_raises sid || vsz_raises nxt then (OValue, s, []) else
  let ov := W_stream_frame_frame_overhead sid nxt in
  if stream_gate s ov then (OStop, s, []) else
  match gf (remaining_flight_space s - ov) with
  | SFrame off data fin => w_stream_with c s sid ov off (Zlen data) fin
  | SNone => wskip s
  | _ => (OAssertion, s, [])
  end.

(* ... on stream [sid] with the C10 sender [snd] and max_offset [mo] *)
Definition w_stream (c : cfg) (s : st) (sid : Z) (snd : send) (mo : Z) : wres :=
  w_stream_gen c s sid (next_offset snd) (fun ms => fst (get_frame snd ms (Some mo))).

(* ---------- the packet loops ------------------------------------------------------------------------------ *)

Fixpoint w_list {A} (w : st -> A -> wres) (s : st) (l : list A) : wres :=
  match l with
  | [] => wskip s
  | a :: t => wseq (w s a) (fun s1 => w_list w s1 t)
  end.

Definition w_opt {A} (w : st -> A -> wres) (s : st) (o : option A) : wres :=
  match o with Some a => w s a | None => wskip s end.

Definition w_if (b : bool) (w : st -> wres) (s : st) : wres := if b then w s else wskip s.

(* the DATAGRAM loop of _write_application: QuicPacketBuilderStop ends the loop, not the packet *)
Fixpoint w_datagrams (c : cfg) (s : st) (lens : list Z) : wres :=
  match lens with
  | [] => wskip s
  | n :: t =>
      let '(o, s1, tr) := w_datagram c s n in
      match o with
      | ODone => let '(o2, s2, tr2) := w_datagrams c s1 t in (o2, s2, tr ++ tr2)
      | OStop => (ODone, s1, tr)
      | _ => (o, s1, tr)
      end
  end.

Definition ack_in := (Z * Z * Z * list (Z * Z))%type.     (* largest, delay, first, rest *)
Definition w_ack_in (c : cfg) (s : st) (a : ack_in) : wres :=
  let '(largest, delay, first, rest) := a in w_ack c s largest delay first rest.

(* what the stream loop does for one entry of _streams_queue, in order *)
Inductive sdec :=
| SDStop (sid code : Z)                  (* STOP_SENDING *)
| SDReset (sid code final : Z)           (* RESET_STREAM *)
| SDStream (sid : Z) (snd : send) (mo : Z).

Definition w_sdec (c : cfg) (s : st) (d : sdec) : wres :=
  match d with
  | SDStop sid code => w_stop_sending c s sid code
  | SDReset sid code final => w_reset_stream c s sid code final
  | SDStream sid snd mo => w_stream c s sid snd mo
  end.

(* decisions of one iteration of the loop of _write_application (one packet), in the order of the source *)
Record app_iter := mkAI {
  ai_paced : bool;                       (* the pacer says wait: break before start_packet *)
  ai_ack : option ack_in;                (* ACK (first since fix 7b299f1) *)
  ai_challenge : bool;                   (* PATH_CHALLENGE *)
  ai_hs_done : bool;                     (* HANDSHAKE_DONE *)
  ai_responses : list unit;              (* one PATH_RESPONSE per queued remote challenge *)
  ai_new_cids : list (Z * Z);            (* NEW_CONNECTION_ID: sequence number, len(cid) *)
  ai_retire : list Z;                    (* RETIRE_CONNECTION_ID *)
  ai_blocked : list (Z * Z);             (* STREAMS_BLOCKED: frame type, limit *)
  ai_conn_limits : list (Z * Z);         (* MAX_DATA / MAX_STREAMS: frame type, value *)
  ai_stream_limits : list (Z * Z);       (* MAX_STREAM_DATA: stream id, value *)
  ai_ping_user : bool;
  ai_ping_probe : bool;
  ai_crypto : option send;               (* CRYPTO on the 1-RTT crypto stream *)
  ai_datagrams : list Z;                 (* lengths of the pending DATAGRAM payloads *)
  ai_streams : list sdec
}.

Definition w_app_iter (c : cfg) (s : st) (d : app_iter) : wres :=
  wseq (w_opt (w_ack_in c) s (ai_ack d)) (fun s =>
  wseq (w_if (ai_challenge d) (w_path_challenge c) s) (fun s =>
  wseq (w_if (ai_hs_done d) (w_handshake_done c) s) (fun s =>
  wseq (w_list (fun s _ => w_path_response c s) s (ai_responses d)) (fun s =>
  wseq (w_list (fun s x => w_new_connection_id c s (fst x) (snd x)) s (ai_new_cids d)) (fun s =>
  wseq (w_list (w_retire_connection_id c) s (ai_retire d)) (fun s =>
  wseq (w_list (fun s x => w_streams_blocked c s (fst x) (snd x)) s (ai_blocked d)) (fun s =>
  wseq (w_list (fun s x => w_conn_limit c s (fst x) (snd x)) s (ai_conn_limits d)) (fun s =>
  wseq (w_list (fun s x => w_stream_limit c s (fst x) (snd x)) s (ai_stream_limits d)) (fun s =>
  wseq (w_if (ai_ping_user d) (w_ping c) s) (fun s =>
  wseq (w_if (ai_ping_probe d) (w_ping c) s) (fun s =>
  wseq (w_opt (w_crypto c) s (ai_crypto d)) (fun s =>
  wseq (w_datagrams c s (ai_datagrams d)) (fun s =>
  w_list (w_sdec c) s (ai_streams d)))))))))))))).

(* while True: [pacing]; start_packet; frames; if builder.packet_is_empty: break *)
Fixpoint w_app (c : cfg) (s : st) (pt : Z) (its : list app_iter) : wres :=
  match its with
  | [] => wskip s
  | d :: t =>
      if ai_paced d then wskip s else
      wseq (do_start_packet c s pt) (fun s1 =>
      wseq (w_app_iter c s1 d) (fun s2 =>
      if cur_nonempty s2 then w_app c s2 pt t else wskip s2))
  end.

(* one iteration of _write_handshake: ACK, CRYPTO, PING (probe) *)
Record hs_iter := mkHI { hi_ack : option ack_in; hi_crypto : option send; hi_ping : bool }.

Definition w_hs_iter (c : cfg) (s : st) (d : hs_iter) : wres :=
  wseq (w_opt (w_ack_in c) s (hi_ack d)) (fun s =>
  wseq (w_opt (w_crypto c) s (hi_crypto d)) (fun s =>
  w_if (hi_ping d) (w_ping c) s)).

Fixpoint w_hs (c : cfg) (s : st) (pt : Z) (its : list hs_iter) : wres :=
  match its with
  | [] => wskip s
  | d :: t =>
      wseq (do_start_packet c s pt) (fun s1 =>
      wseq (w_hs_iter c s1 d) (fun s2 =>
      if cur_nonempty s2 then w_hs c s2 pt t else wskip s2))
  end.

(* the _close_pending branch: per epoch with send keys  try: start_packet; CONNECTION_CLOSE  except Stop: pass *)
Record close_in := mkCI {
  ci_packets : list (Z * bool);          (* packet type, epoch in (INITIAL, HANDSHAKE) *)
  ci_code : Z; ci_ft : option Z; ci_rlen : Z; ci_loss : Z
}.

Fixpoint w_close_round (c : cfg) (s : st) (ci : close_in) (pk : list (Z * bool)) : wres :=
  match pk with
  | [] => wskip s
  | (pt, early) :: t =>
      wseq (wcatch (wseq (do_start_packet c s pt)
                         (fun s1 => w_close c s1 early (ci_code ci) (ci_ft ci) (ci_rlen ci) (ci_loss ci))))
           (fun s2 => w_close_round c s2 ci t)
  end.

(* the builder part of datagrams_to_send; None = the epoch has no send keys / the handshake is confirmed *)
Record dts_in := mkDI {
  di_close : option close_in;
  di_initial : option (list hs_iter);
  di_handshake : option (list hs_iter);
  di_app : option (Z * list app_iter)     (* packet type ONE_RTT / ZERO_RTT *)
}.

Definition dts_body (c : cfg) (s : st) (d : dts_in) : wres :=
  match di_close d with
  | Some ci => w_close_round c s ci (ci_packets ci)
  | None =>
      wcatch (wseq (w_opt (fun s l => w_hs c s PT_INITIAL l) s (di_initial d)) (fun s =>
              wseq (w_opt (fun s l => w_hs c s PT_HANDSHAKE l) s (di_handshake d)) (fun s =>
              w_opt (fun s x => w_app c s (fst x) (snd x)) s (di_app d))))
  end.

(* ... followed by builder.flush() unless an exception other than QuicPacketBuilderStop escaped *)
Definition dts (c : cfg) (s : st) (d : dts_in) : wres := wseq (dts_body c s d) (do_flush c).

(* the builder op history of one datagrams_to_send call on a fresh builder *)
Definition dts_trace (c : cfg) (pn : Z) (d : dts_in) : list op := snd (dts c (init_st c pn) d).

(* ---------- executable interface (tie) ----------------------------------------------------------------------
   A builder session of one datagrams_to_send call as connection.py drove it, with the field values of every writer call:
     input:  is_client mds peer host token  mf_opt mt_opt cmax_opt  pn   ops...        (as exec_builder)
     ops:    0 t              = builder.start_packet(t)
             1 wid n a1..an   = the writer with id wid (gen/C13Writers.v) called with field values a1..an
             3                = builder.flush()
     output per op: outcome code, [writer: number of start_frame calls, per call (type, capacity, bytes pushed after the
             type)], the observers of exec_builder (remaining_buffer_space, remaining_flight_space, packet_is_empty,
             packet_number), [flush: datagram lengths]. *)
Fixpoint sum_pushes (tr : list op) : Z * list op :=
  match tr with
  | OpPush n :: t => let '(a, r) := sum_pushes t in (n + a, r)
  | _ => (0, tr)
  end.

Fixpoint frames_of (fuel : nat) (tr : list op) : list (Z * Z * Z) :=
  match fuel with O => [] | S fuel =>
  match tr with
  | OpStartFrame ft cap :: t => let '(a, r) := sum_pushes t in (ft, cap, a) :: frames_of fuel r
  | _ :: t => frames_of fuel t
  | [] => []
  end end.

Definition out_frames (tr : list op) : list Z :=
  let fs := frames_of (length tr) tr in
  Zlen fs :: flat_map (fun x => let '(ft, cap, a) := x in [ft; cap; a]) fs.

Fixpoint rd_pairs (n : nat) (t : list Z) : list (Z * Z) :=
  match n, t with
  | S n, a :: b :: r => (a, b) :: rd_pairs n r
  | _, _ => []
  end.

(* the recorded result of sender.get_frame: 0 = None | 1 offset length fin *)
Definition rd_frame (t : list Z) : sout :=
  match t with
  | 1 :: off :: len :: fin :: _ => SFrame off (repeat 0 (Z.to_nat len)) (z2b fin)
  | _ => SNone
  end.

Definition exec_w (c : cfg) (s : st) (wid : Z) (a : list Z) : option wres :=
  if wid =? 0 then
    match a with
    | largest :: delay :: first :: n :: r => Some (w_ack c s largest delay first (rd_pairs (Z.to_nat n) r))
    | _ => None end
  else if wid =? 1 then
    match a with
    | early :: code :: hasft :: ft :: rlen :: loss :: _ =>
        Some (w_close c s (z2b early) code (if hasft =? 0 then None else Some ft) rlen loss)
    | _ => None end
  else if wid =? 2 then
    match a with n :: r => Some (w_list (fun s x => w_conn_limit c s (fst x) (snd x)) s (rd_pairs (Z.to_nat n) r)) | _ => None end
  else if wid =? 3 then match a with nxt :: r => Some (w_crypto_gen c s nxt (fun _ => rd_frame r)) | _ => None end
  else if wid =? 4 then match a with len :: _ => Some (w_datagram c s len) | _ => None end
  else if wid =? 5 then Some (w_handshake_done c s)
  else if wid =? 6 then match a with seq :: cl :: _ => Some (w_new_connection_id c s seq cl) | _ => None end
  else if wid =? 7 then Some (w_path_challenge c s)
  else if wid =? 8 then Some (w_path_response c s)
  else if wid =? 9 then Some (w_ping c s)
  else if wid =? 10 then match a with sid :: code :: fin :: _ => Some (w_reset_stream c s sid code fin) | _ => None end
  else if wid =? 11 then match a with seq :: _ => Some (w_retire_connection_id c s seq) | _ => None end
  else if wid =? 12 then match a with sid :: code :: _ => Some (w_stop_sending c s sid code) | _ => None end
  else if wid =? 13 then match a with sid :: nxt :: r => Some (w_stream_gen c s sid nxt (fun _ => rd_frame r)) | _ => None end
  else if wid =? 14 then
    match a with n :: r => Some (w_list (fun s x => w_stream_limit c s (fst x) (snd x)) s (rd_pairs (Z.to_nat n) r)) | _ => None end
  else if wid =? 15 then match a with ft :: lim :: _ => Some (w_streams_blocked c s ft lim) | _ => None end
  else None.

Fixpoint exec_wops (fuel : nat) (c : cfg) (s : st) (toks : list Z) : list Z :=
  match fuel with O => [] | S fuel =>
  match toks with
  | 0 :: t :: r => let '(o, s') := start_packet c s t in out_outcome o :: obs s' ++ exec_wops fuel c s' r
  | 1 :: wid :: n :: r =>
      match exec_w c s wid (firstn (Z.to_nat n) r) with
      | Some (o, s', tr) => out_outcome o :: out_frames tr ++ obs s' ++ exec_wops fuel c s' (skipn (Z.to_nat n) r)
      | None => []
      end
  | 3 :: r =>
      let '(o, s', d, _) := flush c s in
      out_outcome o :: obs s' ++ (Zlen d :: d) ++ exec_wops fuel c s' r
  | _ => []
  end end.

(* EXTRACT: exec_writers *)
Definition exec_writers (toks : list Z) : list Z :=
  match toks with
  | cl :: mds :: peer :: host :: token :: r =>
      let '(mf, r) := tk_opt r in
      let '(mt, r) := tk_opt r in
      let '(cm, r) := tk_opt r in
      match r with
      | pn :: r =>
          let c := mkCfg (z2b cl) mds peer host token mf mt cm in
          exec_wops (length r) c (init_st c pn) r
      | [] => []
      end
  | _ => []
  end.
