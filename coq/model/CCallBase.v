(* C04: vocabulary of the GENERATED caller model (coq/gen/CCallers.v, produced from the current
   crypto.py / packet_builder.py / connection.py / packet.py by tools/gen/c04_callers.py).
   A native call is recorded with the LENGTHS of its bytes arguments and the value of its integer
   argument; slices are taken with Python's semantics.  No proofs here. *)
From Coq Require Import ZArith List Bool.
Import ListNotations.
Local Open Scope Z_scope.

Inductive ncall :=
| NAeadEncrypt (data_len associated_len : Z)     (* AEAD.encrypt(data, associated_data, pn) *)
| NAeadDecrypt (data_len associated_len : Z)     (* AEAD.decrypt(data, associated_data, pn) *)
| NHpApply (header_len payload_len : Z)          (* HeaderProtection.apply(plain_header, protected_payload) *)
| NHpRemove (packet_len pn_offset : Z).          (* HeaderProtection.remove(packet, pn_offset): pn_offset is the PYTHON int *)

(* x[a:b] on a sequence of length n (CPython PySlice_AdjustIndices, step 1): a negative bound counts
   from the end and is clipped at 0, a bound beyond n is clipped at n. *)
Definition py_index (n i : Z) : Z := if i <? 0 then Z.max 0 (i + n) else Z.min i n.
Definition py_slice_len (n a b : Z) : Z := Z.max 0 (py_index n b - py_index n a).

(* PyArg_ParseTuple format "I" into a C `int` (as _crypto.c does for pn_offset): no overflow check, the value is
   reduced modulo 2^32 and the bit pattern is read as a signed int. *)
Definition c_int_of_I (v : Z) : Z :=
  let m := v mod 4294967296 in if m <? 2147483648 then m else m - 4294967296.
