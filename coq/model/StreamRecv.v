(* Model of QuicStreamReceiver (src/aioquic/quic/stream.py): handle_frame, handle_reset, _pull_data. *)
From AQ Require Import lib.Base lib.Tok model.RangeSet.

Record recv := mkRecv {
  r_highest : Z;            (* highest_offset *)
  r_finished : bool;        (* is_finished *)
  r_buf : list Z;           (* _buffer (bytearray; gaps are zero-filled) *)
  r_start : Z;              (* _buffer_start *)
  r_final : option Z;       (* _final_size *)
  r_ranges : rs             (* _ranges *)
}.

Definition recv_init : recv := mkRecv 0 false [] 0 None [].

Inductive rout :=
| RNone                               (* handle_frame returned None *)
| RData (data : list Z) (fin : bool)  (* StreamDataReceived(data, end_stream) *)
| RFinalSizeError                     (* raise FinalSizeError; state unchanged *)
| RReset.                             (* StreamReset event *)

Definition opt_eqb (o : option Z) (v : Z) : bool :=
  match o with Some f => f =? v | None => false end.

(* _pull_data *)
Definition pull_data (st : recv) : list Z * recv :=
  match r_ranges st with
  | (s, e) :: rest =>
      if s =? r_start st then
        let n := e - s in
        (ztake n (r_buf st),
         mkRecv (r_highest st) (r_finished st) (zdrop n (r_buf st)) e (r_final st) rest)
      else ([], st)
  | [] => ([], st)
  end.

(* self._buffer[pos : pos + count] = data, after zero-filling a gap *)
Definition splice (buf : list Z) (pos : Z) (data : list Z) : list Z :=
  let gap := pos - Zlen buf in
  let buf := if gap >? 0 then buf ++ zeros gap else buf in
  ztake pos buf ++ data ++ zdrop (pos + Zlen data) buf.

Definition handle_frame (st : recv) (offset : Z) (data : list Z) (fin : bool) : rout * recv :=
  let pos := offset - r_start st in
  let count := Zlen data in
  let frame_end := offset + count in
  let bad :=
    match r_final st with
    | Some f => (frame_end >? f) || (fin && negb (frame_end =? f))
    | None => false
    end in
  if bad then (RFinalSizeError, st) else
  let final' := if fin then Some frame_end else r_final st in
  let highest' := if frame_end >? r_highest st then frame_end else r_highest st in
  if (pos =? 0) && negb (count =? 0) && (match r_buf st with [] => true | _ => false end) then
    (RData data fin,
     mkRecv highest' (if fin then true else r_finished st) (r_buf st) (r_start st + count) final' (r_ranges st))
  else
    let '(data, offset, pos) :=
      if pos <? 0 then (zdrop (- pos) data, offset - pos, 0) else (data, offset, pos) in
    let ranges' := if frame_end >? offset then add offset frame_end (r_ranges st) else r_ranges st in
    let buf' := splice (r_buf st) pos data in
    let '(out, st1) := pull_data (mkRecv highest' (r_finished st) buf' (r_start st) final' ranges') in
    let end_stream := opt_eqb (r_final st1) (r_start st1) in
    let st2 := mkRecv (r_highest st1) (if end_stream then true else r_finished st1)
                      (r_buf st1) (r_start st1) (r_final st1) (r_ranges st1) in
    match out, end_stream with
    | [], false => (RNone, st2)
    | _, _ => (RData out end_stream, st2)
    end.

Definition handle_reset (st : recv) (final_size : Z) : rout * recv :=
  match r_final st with
  | Some f => if negb (f =? final_size) then (RFinalSizeError, st)
              else (RReset, mkRecv (r_highest st) true (r_buf st) (r_start st) (Some final_size) (r_ranges st))
  | None => (RReset, mkRecv (r_highest st) true (r_buf st) (r_start st) (Some final_size) (r_ranges st))
  end.

(* ---------- executable interface ---------------------------------------------------
   ops:  0 offset fin n b1..bn  = handle_frame ;  1 final_size = handle_reset
   out per op: kind (0 None | 1 fin n bytes.. | 2 FinalSizeError | 3 reset), then
               highest_offset, is_finished, starting_offset() *)
Definition out_rout (o : rout) : list Z :=
  match o with
  | RNone => [0]
  | RData d f => 1 :: b2z f :: out_list d
  | RFinalSizeError => [2]
  | RReset => [3]
  end.
Definition obs_recv (st : recv) : list Z := [r_highest st; b2z (r_finished st); r_start st].

Fixpoint exec_recv (fuel : nat) (st : recv) (ops : list Z) : list Z :=
  match fuel with O => [] | S fuel =>
  match ops with
  | 0 :: off :: fin :: t =>
      let '(d, t) := tk_list t in
      let '(o, st') := handle_frame st off d (z2b fin) in
      out_rout o ++ obs_recv st' ++ exec_recv fuel st' t
  | 1 :: fs :: t =>
      let '(o, st') := handle_reset st fs in
      out_rout o ++ obs_recv st' ++ exec_recv fuel st' t
  | _ => []
  end end.

(* EXTRACT: exec_streamrecv *)
Definition exec_streamrecv (ops : list Z) : list Z := exec_recv (length ops) recv_init ops.
