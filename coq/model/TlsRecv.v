(* C05: tls.Context.handle_message over raw CRYPTO bytes -- the reassembly loop (with the
   MAX_HANDSHAKE_MESSAGE_SIZE bound of bb5bf12), _handle_reassembled_message through the GENERATED dispatch
   table (gen/TlsDispatch.v, shared with C11), the parsers of model/TlsParse.v, and every
   _client_handle_* / _server_handle_* handler with its checks in source order.  Exceptions are outcomes:

     XBuf           BufferReadError        (turned into AlertDecodeError by handle_message's try/except)
     XAlert d       tls.Alert subclass with description d    (leaves handle_message; _handle_crypto_frame
                                                              turns it into QuicConnectionError CRYPTO_ERROR+d)
     XQuic code ft  QuicConnectionError raised by a connection callback (_alpn_handler, _handle_session_ticket)
     XOther k       any other class: escapes receive_datagram

   Cryptography / X.509 / application callbacks are not computed: each dispatched message consults one
   oracle record [orc] whose fields say what the library call answered (value or exception class); the
   model says what the code does with each answer.  Ranges: every field is decoded totally (an
   out-of-range number means "no exception"), so the theorems quantify over ALL oracle records.

   [patched = true] has docs/C05-fix-7.patch (verify_certificate, in /repo since 46db33a) and docs/C05-fix-9.patch
   (_set_peer_certificate: x509.InvalidVersion); [patched = false] has neither.

   State kept: what a later check reads -- state, _receive_buffer, _session_resumed, _key_schedule_psk (its
   cipher suite), `_key_schedule_proxy is not None`, key_schedule.generation (-1: key_schedule is None),
   `_peer_certificate is not None`.  Not kept (no check reads them / cannot raise): transcript hash, secrets,
   _certificate_request (only steers what the client SENDS), alpn_negotiated, output buffers (their
   capacity, 4096, against the LOCAL certificate chain is a configuration matter, not network input). *)
From AQ Require Import lib.Base lib.Tok model.Codec model.TlsCodec model.TlsParse gen.C05Tables gen.C05Tls gen.TlsDispatch.

(* exception classes for XOther (same numbering as ConnRecv.EXN_* ) *)
Definition TX_AssertionError : Z := 1.
Definition TX_KeyError : Z := 3.
Definition TX_ValueError : Z := 5.
Definition TX_AttributeError : Z := 7.
Definition TX_CertificateError : Z := 8.      (* service_identity.CertificateError *)
Definition TX_InvalidVersion : Z := 10.       (* cryptography.x509.InvalidVersion (a plain Exception subclass) *)

Inductive texn : Type :=
| XBuf
| XAlert (d : Z)
| XQuic (code ft : Z)
| XOther (k : Z).

(* ---- configuration (constructor arguments / attributes fixed before the handshake) ------------ *)
Record tcfg := mkCfg {
  g_cipher_suites : list Z;             (* _cipher_suites *)
  g_sig_algs : list Z;                  (* _signature_algorithms *)
  g_alpn : option (list (list Z));      (* _alpn_protocols (ASCII bytes) *)
  g_key_sigs : list Z;                  (* _signature_algorithms_for_private_key() *)
  g_verify : bool;                      (* _verify_mode != ssl.CERT_NONE *)
  g_reqcert : bool;                     (* _request_client_certificate *)
  g_alpn_cb : bool;                     (* alpn_cb is set (QuicConnection._alpn_handler) *)
  g_fetcher : bool;                     (* get_session_ticket_cb is not None *)
  g_ticket_cb : bool;                   (* new_session_ticket_cb is not None (QuicConnection._handle_session_ticket) *)
  g_x25519 : bool;                      (* client: _x25519_private_key is not None *)
  g_x448 : bool;                        (* client: _x448_private_key is not None *)
  g_ec : list Z;                        (* client: groups of _ec_private_keys *)
  g_psk : option Z                      (* client: cipher suite of a valid session_ticket when the hello is sent *)
}.

Record tctx := mkCtx {
  t_state : State;
  t_buf : list Z;                       (* _receive_buffer *)
  t_resumed : bool;                     (* _session_resumed *)
  t_kpsk : option Z;                    (* _key_schedule_psk (cipher suite) *)
  t_kproxy : bool;                      (* _key_schedule_proxy is not None *)
  t_gen : Z;                            (* generation of the key schedule(s) held; -1 = none *)
  t_peer_cert : bool                    (* _peer_certificate is not None *)
}.

Record orc := mkOrc {
  o_share : list Z;   (* per key_share entry, in order: 1 = from_public_bytes / from_encoded_point raises ValueError,
                         2 = exchange() raises ValueError, other = fine *)
  o_tp_code : Z;      (* _alpn_handler with transport parameters present: 0 accepted, else QuicConnectionError code *)
  o_tp_ft : Z;        (*   ... and its frame_type *)
  o_ticket : Z;       (* get_session_ticket_cb(identity): cipher suite of a ticket that is_valid, -1 otherwise *)
  o_binder : bool;    (* PSK binder equals the expected value *)
  o_load : Z;         (* x509.load_der_x509_certificate: 0 raises ValueError, 2 raises x509.InvalidVersion, other: accepts every entry *)
  o_pubkey : Z;       (* _peer_certificate.public_key(): 0 raises ValueError / UnsupportedAlgorithm,
                         1 Ed25519, 2 Ed448, 3 EllipticCurve, 4 RSA, other: another key type *)
  o_sig : bool;       (* public_key.verify succeeds (else InvalidSignature / ValueError) *)
  o_vcert : Z;        (* verify_certificate: 1 AlertCertificateExpired, 2 AlertBadCertificate (name or chain),
                         4 certificate.extensions raises ValueError / DuplicateExtension inside service_identity,
                         5 extract_patterns raises CertificateError again inside the except handler, other: passes *)
  o_mac : bool        (* Finished.verify_data equals the expected value *)
}.
Definition orc0 : orc := mkOrc [] 0 0 (-1) true 1 1 true 0 true.

Inductive lres : Type :=
| LOk (c : tctx) (rest : list Z)        (* handler returned; rest = unread part of input_buf *)
| LExn (e : texn).

Definition set_state (c : tctx) (s : State) : tctx :=
  mkCtx s (t_buf c) (t_resumed c) (t_kpsk c) (t_kproxy c) (t_gen c) (t_peer_cert c).
Definition set_buf (c : tctx) (b : list Z) : tctx :=
  mkCtx (t_state c) b (t_resumed c) (t_kpsk c) (t_kproxy c) (t_gen c) (t_peer_cert c).
Definition set_gen (c : tctx) (n : Z) : tctx :=
  mkCtx (t_state c) (t_buf c) (t_resumed c) (t_kpsk c) (t_kproxy c) n (t_peer_cert c).
Definition set_peer_cert (c : tctx) : tctx :=
  mkCtx (t_state c) (t_buf c) (t_resumed c) (t_kpsk c) (t_kproxy c) (t_gen c) true.

(* a parser's Res as a handler-level exception *)
Definition exn_of_kind (k : Z) : texn :=
  if k =? E_READ then XBuf
  else if k =? E_ALERT_DECODE then XAlert AD_decode_error
  else if k =? E_ALERT_ILLEGAL then XAlert AD_illegal_parameter
  else if k =? E_ASSERT then XOther TX_AssertionError
  else XOther 9.

Definition parsed {A} (r : Res (A * list Z)) (k : A -> list Z -> lres) : lres :=
  match r with Ok (v, rest) => k v rest | Err e => LExn (exn_of_kind e) end.

Definition zin (x : Z) (l : list Z) : bool := existsb (Z.eqb x) l.
Fixpoint bytes_eqb (a b : list Z) : bool :=
  match a, b with
  | [], [] => true
  | x :: a', y :: b' => (x =? y) && bytes_eqb a' b'
  | _, _ => false
  end.

(* negotiate(supported, offered): the first supported value that was offered *)
Definition negotiate (supported : list Z) (offered : option (list Z)) : option Z :=
  match offered with None => None | Some off => find (fun c => zin c off) supported end.
Definition negotiate_bytes (supported : list (list Z)) (offered : option (list (list Z))) : option (list Z) :=
  match offered with None => None | Some off => find (fun c => existsb (bytes_eqb c) off) supported end.

(* ---- QuicConnection._alpn_handler: for/else over received_extensions ----------------------- *)
Definition alpn_handler (g : tcfg) (o : orc) (other : list extension) : option texn :=
  if negb (g_alpn_cb g) then None else
  if negb (existsb (fun e => fst e =? XT_QUIC_TRANSPORT_PARAMETERS) other)
  then Some (XQuic (EC_CRYPTO_ERROR + AD_missing_extension) FT_CRYPTO)
  else if o_tp_code o =? 0 then None else Some (XQuic (o_tp_code o) (o_tp_ft o)).

(* ---- decode_public_key + the key exchange ---------------------------------------------------- *)
Definition known_group (grp : Z) : bool :=
  (grp =? GRP_X25519) || (grp =? GRP_X448) || zin grp GROUP_TO_CURVE_keys.

(* client: one share; None = shared_key obtained *)
Definition client_exchange (g : tcfg) (o : Z) (ks : key_share) : option texn :=
  let grp := fst ks in
  if negb (known_group grp) then Some (XAlert AD_illegal_parameter)        (* decode -> None -> shared_key is None *)
  else if o =? 1 then Some (XAlert AD_illegal_parameter)                   (* except ValueError in decode_public_key *)
  else
    let have := if grp =? GRP_X25519 then g_x25519 g else if grp =? GRP_X448 then g_x448 g else zin grp (g_ec g) in
    if negb have then Some (XAlert AD_illegal_parameter)                   (* group we did not offer *)
    else if o =? 2 then Some (XAlert AD_illegal_parameter)                 (* except ValueError around exchange *)
    else None.

(* server: `for key_share in peer_hello.key_share or []`, first share of a known group decides *)
Fixpoint server_exchange (os : list Z) (kss : list key_share) : option texn :=
  match kss with
  | [] => Some (XAlert AD_handshake_failure)                               (* No supported key share *)
  | ks :: r =>
      let o := hd 0 os in
      if negb (known_group (fst ks)) then server_exchange (tl os) r
      else if (o =? 1) || (o =? 2) then Some (XAlert AD_illegal_parameter)
      else None
  end.

(* ---- _check_certificate_verify_signature ----------------------------------------------------- *)
Definition check_certificate_verify (g : tcfg) (c : tctx) (o : orc) (alg : Z) : option texn :=
  if negb (zin alg (g_sig_algs g)) then Some (XAlert AD_decrypt_error) else
  if negb (t_peer_cert c) then Some (XOther TX_AttributeError) else       (* None.public_key() *)
  if o_pubkey o =? 0 then Some (XAlert AD_bad_certificate) else
  if (alg =? SA_ED25519) then
    if o_pubkey o =? 1 then (if o_sig o then None else Some (XAlert AD_decrypt_error))
    else Some (XAlert AD_illegal_parameter)
  else if (alg =? SA_ED448) then
    if o_pubkey o =? 2 then (if o_sig o then None else Some (XAlert AD_decrypt_error))
    else Some (XAlert AD_illegal_parameter)
  else if negb (zin alg SIGNATURE_ALGORITHMS_keys) then Some (XOther TX_KeyError)   (* SIGNATURE_ALGORITHMS[alg] *)
  else
    let matches := if zin alg SIGNATURE_ALGORITHMS_ec then o_pubkey o =? 3 else o_pubkey o =? 4 in
    if negb matches then Some (XAlert AD_illegal_parameter)
    else if o_sig o then None else Some (XAlert AD_decrypt_error).

(* ---- verify_certificate ------------------------------------------------------------------------ *)
Definition verify_certificate (patched : bool) (o : orc) : option texn :=
  if o_vcert o =? 1 then Some (XAlert AD_certificate_expired)
  else if o_vcert o =? 2 then Some (XAlert AD_bad_certificate)
  else if o_vcert o =? 4 then Some (if patched then XAlert AD_bad_certificate else XOther TX_ValueError)
  else if o_vcert o =? 5 then Some (if patched then XAlert AD_bad_certificate else XOther TX_CertificateError)
  else None.

(* ---- _set_peer_certificate ---------------------------------------------------------------------- *)
Definition set_peer_certificate (patched : bool) (o : orc) (certs : list (list Z)) : option texn :=
  match certs with
  | [] => Some (XAlert AD_decode_error)
  | _ :: _ =>
      if o_load o =? 0 then Some (XAlert AD_bad_certificate)                  (* except ValueError *)
      else if o_load o =? 2 then                                              (* docs/C05-fix-9.patch catches it too *)
        Some (if patched then XAlert AD_bad_certificate else XOther TX_InvalidVersion)
      else None
  end.

Definition need_schedule (c : tctx) (k : lres) : lres :=      (* self.key_schedule.<...> *)
  if t_gen c <? 0 then LExn (XOther TX_AttributeError) else k.

(* ---- client handlers ------------------------------------------------------------------------------ *)
Definition client_handle_hello (g : tcfg) (c : tctx) (o : orc) (msg : list Z) : lres :=
  parsed (pull_server_hello msg) (fun h rest =>
    match negotiate (g_cipher_suites g) (Some [sh_cipher_suite h]) with
    | None => LExn (XAlert AD_handshake_failure)
    | Some cipher =>
      if negb (zin (sh_compression h) default_legacy_compression_methods) then LExn (XAlert AD_illegal_parameter) else
      if negb (match sh_version h with Some v => zin v default_supported_versions | None => false end)
      then LExn (XAlert AD_illegal_parameter) else
      let sel : Res bool :=        (* Ok resumed | the exception *)
        match sh_psk h with
        | Some idx =>
            match t_kpsk c with
            | None => Err 1
            | Some suite => if negb (idx =? 0) || negb (cipher =? suite) then Err 1 else Ok true
            end
        | None =>
            if negb (t_kproxy c) then Err 2                                   (* None.select *)
            else if negb (zin cipher (g_cipher_suites g)) then Err 3          (* self.__schedules[cipher_suite] *)
            else Ok (t_resumed c)
        end in
      match sel with
      | Err k => LExn (if k =? 1 then XAlert AD_illegal_parameter
                       else if k =? 2 then XOther TX_AttributeError else XOther TX_KeyError)
      | Ok resumed =>
          match sh_key_share h with
          | None => LExn (XAlert AD_illegal_parameter)
          | Some ks =>
              match client_exchange g (hd 0 (o_share o)) ks with
              | Some e => LExn e
              | None =>
                  LOk (mkCtx CLIENT_EXPECT_ENCRYPTED_EXTENSIONS (t_buf c) resumed None false (t_gen c + 1)
                             (t_peer_cert c)) rest
              end
          end
      end
    end).

Definition client_handle_encrypted_extensions (g : tcfg) (c : tctx) (o : orc) (msg : list Z) : lres :=
  parsed (pull_encrypted_extensions msg) (fun other rest =>
    match alpn_handler g o other with
    | Some e => LExn e
    | None =>
        need_schedule c
          (LOk (set_state c (if t_resumed c then CLIENT_EXPECT_FINISHED
                             else CLIENT_EXPECT_CERTIFICATE_REQUEST_OR_CERTIFICATE)) rest)
    end).

Definition client_handle_certificate_request (g : tcfg) (c : tctx) (o : orc) (msg : list Z) : lres :=
  parsed (pull_certificate_request msg) (fun _ rest =>
    need_schedule c (LOk (set_state c CLIENT_EXPECT_CERTIFICATE) rest)).

Definition client_handle_certificate (patched : bool) (g : tcfg) (c : tctx) (o : orc) (msg : list Z) : lres :=
  parsed (pull_certificate msg) (fun certs rest =>
    need_schedule c
      match set_peer_certificate patched o certs with
      | Some e => LExn e
      | None => LOk (set_state (set_peer_cert c) CLIENT_EXPECT_CERTIFICATE_VERIFY) rest
      end).

Definition client_handle_certificate_verify (patched : bool) (g : tcfg) (c : tctx) (o : orc) (msg : list Z) : lres :=
  parsed (pull_certificate_verify msg) (fun v rest =>
    match check_certificate_verify g c o (fst v) with
    | Some e => LExn e
    | None =>
        match (if g_verify g then verify_certificate patched o else None) with
        | Some e => LExn e
        | None => need_schedule c (LOk (set_state c CLIENT_EXPECT_FINISHED) rest)
        end
    end).

Definition client_handle_finished (g : tcfg) (c : tctx) (o : orc) (msg : list Z) : lres :=
  parsed (pull_finished msg) (fun _ rest =>
    need_schedule c
      (if negb (o_mac o) then LExn (XAlert AD_decrypt_error)
       else if negb (t_gen c =? 2) then LExn (XOther TX_AssertionError)       (* assert generation == 2 *)
       else LOk (set_state (set_gen c 3) CLIENT_POST_HANDSHAKE) rest)).

(* + QuicConnection._handle_session_ticket *)
Definition client_handle_new_session_ticket (g : tcfg) (c : tctx) (o : orc) (msg : list Z) : lres :=
  parsed (pull_new_session_ticket msg) (fun med rest =>
    if negb (g_ticket_cb g) then LOk c rest else
    need_schedule c
      match med with
      | Some v => if negb (v =? MAX_EARLY_DATA) then LExn (XQuic EC_PROTOCOL_VIOLATION FT_CRYPTO) else LOk c rest
      | None => LOk c rest
      end).

(* ---- server handlers ------------------------------------------------------------------------------ *)
Definition digest_size (cipher : Z) : Z := if cipher =? CS_AES_256_GCM_SHA384 then 48 else 32.

Definition server_handle_hello (g : tcfg) (c : tctx) (o : orc) (msg : list Z) : lres :=
  parsed (pull_client_hello msg) (fun h rest =>
    match negotiate (g_cipher_suites g) (Some (ch_cipher_suites h)) with
    | None => LExn (XAlert AD_handshake_failure) | Some cipher =>
    match negotiate default_legacy_compression_methods (Some (ch_compression h)) with
    | None => LExn (XAlert AD_handshake_failure) | Some _ =>
    let psk_mode := negotiate default_psk_key_exchange_modes (ch_psk_modes h) in
    match negotiate (g_key_sigs g) (ch_sigalgs h) with
    | None => LExn (XAlert AD_handshake_failure) | Some _ =>
    match negotiate default_supported_versions (ch_versions h) with
    | None => LExn (XAlert AD_protocol_version) | Some _ =>
    if (match g_alpn g with
        | Some mine => match negotiate_bytes mine (ch_alpn h) with None => true | Some _ => false end
        | None => false end)
    then LExn (XAlert AD_handshake_failure) else
    match alpn_handler g o (ch_other h) with
    | Some e => LExn e | None =>
    (* PSK: Ok resumed | the exception *)
    let use_psk := g_fetcher g && (match psk_mode with Some _ => true | None => false end)
                   && (match ch_psk h with Some (ni, nb) => (ni =? 1) && (nb =? 1) | None => false end)
                   && (o_ticket o =? cipher) in
    if use_psk && (Zlen msg - Zlen rest - digest_size cipher - 3 <? 0) then LExn XBuf   (* input_buf.data_slice *)
    else if use_psk && negb (o_binder o) then LExn (XAlert AD_handshake_failure)
    else
      match server_exchange (o_share o) (match ch_key_share h with Some l => l | None => [] end) with
      | Some e => LExn e
      | None =>
          LOk (mkCtx (if g_reqcert g then SERVER_EXPECT_CERTIFICATE else SERVER_EXPECT_FINISHED)
                     (t_buf c) (use_psk || t_resumed c) (t_kpsk c) (t_kproxy c) 3 (t_peer_cert c)) rest
      end
    end end end end end).

Definition server_handle_certificate (patched : bool) (g : tcfg) (c : tctx) (o : orc) (msg : list Z) : lres :=
  parsed (pull_certificate msg) (fun certs rest =>
    need_schedule c
      match certs with
      | [] => LOk (set_state c SERVER_EXPECT_FINISHED) rest
      | _ :: _ =>
          match set_peer_certificate patched o certs with
          | Some e => LExn e
          | None => LOk (set_state (set_peer_cert c) SERVER_EXPECT_CERTIFICATE_VERIFY) rest
          end
      end).

Definition server_handle_certificate_verify (g : tcfg) (c : tctx) (o : orc) (msg : list Z) : lres :=
  parsed (pull_certificate_verify msg) (fun v rest =>
    match check_certificate_verify g c o (fst v) with
    | Some e => LExn e
    | None => need_schedule c (LOk (set_state c SERVER_EXPECT_FINISHED) rest)
    end).

Definition server_handle_finished (g : tcfg) (c : tctx) (o : orc) (msg : list Z) : lres :=
  parsed (pull_finished msg) (fun _ rest =>
    if negb (o_mac o) then LExn (XAlert AD_decrypt_error)
    else need_schedule c (LOk (set_state c SERVER_POST_HANDSHAKE) rest)).

(* _client_send_hello: reached through handle_message's CLIENT_HANDSHAKE_START shortcut only *)
Definition client_send_hello (g : tcfg) (c : tctx) : tctx :=
  mkCtx CLIENT_EXPECT_SERVER_HELLO (t_buf c) (t_resumed c) (g_psk g) true 1 (t_peer_cert c).

(* exhaustive over the GENERATED handler type *)
Definition run_tls_handler (patched : bool) (h : TlsDispatch.handler) (g : tcfg) (c : tctx) (o : orc) (msg : list Z) : lres :=
  match h with
  | H_client_handle_hello => client_handle_hello g c o msg
  | H_client_handle_encrypted_extensions => client_handle_encrypted_extensions g c o msg
  | H_client_handle_certificate_request => client_handle_certificate_request g c o msg
  | H_client_handle_certificate => client_handle_certificate patched g c o msg
  | H_client_handle_certificate_verify => client_handle_certificate_verify patched g c o msg
  | H_client_handle_finished => client_handle_finished g c o msg
  | H_client_handle_new_session_ticket => client_handle_new_session_ticket g c o msg
  | H_server_handle_hello => server_handle_hello g c o msg
  | H_server_handle_certificate => server_handle_certificate patched g c o msg
  | H_server_handle_certificate_verify => server_handle_certificate_verify g c o msg
  | H_server_handle_finished => server_handle_finished g c o msg
  | H_client_send_hello => LOk (client_send_hello g c) []       (* never dispatched by message type *)
  end.

(* ---- _handle_reassembled_message: dispatch, handler, `assert input_buf.eof()` ------------------ *)
Inductive mres : Type :=
| MOk (c : tctx)
| MExn (e : texn).

Definition handle_reassembled (patched : bool) (g : tcfg) (c : tctx) (o : orc) (mtype : Z) (msg : list Z) : mres :=
  match dispatch (t_state c) mtype with
  | DUnexpected => MExn (XAlert AD_unexpected_message)
  | DFallthrough => match msg with [] => MOk c | _ :: _ => MExn (XOther TX_AssertionError) end
  | DHandler h =>
      match run_tls_handler patched h g c o msg with
      | LExn e => MExn e
      | LOk c' rest => match rest with [] => MOk c' | _ :: _ => MExn (XOther TX_AssertionError) end
      end
  end.

(* ---- handle_message: the `while len(self._receive_buffer) >= 4` loop --------------------------- *)
Fixpoint reassemble (fuel : nat) (patched : bool) (g : tcfg) (c : tctx) (orcs : list orc) (buf : list Z) : mres :=
  match fuel with
  | O => MOk (set_buf c buf)            (* unreachable with fuel > length buf: every message has >= 4 bytes *)
  | S fuel =>
      match buf with
      | t :: l1 :: l2 :: l3 :: _ =>
          let mlen := 4 + be_dec 0 [l1; l2; l3] in
          if mlen >? MAX_HANDSHAKE_MESSAGE_SIZE then MExn (XAlert AD_decode_error)       (* TLS message too large *)
          else if Zlen buf <? mlen then MOk (set_buf c buf)
          else
            let rest := zdrop mlen buf in
            match handle_reassembled patched g (set_buf c rest) (hd orc0 orcs) t (ztake mlen buf) with
            | MOk c' => reassemble fuel patched g c' (tl orcs) rest
            | MExn XBuf => MExn (XAlert AD_decode_error)      (* except BufferReadError: raise AlertDecodeError *)
            | MExn e => MExn e
            end
      | _ => MOk (set_buf c buf)
      end
  end.

Definition handle_message (patched : bool) (g : tcfg) (c : tctx) (orcs : list orc) (data : list Z) : mres :=
  match t_state c with
  | CLIENT_HANDSHAKE_START => MOk (client_send_hello g c)      (* input is not even buffered *)
  | _ => let buf := t_buf c ++ data in reassemble (S (length buf)) patched g c orcs buf
  end.

(* ---- _handle_crypto_frame from `event is not None` on: try / except tls.Alert ------------------- *)
Inductive cres : Type :=
| CROk (c : tctx)
| CRQuic (code ft : Z)       (* QuicConnectionError *)
| CRBuf                      (* BufferReadError (would be caught by _payload_received) *)
| CRExn (k : Z).

Definition crypto_deliver (patched : bool) (g : tcfg) (c : tctx) (orcs : list orc) (ft : Z) (data : list Z) : cres :=
  match handle_message patched g c orcs data with
  | MOk c' => CROk c'
  | MExn (XAlert d) => CRQuic (EC_CRYPTO_ERROR + d) ft
  | MExn (XQuic code ft') => CRQuic code ft'
  | MExn XBuf => CRBuf
  | MExn (XOther k) => CRExn k
  end.

(* ---- a sequence of receive_datagram calls each delivering CRYPTO data ------------------------------
   receive_datagram's first statement: `if self._state in END_STATES or self._close_pending: return`
   ([gate] = true: the tree since 54d8ff0 / docs/C05-fix-8.patch; false: END_STATES only, so a datagram that
   arrives after a QuicConnectionError -- close() called, CONNECTION_CLOSE not yet sent -- is still processed,
   by a TLS engine that the failed handler left half-updated: [after_exn] is that state). *)
Inductive sres : Type :=
| NOk (c : tctx)
| NClosing (code ft : Z)     (* close pending with this code; later datagrams are ignored *)
| NExn (k : Z).

Fixpoint crypto_session (patched gate : bool) (after_exn : tctx -> tctx) (g : tcfg) (c : tctx) (closing : option (Z * Z))
         (chunks : list (list orc * Z * list Z)) : sres :=
  match chunks with
  | [] => match closing with Some (code, ft) => NClosing code ft | None => NOk c end
  | (orcs, ft, data) :: r =>
      match closing with
      | Some (code, cft) =>
          if gate then NClosing code cft else
          match crypto_deliver patched g c orcs ft data with
          | CRExn k => NExn k
          | CROk c' => crypto_session patched gate after_exn g c' closing r
          | _ => crypto_session patched gate after_exn g (after_exn c) closing r     (* close() is a no-op now *)
          end
      | None =>
          match crypto_deliver patched g c orcs ft data with
          | CROk c' => crypto_session patched gate after_exn g c' None r
          | CRQuic code ft' => crypto_session patched gate after_exn g (after_exn c) (Some (code, ft')) r
          | CRBuf => crypto_session patched gate after_exn g (after_exn c) (Some (EC_FRAME_ENCODING_ERROR, ft)) r
          | CRExn k => NExn k
          end
      end
  end.

(* ---- executable interface ---------------------------------------------------------------------------
   in : patched,
        cfg: cipher_suites sig_algs (lists) alpn (0 | 1 n (list)*n) key_sigs (list) verify reqcert alpn_cb fetcher
             ticket_cb x25519 x448 ec (list) psk (opt),
        ctx: state buf (list) resumed kpsk (opt) kproxy gen peer_cert,
        n, n oracle records: share (list) tp_code tp_ft ticket binder load pubkey sig vcert mac,
        data (list)
   out: kind (0 ok | 1 alert | 2 QuicConnectionError | 3 other exception) v1 v2,
        and when ok: state, len(_receive_buffer), resumed, peer_cert, generation *)
Fixpoint rd_lists (n : nat) (t : list Z) : list (list Z) * list Z :=
  match n with
  | O => ([], t)
  | S n => let '(x, t) := tk_list t in let '(r, t) := rd_lists n t in (x :: r, t)
  end.

Fixpoint rd_orcs (n : nat) (t : list Z) : list orc * list Z :=
  match n with
  | O => ([], t)
  | S n =>
      let '(sh, t) := tk_list t in
      match t with
      | a :: b :: c :: d :: e :: f :: g :: h :: i :: t =>
          let '(r, t) := rd_orcs n t in
          (mkOrc sh a b c (z2b d) e f (z2b g) h (z2b i) :: r, t)
      | _ => ([], [])
      end
  end.

Definition out_mres (r : mres) : list Z :=
  match r with
  | MOk c => [0; 0; 0; state_val (t_state c); Zlen (t_buf c); b2z (t_resumed c); b2z (t_peer_cert c); t_gen c]
  | MExn (XAlert d) => [1; d; 0]
  | MExn (XQuic code ft) => [2; code; ft]
  | MExn XBuf => [3; 0; 0]
  | MExn (XOther k) => [3; k; 0]
  end.

(* cfg + ctx tokens (shared with ConnRecv.exec_packet) *)
Definition rd_cfg_ctx (t : list Z) : option (tcfg * tctx * list Z) :=
  let '(suites, t) := tk_list t in
  let '(sigs, t) := tk_list t in
  let '(alpn, t) := match t with
                    | 0 :: t => (None, t)
                    | _ :: n :: t => let '(l, t) := rd_lists (Z.to_nat n) t in (Some l, t)
                    | _ => (None, [])
                    end in
  let '(ksigs, t) := tk_list t in
  match t with
  | verify :: reqcert :: acb :: fetcher :: tcb :: x25519 :: x448 :: t =>
      let '(ec, t) := tk_list t in
      let '(psk, t) := tk_opt t in
      let g := mkCfg suites sigs alpn ksigs (z2b verify) (z2b reqcert) (z2b acb) (z2b fetcher) (z2b tcb)
                     (z2b x25519) (z2b x448) ec psk in
      match t with
      | state :: t =>
          let '(buf, t) := tk_list t in
          match t with
          | resumed :: t =>
              let '(kpsk, t) := tk_opt t in
              match t with
              | kproxy :: gen :: pc :: t =>
                  Some (g, mkCtx (state_of_val state) buf (z2b resumed) kpsk (z2b kproxy) gen (z2b pc), t)
              | _ => None
              end
          | _ => None
          end
      | _ => None
      end
  | _ => None
  end.

Definition exec_tlsrecv (t : list Z) : list Z :=
  match t with
  | patched :: t =>
      match rd_cfg_ctx t with
      | Some (g, c, n :: t) =>
          let '(orcs, t) := rd_orcs (Z.to_nat n) t in
          let '(data, _) := tk_list t in
          out_mres (handle_message (z2b patched) g c orcs data)
      | _ => []
      end
  | _ => []
  end.
(* EXTRACT: exec_tlsrecv *)
