(* Model of the timer / closing state machine of QuicConnection (src/aioquic/quic/connection.py):
   connect, receive_datagram (the parts that touch _state / _close_at / _close_pending /
   _close_event / _events), close, datagrams_to_send (END_STATES guard, close branch), get_timer,
   handle_timer, next_event, _close_begin, _close_end, _connect, _receive_version_negotiation_packet,
   _receive_retry_packet, _handle_connection_close_frame.

   Times are Z (any totally ordered grid; the code only adds a positive duration to `now` and
   compares with < and >=).  Everything the timer logic takes from elsewhere is an input of the op:
   `idle` = value of _idle_timeout() at that moment, `pto3` = 3 * _loss.get_probe_timeout(),
   ack_at of each packet space / loss detection time / _pacing_at for get_timer, and the fate of
   each packet of a datagram (dropped, undecryptable, version negotiation, retry, processed with
   n events / a CONNECTION_CLOSE frame / a QuicConnectionError).  No proofs in this file. *)
From AQ Require Import lib.Base lib.Tok.

Inductive cstate := FIRSTFLIGHT | CONNECTED | CLOSING | DRAINING | TERMINATED.

(* END_STATES = {CLOSING, DRAINING, TERMINATED} *)
Definition is_end (s : cstate) : bool :=
  match s with CLOSING | DRAINING | TERMINATED => true | _ => false end.
Definition is_firstflight (s : cstate) : bool :=
  match s with FIRSTFLIGHT => true | _ => false end.

(* event kinds in _events: 0 = any event other than ConnectionTerminated; ConnectionTerminated by
   origin: 1 close() by the application, 2 close() after a QuicConnectionError / reserved bits,
   3 peer's CONNECTION_CLOSE, 4 idle timeout, 5 version negotiation failure;
   -1 = the Python object None (appended if _close_event were None in _close_end). *)
Definition EV_OTHER : Z := 0.
Definition EV_LOCAL : Z := 1.
Definition EV_ERROR : Z := 2.
Definition EV_PEER : Z := 3.
Definition EV_IDLE : Z := 4.
Definition EV_VN : Z := 5.
Definition EV_NONE : Z := -1.
Definition is_term_ev (k : Z) : bool := negb (k =? 0).

(* exceptions escaping the API *)
Definition X_ASSERT : Z := 100.   (* AssertionError: connect() on a server / twice *)
Definition X_TYPE : Z := 101.     (* TypeError: comparison with _close_at = None *)
Definition X_INDEX : Z := 102.    (* IndexError: _network_paths[0] with no path -- no longer raised since fix ed82a68 *)

Record conn := mkConn {
  c_client : bool;              (* _is_client *)
  c_connect_called : bool;      (* _connect_called *)
  c_state : cstate;             (* _state *)
  c_close_at : option Z;        (* _close_at *)
  c_close_pending : bool;       (* _close_pending *)
  c_close_event : option Z;     (* _close_event (kind) *)
  c_loss_at : option Z;         (* _loss_at, as stored by the last get_timer() *)
  c_vn_done : bool;             (* _version_negotiated_incompatible *)
  c_has_path : bool;            (* _network_paths non-empty *)
  c_events : list Z             (* _events (kinds), head = next to pop *)
}.

Definition conn_init (client : bool) : conn :=
  mkConn client false FIRSTFLIGHT None false None None false false [].

Definition set_state (s : cstate) (c : conn) : conn :=
  mkConn (c_client c) (c_connect_called c) s (c_close_at c) (c_close_pending c) (c_close_event c)
         (c_loss_at c) (c_vn_done c) (c_has_path c) (c_events c).
Definition set_close_at (a : option Z) (c : conn) : conn :=
  mkConn (c_client c) (c_connect_called c) (c_state c) a (c_close_pending c) (c_close_event c)
         (c_loss_at c) (c_vn_done c) (c_has_path c) (c_events c).
Definition set_pending (b : bool) (c : conn) : conn :=
  mkConn (c_client c) (c_connect_called c) (c_state c) (c_close_at c) b (c_close_event c)
         (c_loss_at c) (c_vn_done c) (c_has_path c) (c_events c).
Definition set_event (e : option Z) (c : conn) : conn :=
  mkConn (c_client c) (c_connect_called c) (c_state c) (c_close_at c) (c_close_pending c) e
         (c_loss_at c) (c_vn_done c) (c_has_path c) (c_events c).
Definition set_loss_at (a : option Z) (c : conn) : conn :=
  mkConn (c_client c) (c_connect_called c) (c_state c) (c_close_at c) (c_close_pending c) (c_close_event c)
         a (c_vn_done c) (c_has_path c) (c_events c).
Definition set_vn_done (c : conn) : conn :=
  mkConn (c_client c) (c_connect_called c) (c_state c) (c_close_at c) (c_close_pending c) (c_close_event c)
         (c_loss_at c) true (c_has_path c) (c_events c).
Definition set_has_path (c : conn) : conn :=
  mkConn (c_client c) (c_connect_called c) (c_state c) (c_close_at c) (c_close_pending c) (c_close_event c)
         (c_loss_at c) (c_vn_done c) true (c_events c).
Definition set_connect_called (c : conn) : conn :=
  mkConn (c_client c) true (c_state c) (c_close_at c) (c_close_pending c) (c_close_event c)
         (c_loss_at c) (c_vn_done c) (c_has_path c) (c_events c).
Definition push_events (l : list Z) (c : conn) : conn :=
  mkConn (c_client c) (c_connect_called c) (c_state c) (c_close_at c) (c_close_pending c) (c_close_event c)
         (c_loss_at c) (c_vn_done c) (c_has_path c) (c_events c ++ l).
Definition set_events (l : list Z) (c : conn) : conn :=
  mkConn (c_client c) (c_connect_called c) (c_state c) (c_close_at c) (c_close_pending c) (c_close_event c)
         (c_loss_at c) (c_vn_done c) (c_has_path c) l.

Definition is_none {A} (o : option A) : bool := match o with None => true | Some _ => false end.

(* close(): `if self._close_event is None and self._state not in END_STATES` *)
Definition do_close (kind : Z) (c : conn) : conn :=
  if is_none (c_close_event c) && negb (is_end (c_state c))
  then set_pending true (set_event (Some kind) c) else c.

(* _close_begin(is_initiator, now) *)
Definition close_begin (initiator : bool) (now pto3 : Z) (c : conn) : conn :=
  set_state (if initiator then CLOSING else DRAINING) (set_close_at (Some (now + pto3)) c).

(* _close_end(): _close_at = None; _events.append(_close_event); state = TERMINATED *)
Definition close_end (c : conn) : conn :=
  let ev := match c_close_event c with Some k => k | None => EV_NONE end in
  set_state TERMINATED (push_events [ev] (set_close_at None c)).

(* _connect(now): _close_at = now + _idle_timeout() (then _initialize, first flight) *)
Definition connect_internal (now idle : Z) (c : conn) : conn := set_close_at (Some (now + idle)) c.

(* connect(addr, now) *)
Definition connect (now idle : Z) (c : conn) : Res conn :=
  if c_client c && negb (c_connect_called c)
  then Ok (connect_internal now idle (set_has_path (set_connect_called c)))
  else Err X_ASSERT.

(* What happens to one QUIC packet of a datagram inside receive_datagram's loop. *)
Inductive pkt :=
| PStop                                   (* header parse error, small Initial, unknown CID, unsupported version: return *)
| PSkip                                   (* key unavailable / decryption failed: continue *)
| PVN (verdict : Z) (idle : Z)            (* Version Negotiation packet; verdict about the version lists:
                                             0 lists our version (ignored), 1 no common version, else common version *)
| PRetry (valid : bool) (idle : Z)        (* Retry packet; valid = first retry, CID and integrity tag ok *)
| PReserved                               (* decrypted, reserved header bits set: close(PROTOCOL_VIOLATION); return
                                             (with or without a qlog packet_received record) *)
| PProc (nev : Z) (peer_close : option Z) (err : bool) (idle : Z).
   (* decrypted and handed to _payload_received: nev events queued, a CONNECTION_CLOSE frame was
      handled (pto3 at that moment), a QuicConnectionError was raised (-> close()), and the value
      of _idle_timeout() after the payload. *)

(* "Server initialization" block: a server in FIRSTFLIGHT adopts the network path before decrypting. *)
Definition srv_init (c : conn) : conn :=
  if negb (c_client c) && is_firstflight (c_state c) then set_has_path c else c.

(* one Version Negotiation packet (_receive_version_negotiation_packet) *)
Definition vn_pkt (now verdict idle : Z) (c : conn) : conn :=
  if c_client c && is_firstflight (c_state c) && negb (c_vn_done c) then
    if verdict =? 0 then c
    else if verdict =? 1 then close_end (set_event (Some EV_VN) c)
    else connect_internal now idle (set_vn_done c)
  else c.

(* one decrypted packet up to the end of _payload_received / its except clause *)
Definition proc_pkt (now nev : Z) (pc : option Z) (err : bool) (c : conn) : conn :=
  let c := srv_init c in
  let c := if is_firstflight (c_state c) then set_state CONNECTED c else c in
  let c := push_events (repeat EV_OTHER (Z.to_nat nev)) c in
  let c := match pc with
           | Some pto3 =>
               (* _handle_connection_close_frame: `if self._close_event is None` *)
               if is_none (c_close_event c)
               then close_begin false now pto3 (set_event (Some EV_PEER) c) else c
           | None => c
           end in
  if err then do_close EV_ERROR c else c.

Fixpoint recv_pkts (now : Z) (c : conn) (ps : list pkt) : conn :=
  match ps with
  | [] => c
  | p :: rest =>
    match p with
    | PStop => c
    | PSkip => recv_pkts now (srv_init c) rest
    | PVN verdict idle => vn_pkt now verdict idle c
    | PRetry valid idle =>
        if c_client c && valid then connect_internal now idle c else c
    | PReserved => do_close EV_ERROR (srv_init c)
    | PProc nev pc err idle =>
        let c1 := proc_pkt now nev pc err c in
        (* `if self._state in END_STATES or self._close_pending: return`, else re-arm the idle timer *)
        if is_end (c_state c1) || c_close_pending c1 then c1
        else recv_pkts now (set_close_at (Some (now + idle)) c1) rest
    end
  end.

(* receive_datagram(data, addr, now); idle0 = _idle_timeout() on entry *)
Definition receive (now idle0 : Z) (ps : list pkt) (c : conn) : conn :=
  (* `if self._state in END_STATES or self._close_pending: return` (fix 54d8ff0; before: END_STATES only) *)
  if is_end (c_state c) then c else if c_close_pending c then c else
  let c := if is_none (c_close_at c) then set_close_at (Some (now + idle0)) c else c in
  recv_pkts now c ps.

(* datagrams_to_send(now): what kind of datagrams came out.  Writing frames can queue events
   (ConnectionIdIssued ...): nev of them, only on the ordinary path. *)
Inductive sent := SNone | SData | SClose.

Definition send (now pto3 : Z) (produced : bool) (nev : Z) (c : conn) : Res (sent * conn) :=
  (* `if self._state in END_STATES or not self._network_paths: return []` (fix ed82a68; before: IndexError) *)
  if negb (c_has_path c) then Ok (SNone, c) else
  if is_end (c_state c) then Ok (SNone, c) else
  if c_close_pending c then
    Ok (if produced then SClose else SNone, close_begin true now pto3 (set_pending false c))
  else Ok (if produced then SData else SNone, push_events (repeat EV_OTHER (Z.to_nat nev)) c).

(* The same function with the POSITION of the transition out of close-pending (`self._close_pending = False;
   self._close_begin(is_initiator=True, now=now)`) as a parameter.  uncond = true: the two statements end the close
   branch, before builder.flush() -- every close round performs them (this is `send`).  uncond = false: they sit in the
   post-flush `if datagrams:` block -- a close round that wrote no packet leaves the connection as it was.  The tree
   under check is probed for the position (tools/gen/c09_consts.py -> gen/C09Consts.CLOSE_BEGIN_UNCONDITIONAL). *)
Definition send_at (uncond : bool) (now pto3 : Z) (produced : bool) (nev : Z) (c : conn) : Res (sent * conn) :=
  if negb (c_has_path c) then Ok (SNone, c) else
  if is_end (c_state c) then Ok (SNone, c) else
  if c_close_pending c then
    Ok (if produced then SClose else SNone,
        if uncond || produced then close_begin true now pto3 (set_pending false c) else c)
  else Ok (if produced then SData else SNone, push_events (repeat EV_OTHER (Z.to_nat nev)) c).

(* handle_timer(now) *)
Definition timer (now : Z) (c : conn) : Res conn :=
  match c_close_at c with
  | None => Err X_TYPE                        (* now >= None *)
  | Some ca =>
      if now >=? ca then
        let c := if is_none (c_close_event c) then set_event (Some EV_IDLE) c else c in
        Ok (close_end c)
      else Ok c                                (* loss detection timeout: no effect on this state *)
  end.

(* get_timer(): `src is not None and src < timer_at` *)
Definition tmin (src : option Z) (cur : Res (option Z)) : Res (option Z) :=
  match cur with
  | Err k => Err k
  | Ok cur =>
      match src with
      | None => Ok cur
      | Some x =>
          match cur with
          | None => Err X_TYPE
          | Some v => Ok (Some (if x <? v then x else v))
          end
      end
  end.

Definition get_timer (acks : list (option Z)) (loss pacing : option Z) (c : conn) : Res (option Z) * conn :=
  if is_end (c_state c) then (Ok (c_close_at c), c) else
  match fold_left (fun cur a => tmin a cur) acks (Ok (c_close_at c)) with
  | Err k => (Err k, c)
  | Ok cur =>
      let c := set_loss_at loss c in
      (tmin pacing (tmin loss (Ok cur)), c)
  end.

(* next_event() *)
Definition next_event (c : conn) : option Z * conn :=
  match c_events c with
  | [] => (None, c)
  | e :: t => (Some e, set_events t c)
  end.

(* ---------- operations as data (used by the proofs and by the executable interface) *)
Inductive op :=
| OConnect (now idle : Z)
| OReceive (now idle0 : Z) (ps : list pkt)
| OClose
| OSend (now pto3 : Z) (produced : bool) (nev : Z)
| OTimer (now : Z)
| ONextEvent
| OGetTimer (acks : list (option Z)) (loss pacing : option Z).

(* per-op result *)
Inductive ores :=
| RUnit
| RExn (k : Z)
| RSent (s : sent)
| REvent (e : option Z)
| RTimer (t : option Z).

Definition step (c : conn) (o : op) : ores * conn :=
  match o with
  | OConnect now idle =>
      match connect now idle c with Ok c' => (RUnit, c') | Err k => (RExn k, c) end
  | OReceive now idle0 ps => (RUnit, receive now idle0 ps c)
  | OClose => (RUnit, do_close EV_LOCAL c)
  | OSend now pto3 produced nev =>
      match send now pto3 produced nev c with Ok (s, c') => (RSent s, c') | Err k => (RExn k, c) end
  | OTimer now =>
      match timer now c with Ok c' => (RUnit, c') | Err k => (RExn k, c) end
  | ONextEvent => let '(e, c') := next_event c in (REvent e, c')
  | OGetTimer acks loss pacing =>
      let '(r, c') := get_timer acks loss pacing c in
      (match r with Ok t => RTimer t | Err k => RExn k end, c')
  end.

Fixpoint run (c : conn) (ops : list op) : list ores * conn :=
  match ops with
  | [] => ([], c)
  | o :: t => let '(r, c1) := step c o in let '(rs, c2) := run c1 t in (r :: rs, c2)
  end.

(* ---------- executable interface -----------------------------------------------------
   input:  is_client, then ops
     0 now idle                      connect
     1 now idle0 n pkt*n             receive_datagram;  pkt: 0 | 1 | 2 verdict idle | 3 valid idle | 4 |
                                                             5 nev (0 | 1 pto3) err idle
     2                               close
     3 now pto3 produced nev         datagrams_to_send
     4 now                           handle_timer
     5                               next_event
     6 n opt*n opt opt               get_timer (ack_at per space, loss time, pacing); opt: 0 | 1 v
   output per op: result (0 unit | exception code | 10+{0 none,1 data,2 close} | 20 no event, 21 other event,
                  30+kind termination event (a peer's close is printed as 32 like an error close: the
                  two carry the same fields on the implementation side) | 40 timer None, 41 v timer),
                  then state class (0 live, 1 closing, 2 draining, 3 terminated), len(_events), _close_pending (0 | 1)
                  and _close_at (0 | 1 v). *)
Definition state_class (s : cstate) : Z :=
  match s with FIRSTFLIGHT | CONNECTED => 0 | CLOSING => 1 | DRAINING => 2 | TERMINATED => 3 end.

Definition out_res (r : ores) : list Z :=
  match r with
  | RUnit => [0]
  | RExn k => [k]
  | RSent SNone => [10] | RSent SData => [11] | RSent SClose => [12]
  | REvent None => [20]
  | REvent (Some e) => if e =? 0 then [21] else [30 + (if e =? 3 then 2 else e)]
  | RTimer None => [40]
  | RTimer (Some v) => [41; v]
  end.

Definition obs (c : conn) : list Z :=
  [state_class (c_state c); Zlen (c_events c); b2z (c_close_pending c)] ++
  match c_close_at c with None => [0] | Some v => [1; v] end.

Fixpoint tk_pkts (n : nat) (l : list Z) : list pkt * list Z :=
  match n with O => ([], l) | S n =>
  match l with
  | 0 :: t => let '(ps, r) := tk_pkts n t in (PStop :: ps, r)
  | 1 :: t => let '(ps, r) := tk_pkts n t in (PSkip :: ps, r)
  | 2 :: v :: idle :: t => let '(ps, r) := tk_pkts n t in (PVN v idle :: ps, r)
  | 3 :: v :: idle :: t => let '(ps, r) := tk_pkts n t in (PRetry (z2b v) idle :: ps, r)
  | 4 :: t => let '(ps, r) := tk_pkts n t in (PReserved :: ps, r)
  | 5 :: nev :: t =>
      let '(pc, t) := tk_opt t in
      match t with
      | err :: idle :: t => let '(ps, r) := tk_pkts n t in (PProc nev pc (z2b err) idle :: ps, r)
      | _ => ([], [])
      end
  | _ => ([], [])
  end end.

Fixpoint tk_opts (n : nat) (l : list Z) : list (option Z) * list Z :=
  match n with O => ([], l) | S n =>
    let '(o, t) := tk_opt l in let '(os, r) := tk_opts n t in (o :: os, r)
  end.

Definition tk_op (l : list Z) : option (op * list Z) :=
  match l with
  | 0 :: now :: idle :: t => Some (OConnect now idle, t)
  | 1 :: now :: idle0 :: n :: t => let '(ps, r) := tk_pkts (Z.to_nat n) t in Some (OReceive now idle0 ps, r)
  | 2 :: t => Some (OClose, t)
  | 3 :: now :: pto3 :: p :: nev :: t => Some (OSend now pto3 (z2b p) nev, t)
  | 4 :: now :: t => Some (OTimer now, t)
  | 5 :: t => Some (ONextEvent, t)
  | 6 :: n :: t =>
      let '(acks, t) := tk_opts (Z.to_nat n) t in
      let '(loss, t) := tk_opt t in
      let '(pacing, t) := tk_opt t in
      Some (OGetTimer acks loss pacing, t)
  | _ => None
  end.

Fixpoint exec_ops (fuel : nat) (c : conn) (l : list Z) : list Z :=
  match fuel with O => [] | S fuel =>
  match tk_op l with
  | None => []
  | Some (o, t) => let '(r, c') := step c o in out_res r ++ obs c' ++ exec_ops fuel c' t
  end end.

(* EXTRACT: exec_timers *)
Definition exec_timers (toks : list Z) : list Z :=
  match toks with
  | cl :: t => exec_ops (length t) (conn_init (z2b cl)) t
  | [] => []
  end.
