(* C20  Python values, a small expression / statement language for the qlog encoders of quic/logger.py
   (the bodies are GENERATED from the source by tools/gen/c20_encoders.py into coq/gen/LogEncoders.v),
   its evaluator with exceptions as outcomes, the JSON-value predicate and a type checker.
   No proofs here (coq/proofs/LogValP.v proves the type checker sound: well-typed code does not raise and
   returns JSON values).

   The evaluator is PESSIMISTIC: every Ok result is what Python computes, but operand combinations that the
   encoders never use evaluate to Err TypeError even where Python would accept them (e.g. 1.0 == 1, True - 1).
   This is the safe direction for "does not raise" theorems. *)
From Coq Require Import String Ascii PrimFloat Uint63 FloatOps SpecFloat.
From AQ Require Import lib.Base model.LogEnc.
Open Scope string_scope.
Open Scope Z_scope.

Definition TypeError : Z := 3.
Definition AttributeError : Z := 4.
Definition IndexError : Z := 5.
Definition OverflowError : Z := 6.
Definition NameError : Z := 7.       (* NameError / UnboundLocalError *)
Definition ValueError : Z := 8.

(* ---- values -------------------------------------------------------------------------------------- *)
Inductive pv :=
| VNone
| VBool (b : bool)
| VInt (z : Z)                           (* int, and members of IntEnum classes (json.dumps writes them as ints) *)
| VFloat (f : float)
| VStr (s : string)
| VBytes (b : list Z)
| VEnum (en m : string)                  (* member m of the plain Enum class en *)
| VList (l : list pv)
| VTuple (l : list pv)
| VDict (d : list (pv * pv))             (* insertion order; keys are values so that a non-str key is expressible *)
| VObj (cls : string) (attrs : list (string * pv)).

Fixpoint lookup {A} (x : string) (l : list (string * A)) : option A :=
  match l with
  | [] => None
  | (y, a) :: r => if String.eqb x y then Some a else lookup x r
  end.

(* what json.dump accepts without a `default=` hook: None, bool, int, float, str, list/tuple of such, dict
   with str keys (json also accepts int/float/bool/None keys and coerces them; we ask for str, which is what
   qlog needs).  bytes, Enum members, arbitrary objects: TypeError "not JSON serializable". *)
Fixpoint is_json (v : pv) : bool :=
  match v with
  | VNone | VBool _ | VInt _ | VFloat _ | VStr _ => true
  | VBytes _ | VEnum _ _ | VObj _ _ => false
  | VList l | VTuple l => (fix all (l : list pv) := match l with [] => true | x :: r => is_json x && all r end) l
  | VDict d => (fix alld (d : list (pv * pv)) :=
                  match d with
                  | [] => true
                  | (k, x) :: r => match k with VStr _ => is_json x && alld r | _ => false end
                  end) d
  end.

(* strict RFC 8259 JSON additionally has no NaN / Infinity (json.dump writes them as the tokens NaN / Infinity
   unless allow_nan=False) *)
Definition f_finite (f : float) : bool :=
  match PrimFloat.classify f with
  | FloatClass.NaN | FloatClass.PInf | FloatClass.NInf => false
  | _ => true
  end.
Fixpoint json_strict (v : pv) : bool :=
  match v with
  | VFloat f => f_finite f
  | VNone | VBool _ | VInt _ | VStr _ => true
  | VBytes _ | VEnum _ _ | VObj _ _ => false
  | VList l | VTuple l => (fix all (l : list pv) := match l with [] => true | x :: r => json_strict x && all r end) l
  | VDict d => (fix alld (d : list (pv * pv)) :=
                  match d with
                  | [] => true
                  | (k, x) :: r => match k with VStr _ => json_strict x && alld r | _ => false end
                  end) d
  end.

(* ---- types (the argument domains of the call sites) ------------------------------------------------ *)
Inductive ty :=
| TNone | TBool | TInt | TFloat | TStr
| TBytes                      (* bytes: every element in 0..255 *)
| THex                        (* bytes produced by binascii.hexlify: every element an ASCII hex digit *)
| TOptInt                     (* Optional[int] *)
| TEnumOf (en : string)       (* a member of the plain Enum class en (member list generated) *)
| TJson | TJsonDict | TJsonList
| TAny                        (* any Python value (attribute values of QuicTransportParameters) *)
| TObj (cls : string)         (* instance with the attributes of the generated class table *)
| TListObj (cls : string)     (* iterable of such instances (RangeSet -> range objects) *)
| THeaders                    (* list of (bytes, bytes) tuples *)
| TPairBytes
| TItems                      (* obj.__dict__.items(): list of (str, value) tuples *)
| TUnknown.                   (* the translator could not infer a type: nothing is accepted at this type *)

Record tabs := mkTabs {
  t_classes : list (string * list (string * ty));     (* class -> attribute types (object-typed attributes: TAny) *)
  t_enums : list (string * list string);              (* plain Enum class -> member names *)
  t_tables : list (string * list (string * string * pv))   (* module dict keyed by Enum members: (enum, member, value) *)
}.

Definition byte_okb (x : Z) : bool := (0 <=? x) && (x <? 256).
Definition ascii_okb (x : Z) : bool := (0 <=? x) && (x <? 128).

Definition ty_eqb (a b : ty) : bool :=
  match a, b with
  | TNone, TNone | TBool, TBool | TInt, TInt | TFloat, TFloat | TStr, TStr | TBytes, TBytes | THex, THex
  | TOptInt, TOptInt | TJson, TJson | TJsonDict, TJsonDict | TJsonList, TJsonList | TAny, TAny
  | THeaders, THeaders | TPairBytes, TPairBytes | TItems, TItems => true
  | TEnumOf x, TEnumOf y | TObj x, TObj y | TListObj x, TListObj y => String.eqb x y
  | _, _ => false
  end.

Definition pair_bytes_ok (v : pv) : bool :=
  match v with
  | VTuple [VBytes a; VBytes b] => forallb byte_okb a && forallb byte_okb b
  | _ => false
  end.

(* "any Python value": the only constraint is that a bytes object holds bytes *)
Definition wf_shallow (v : pv) : bool :=
  match v with VBytes b => forallb byte_okb b | _ => true end.

Definition item_ok (v : pv) : bool :=
  match v with VTuple [VStr _; x] => wf_shallow x | _ => false end.

Definition vty_simple (T : tabs) (t : ty) (v : pv) : bool :=
  match t with
  | TNone => match v with VNone => true | _ => false end
  | TBool => match v with VBool _ => true | _ => false end
  | TInt => match v with VInt _ => true | _ => false end
  | TFloat => match v with VFloat _ => true | _ => false end
  | TStr => match v with VStr _ => true | _ => false end
  | TBytes => match v with VBytes b => forallb byte_okb b | _ => false end
  | THex => match v with VBytes b => forallb ascii_okb b | _ => false end
  | TOptInt => match v with VNone | VInt _ => true | _ => false end
  | TEnumOf en =>
      match v, lookup en (t_enums T) with
      | VEnum en' m, Some ms => String.eqb en en' && existsb (String.eqb m) ms
      | _, _ => false
      end
  | TJson => is_json v
  | TJsonDict => match v with VDict _ => is_json v | _ => false end
  | TJsonList => match v with VList _ => is_json v | _ => false end
  | TAny => wf_shallow v
  | THeaders => match v with VList l => forallb pair_bytes_ok l | _ => false end
  | TPairBytes => pair_bytes_ok v
  | TItems => match v with VList l => forallb item_ok l | _ => false end
  | TObj _ | TListObj _ | TUnknown => false
  end.

Definition obj_ok (T : tabs) (c : string) (v : pv) : bool :=
  match v, lookup c (t_classes T) with
  | VObj c' attrs, Some fields =>
      String.eqb c c' && forallb (fun av : string * pv => wf_shallow (snd av)) attrs &&
      forallb (fun f : string * ty => match lookup (fst f) attrs with Some x => vty_simple T (snd f) x | None => false end) fields
  | _, _ => false
  end.

Definition vty (T : tabs) (t : ty) (v : pv) : bool :=
  match t with
  | TObj c => obj_ok T c v
  | TListObj c => match v with VList l => forallb (obj_ok T c) l | _ => false end
  | _ => vty_simple T t v
  end.

(* subtyping (value inclusion) *)
Definition sub (a b : ty) : bool :=
  ty_eqb a b ||
  match a, b with
  | TUnknown, _ | _, TUnknown => false
  | (TNone | TBool | TInt | TFloat | TStr | TOptInt | TJsonDict | TJsonList), TJson => true
  | (TNone | TInt), TOptInt => true
  | THex, TBytes => true
  | _, _ => false
  end.

(* ---- expressions ----------------------------------------------------------------------------------- *)
Inductive pbinop := BSub | BAdd | BMul.
Inductive dmode := DAsciiStrict | DUtf8Strict | DLenient.

Inductive pe :=
| ENone | EInt (z : Z) | EStr (s : string) | EBool (b : bool)
| EEnum (en m : string)                  (* QuicPacketType.ONE_RTT *)
| EVar (x : string)
| EAttr (e : pe) (a : string)            (* e.a *)
| EIdx (e : pe) (i : Z)                  (* e[i], constant index *)
| ETable (tb : string) (e : pe)          (* MODULE_DICT[e] *)
| EBin (op : pbinop) (a b : pe)
| EEq (a b : pe)
| EIsNone (e : pe) | EIsNotNone (e : pe)
| EIf (c a b : pe)                       (* a if c else b *)
| EDictNil | EDictCons (k v rest : pe)   (* {k: v, **rest-literal} *)
| EListNil | EListCons (e rest : pe)
| EComp (elt : pe) (x : string) (iter : pe)        (* [elt for x in iter] *)
| ELen (e : pe)
| EIntOf (e : pe)                        (* int(e) *)
| EHexlify (e : pe)                      (* binascii.hexlify(e) *)
| EDecode (m : dmode) (e : pe)           (* e.decode(codec, errors) *)
| EIsInstance (e : pe) (tn : string)
| ELet (x : string) (e body : pe)        (* inlined call of a one-expression function *)
| EListOf (e : pe)                       (* list(e) *)
| EItems (e : pe).                       (* e.__dict__.items() *)

Definition env := list (string * pv).

Definition text_of (b : list Z) : string :=
  fold_right (fun x s => String (ascii_of_nat (Z.to_nat x)) s) EmptyString b.

Definition is_simple (v : pv) : bool :=
  match v with VNone | VBool _ | VInt _ | VStr _ | VEnum _ _ => true | _ => false end.

Definition simple_eqb (a b : pv) : bool :=
  match a, b with
  | VNone, VNone => true
  | VBool x, VBool y => Bool.eqb x y
  | VInt x, VInt y => x =? y
  | VBool x, VInt y => b2z x =? y
  | VInt x, VBool y => x =? b2z y
  | VStr x, VStr y => String.eqb x y
  | VEnum e1 m1, VEnum e2 m2 => String.eqb e1 e2 && String.eqb m1 m2
  | _, _ => false
  end.

Definition eq_val (a b : pv) : Res bool :=
  if is_simple a && is_simple b then Ok (simple_eqb a b) else Err TypeError.

Definition truthy (v : pv) : Res bool :=
  match v with VBool b => Ok b | _ => Err TypeError end.

Definition small (z : Z) : bool := (Z.abs z <? 4611686018427387904).      (* 2^62 *)
Definition f_of_small (z : Z) : float :=
  if z <? 0 then PrimFloat.opp (PrimFloat.of_uint63 (Uint63.of_Z (- z))) else PrimFloat.of_uint63 (Uint63.of_Z z).

Definition pbinop_val (op : pbinop) (a b : pv) : Res pv :=
  match op, a, b with
  | BSub, VInt x, VInt y => Ok (VInt (x - y))
  | BAdd, VInt x, VInt y => Ok (VInt (x + y))
  | BMul, VInt x, VInt y => Ok (VInt (x * y))
  | BSub, VFloat x, VFloat y => Ok (VFloat (PrimFloat.sub x y))
  | BAdd, VFloat x, VFloat y => Ok (VFloat (PrimFloat.add x y))
  | BMul, VFloat x, VFloat y => Ok (VFloat (PrimFloat.mul x y))
  | BMul, VFloat x, VInt y => if small y then Ok (VFloat (PrimFloat.mul x (f_of_small y))) else Err OverflowError
  | BAdd, VStr x, VStr y => Ok (VStr (x ++ y))
  | _, _, _ => Err TypeError
  end.

Definition isinst (tn : string) (v : pv) : bool :=
  match v with
  | VBool _ => String.eqb tn "bool" || String.eqb tn "int"
  | VInt _ => String.eqb tn "int"
  | VFloat _ => String.eqb tn "float"
  | VStr _ => String.eqb tn "str"
  | VBytes _ => String.eqb tn "bytes"
  | _ => false
  end.

Definition decode_val (m : dmode) (b : list Z) : Res pv :=
  match m with
  | DAsciiStrict => if forallb ascii_okb b then Ok (VStr (text_of b)) else Err UnicodeDecodeError
  | DUtf8Strict => if utf8_valid b then Ok (VStr (text_of b)) else Err UnicodeDecodeError
  | DLenient => Ok (VStr (text_of b))      (* errors="replace"/"backslashreplace"/...: total; the text itself is not modelled *)
  end.

Fixpoint table_find (en m : string) (rows : list (string * string * pv)) : Res pv :=
  match rows with
  | [] => Err KeyError
  | (e', m', v) :: r => if String.eqb en e' && String.eqb m m' then Ok v else table_find en m r
  end.

Fixpoint mapres {A B} (f : A -> Res B) (l : list A) : Res (list B) :=
  match l with
  | [] => Ok []
  | h :: t => y <- f h ;; ys <- mapres f t ;; Ok (y :: ys)
  end.

Fixpoint peval (T : tabs) (rho : env) (e : pe) : Res pv :=
  match e with
  | ENone => Ok VNone
  | EInt z => Ok (VInt z)
  | EStr s => Ok (VStr s)
  | EBool b => Ok (VBool b)
  | EEnum en m => Ok (VEnum en m)
  | EVar x => match lookup x rho with Some v => Ok v | None => Err NameError end
  | EAttr e a =>
      v <- peval T rho e ;;
      match v with
      | VObj _ attrs => match lookup a attrs with Some x => Ok x | None => Err AttributeError end
      | _ => Err AttributeError
      end
  | EIdx e i =>
      v <- peval T rho e ;;
      match v with
      | VTuple l | VList l =>
          if i <? 0 then Err IndexError
          else match nth_error l (Z.to_nat i) with Some x => Ok x | None => Err IndexError end
      | _ => Err TypeError
      end
  | ETable tb e =>
      v <- peval T rho e ;;
      match lookup tb (t_tables T), v with
      | Some rows, VEnum en m => table_find en m rows
      | Some _, _ => Err KeyError
      | None, _ => Err NameError
      end
  | EBin op a b => x <- peval T rho a ;; y <- peval T rho b ;; pbinop_val op x y
  | EEq a b => x <- peval T rho a ;; y <- peval T rho b ;; r <- eq_val x y ;; Ok (VBool r)
  | EIsNone e => v <- peval T rho e ;; Ok (VBool (match v with VNone => true | _ => false end))
  | EIsNotNone e => v <- peval T rho e ;; Ok (VBool (match v with VNone => false | _ => true end))
  | EIf c a b => v <- peval T rho c ;; t <- truthy v ;; if t then peval T rho a else peval T rho b
  | EDictNil => Ok (VDict [])
  | EDictCons k v rest =>
      kv <- peval T rho k ;; vv <- peval T rho v ;; r <- peval T rho rest ;;
      match r with VDict d => Ok (VDict ((kv, vv) :: d)) | _ => Err TypeError end
  | EListNil => Ok (VList [])
  | EListCons a rest =>
      x <- peval T rho a ;; r <- peval T rho rest ;;
      match r with VList l => Ok (VList (x :: l)) | _ => Err TypeError end
  | EComp elt x iter =>
      v <- peval T rho iter ;;
      match v with
      | VList l =>
          r <- mapres (fun h => peval T ((x, h) :: rho) elt) l ;;
          Ok (VList r)
      | _ => Err TypeError
      end
  | ELen e =>
      v <- peval T rho e ;;
      match v with
      | VBytes b => Ok (VInt (Zlen b))
      | VStr s => Ok (VInt (Z.of_nat (String.length s)))
      | VList l | VTuple l => Ok (VInt (Zlen l))
      | VDict d => Ok (VInt (Zlen d))
      | _ => Err TypeError
      end
  | EIntOf e =>
      v <- peval T rho e ;;
      match v with
      | VInt z => Ok (VInt z)
      | VBool b => Ok (VInt (b2z b))
      | VFloat f => if f_finite f then Err ValueError (* value not modelled *) else Err OverflowError
      | _ => Err TypeError
      end
  | EHexlify e =>
      v <- peval T rho e ;;
      match v with VBytes b => Ok (VBytes (hexlify b)) | _ => Err TypeError end
  | EDecode m e =>
      v <- peval T rho e ;;
      match v with VBytes b => decode_val m b | _ => Err AttributeError end
  | EIsInstance e tn => v <- peval T rho e ;; Ok (VBool (isinst tn v))
  | ELet x e body => v <- peval T rho e ;; peval T ((x, v) :: rho) body
  | EListOf e =>
      v <- peval T rho e ;;
      match v with VList l => Ok (VList l) | _ => Err TypeError end
  | EItems e =>
      v <- peval T rho e ;;
      match v with
      | VObj _ attrs => Ok (VList (map (fun av : string * pv => VTuple [VStr (fst av); snd av]) attrs))
      | _ => Err AttributeError
      end
  end.

(* d[key] = v on an insertion-ordered dict: replace in place, else append *)
Fixpoint dict_set (key : string) (v : pv) (d : list (pv * pv)) : list (pv * pv) :=
  match d with
  | [] => [(VStr key, v)]
  | (k, x) :: r =>
      match k with
      | VStr k' => if String.eqb key k' then (k, v) :: r else (k, x) :: dict_set key v r
      | _ => (k, x) :: dict_set key v r
      end
  end.

(* ---- statements ------------------------------------------------------------------------------------ *)
Inductive ps :=
| PSkip
| PRet (e : pe)
| PAssign (x : string) (e : pe)
| PSetItem (x : string) (k e : pe)                  (* x[k] = e, x a local dict *)
| PSeq (a b : ps)
| PIf (c : pe) (a b : ps)
| PIfInst (x tn : string) (a b : ps)                (* if isinstance(x, tn): a else: b *)
| PForPair (kx vx : string) (e : pe) (body : ps).   (* for kx, vx in e: body *)

(* a for loop: run f on each element, threading the environment, until the body returns *)
Fixpoint loopres (f : env -> pv -> Res (env * option pv)) (rho : env) (l : list pv) : Res (env * option pv) :=
  match l with
  | [] => Ok (rho, None)
  | h :: t =>
      r <- f rho h ;;
      match snd r with Some v => Ok r | None => loopres f (fst r) t end
  end.

Fixpoint exec (T : tabs) (rho : env) (s : ps) : Res (env * option pv) :=
  match s with
  | PSkip => Ok (rho, None)
  | PRet e => v <- peval T rho e ;; Ok (rho, Some v)
  | PAssign x e => v <- peval T rho e ;; Ok ((x, v) :: rho, None)
  | PSetItem x k e =>
      v <- peval T rho e ;; kv <- peval T rho k ;;
      match lookup x rho, kv with
      | Some (VDict d), VStr key => Ok ((x, VDict (dict_set key v d)) :: rho, None)
      | Some _, _ => Err TypeError
      | None, _ => Err NameError
      end
  | PSeq a b =>
      r <- exec T rho a ;;
      match snd r with Some v => Ok r | None => exec T (fst r) b end
  | PIf c a b => v <- peval T rho c ;; t <- truthy v ;; if t then exec T rho a else exec T rho b
  | PIfInst x tn a b =>
      match lookup x rho with
      | Some v => if isinst tn v then exec T rho a else exec T rho b
      | None => Err NameError
      end
  | PForPair kx vx e body =>
      v <- peval T rho e ;;
      match v with
      | VList l =>
          loopres (fun rho h =>
                     match h with
                     | VTuple [k; x] => exec T ((vx, x) :: (kx, k) :: rho) body
                     | _ => Err TypeError
                     end) rho l
      | _ => Err TypeError
      end
  end.

(* ---- type checker ---------------------------------------------------------------------------------- *)
Definition tenv := list (string * ty).

Definition join (a b : ty) : option ty :=
  if sub a b then Some b else if sub b a then Some a
  else if sub a TJson && sub b TJson then Some TJson else None.

Definition eq_safe (t : ty) : bool :=
  match t with TNone | TBool | TInt | TStr | TOptInt | TEnumOf _ => true | _ => false end.

Definition table_total (T : tabs) (tb en : string) : bool :=
  match lookup tb (t_tables T), lookup en (t_enums T) with
  | Some rows, Some ms =>
      forallb (fun m => match table_find en m rows with Ok (VStr _) => true | _ => false end) ms
  | _, _ => false
  end.

Definition narrow (tn : string) : ty :=
  if String.eqb tn "bool" then TBool
  else if String.eqb tn "bytes" then TBytes
  else if String.eqb tn "int" then TJson         (* int or bool *)
  else if String.eqb tn "str" then TStr
  else if String.eqb tn "float" then TFloat
  else TUnknown.

Fixpoint tc (T : tabs) (G : tenv) (e : pe) : option ty :=
  match e with
  | ENone => Some TNone
  | EInt _ => Some TInt
  | EStr _ => Some TStr
  | EBool _ => Some TBool
  | EEnum en m =>
      match lookup en (t_enums T) with
      | Some ms => if existsb (String.eqb m) ms then Some (TEnumOf en) else None
      | None => None
      end
  | EVar x => match lookup x G with Some TUnknown => None | o => o end
  | EAttr e a =>
      match tc T G e with
      | Some (TObj c) =>
          match lookup c (t_classes T) with
          | Some fields => match lookup a fields with Some TUnknown => None | Some (TObj _) => None | Some (TListObj _) => None | o => o end
          | None => None
          end
      | _ => None
      end
  | EIdx e i =>
      match tc T G e with
      | Some TPairBytes => if (i =? 0) || (i =? 1) then Some TBytes else None
      | _ => None
      end
  | ETable tb e =>
      match tc T G e with
      | Some (TEnumOf en) => if table_total T tb en then Some TStr else None
      | _ => None
      end
  | EBin op a b =>
      match tc T G a, tc T G b with
      | Some TInt, Some TInt => Some TInt
      | Some TFloat, Some TFloat => Some TFloat
      | Some TFloat, Some TInt =>
          match op, b with
          | BMul, EInt c => if small c then Some TFloat else None
          | _, _ => None
          end
      | Some TStr, Some TStr => match op with BAdd => Some TStr | _ => None end
      | _, _ => None
      end
  | EEq a b =>
      match tc T G a, tc T G b with
      | Some ta, Some tb => if eq_safe ta && eq_safe tb then Some TBool else None
      | _, _ => None
      end
  | EIsNone e | EIsNotNone e => match tc T G e with Some _ => Some TBool | None => None end
  | EIf c a b =>
      match tc T G c, tc T G a, tc T G b with
      | Some TBool, Some ta, Some tb => join ta tb
      | _, _, _ => None
      end
  | EDictNil => Some TJsonDict
  | EDictCons k v rest =>
      match tc T G k, tc T G v, tc T G rest with
      | Some TStr, Some tv, Some TJsonDict => if sub tv TJson then Some TJsonDict else None
      | _, _, _ => None
      end
  | EListNil => Some TJsonList
  | EListCons a rest =>
      match tc T G a, tc T G rest with
      | Some ta, Some TJsonList => if sub ta TJson then Some TJsonList else None
      | _, _ => None
      end
  | EComp elt x iter =>
      match tc T G iter with
      | Some (TListObj c) =>
          match tc T ((x, TObj c) :: G) elt with Some t => if sub t TJson then Some TJsonList else None | None => None end
      | Some THeaders =>
          match tc T ((x, TPairBytes) :: G) elt with Some t => if sub t TJson then Some TJsonList else None | None => None end
      | _ => None
      end
  | ELen e =>
      match tc T G e with
      | Some (TBytes | THex | TStr | TJsonList | TJsonDict) => Some TInt
      | _ => None
      end
  | EIntOf e => match tc T G e with Some (TInt | TBool) => Some TInt | _ => None end
  | EHexlify e => match tc T G e with Some (TBytes | THex) => Some THex | _ => None end
  | EDecode m e =>
      match m, tc T G e with
      | DAsciiStrict, Some THex => Some TStr
      | DLenient, Some (TBytes | THex) => Some TStr
      | _, _ => None
      end
  | EIsInstance e tn => match tc T G e with Some _ => Some TBool | None => None end
  | ELet x e body =>
      match tc T G e with Some t => tc T ((x, t) :: G) body | None => None end
  | EListOf e => match tc T G e with Some TJsonList => Some TJsonList | _ => None end
  | EItems e => match tc T G e with Some (TObj c) => match lookup c (t_classes T) with Some _ => Some TItems | None => None end | _ => None end
  end.

(* statements: Some G' = "does not raise from any environment of type G; every returned value is JSON;
   when control falls through the environment has type G' (an extension of G)" *)
Fixpoint tcs (T : tabs) (G : tenv) (s : ps) : option tenv :=
  match s with
  | PSkip => Some G
  | PRet e => match tc T G e with Some t => if sub t TJson then Some G else None | None => None end
  | PAssign x e =>
      match tc T G e, lookup x G with
      | Some t, None => Some ((x, t) :: G)
      | Some t, Some t0 => if sub t t0 then Some G else None
      | None, _ => None
      end
  | PSetItem x k e =>
      match lookup x G, tc T G k, tc T G e with
      | Some TJsonDict, Some TStr, Some t => if sub t TJson then Some G else None
      | _, _, _ => None
      end
  | PSeq a b => match tcs T G a with Some G1 => tcs T G1 b | None => None end
  | PIf c a b =>
      match tc T G c, tcs T G a, tcs T G b with
      | Some TBool, Some _, Some _ => Some G
      | _, _, _ => None
      end
  | PIfInst x tn a b =>
      match lookup x G with
      | Some TAny =>
          match narrow tn with
          | TUnknown => None
          | t => match tcs T ((x, t) :: G) a, tcs T G b with Some _, Some _ => Some G | _, _ => None end
          end
      | _ => None
      end
  | PForPair kx vx e body =>
      match tc T G e, lookup kx G, lookup vx G with
      | Some TItems, None, None =>
          match tcs T ((vx, TAny) :: (kx, TStr) :: G) body with Some _ => Some G | None => None end
      | _, _, _ => None
      end
  end.

(* ---- methods ---------------------------------------------------------------------------------------- *)
Record meth := mkMeth { m_name : string; m_params : list (string * ty); m_body : ps }.

Definition meth_ok (T : tabs) (m : meth) : bool :=
  match tcs T (m_params m) (m_body m) with Some _ => true | None => false end.

Definition bind_args (m : meth) (args : list pv) : env := combine (map fst (m_params m)) args.

(* the value a call returns (a body that falls off its end returns None) *)
Definition call (T : tabs) (m : meth) (args : list pv) : Res pv :=
  r <- exec T (bind_args m args) (m_body m) ;;
  Ok (match snd r with Some v => v | None => VNone end).

(* a call site: which method, and the inferred type of each argument in parameter order *)
Record site := mkSite { s_where : string; s_meth : string; s_args : list ty }.

Fixpoint find_meth (n : string) (ms : list meth) : option meth :=
  match ms with
  | [] => None
  | m :: r => if String.eqb n (m_name m) then Some m else find_meth n r
  end.

(* the method re-typed with the argument types a call site supplies (the annotations of logger.py are not
   believed here: the body is checked again under the types inferred at the site) *)
Definition retype (m : meth) (tys : list ty) : meth :=
  mkMeth (m_name m) (combine (map fst (m_params m)) tys) (m_body m).

Definition site_ok (T : tabs) (ms : list meth) (s : site) : bool :=
  match find_meth (s_meth s) ms with
  | Some m => (length (s_args s) =? length (m_params m))%nat && meth_ok T (retype m (s_args s))
  | None => false
  end.

(* the potentially raising primitive operations of an expression (for the evidence / documentation) *)
Fixpoint prims (e : pe) : list string :=
  match e with
  | ENone | EInt _ | EStr _ | EBool _ | EEnum _ _ | EDictNil | EListNil => []
  | EVar _ => []
  | EAttr e a => prims e ++ ["attr ." ++ a]
  | EIdx e _ => prims e ++ ["subscript [const]"]
  | ETable tb e => prims e ++ ["subscript " ++ tb ++ "[...]"]
  | EBin _ a b => prims a ++ prims b ++ ["arith"]
  | EEq a b => prims a ++ prims b
  | EIsNone e | EIsNotNone e | EIsInstance e _ => prims e
  | EIf c a b => prims c ++ prims a ++ prims b
  | EDictCons k v r => prims k ++ prims v ++ prims r
  | EListCons a r => prims a ++ prims r
  | EComp elt _ it => prims it ++ ["iterate"] ++ prims elt
  | ELen e => prims e ++ ["len()"]
  | EIntOf e => prims e ++ ["int()"]
  | EHexlify e => prims e ++ ["hexlify()"]
  | EDecode _ e => prims e ++ [".decode()"]
  | ELet _ e b => prims e ++ prims b
  | EListOf e => prims e ++ ["list()"]
  | EItems e => prims e ++ [".__dict__.items()"]
  end.

Fixpoint prims_s (s : ps) : list string :=
  match s with
  | PSkip => []
  | PRet e | PAssign _ e => prims e
  | PSetItem _ k e => prims k ++ prims e ++ ["setitem"]
  | PSeq a b => prims_s a ++ prims_s b
  | PIf c a b => prims c ++ prims_s a ++ prims_s b
  | PIfInst _ _ a b => prims_s a ++ prims_s b
  | PForPair _ _ e b => prims e ++ ["iterate pairs"] ++ prims_s b
  end.

(* ---- printer used by the correspondence harness (vm_compute): canonical tokens of a result ------------------- *)
Definition f_lit (neg : bool) (m e : Z) : float :=
  let x := Z.ldexp (PrimFloat.of_uint63 (Uint63.of_Z m)) e in if neg then PrimFloat.opp x else x.

Definition ser_float (f : float) : list Z :=
  match Prim2SF f with
  | S754_zero s => [3; b2z s; 0; 0]
  | S754_infinity s => [4; b2z s]
  | S754_nan => [5]
  | S754_finite s m e => [3; b2z s; Zpos m; e]
  end.

Definition ser_str (s : string) : list Z :=
  Z.of_nat (String.length s) :: map (fun c => Z.of_nat (nat_of_ascii c)) (list_ascii_of_string s).

Fixpoint ser (v : pv) : list Z :=
  match v with
  | VNone => [0]
  | VBool b => [1; b2z b]
  | VInt z => [2; z]
  | VFloat f => ser_float f
  | VStr s => 6 :: ser_str s
  | VBytes b => 7 :: Zlen b :: b
  | VList l | VTuple l =>
      8 :: Zlen l :: (fix go (l : list pv) : list Z := match l with [] => [] | x :: r => (ser x ++ go r)%list end) l
  | VDict d =>
      9 :: Zlen d :: (fix go (d : list (pv * pv)) : list Z :=
                        match d with [] => [] | (k, x) :: r => (ser k ++ ser x ++ go r)%list end) d
  | VEnum _ _ => [10]
  | VObj _ _ => [11]
  end.

Definition ser_res (r : Res pv) : list Z :=
  match r with Ok v => 0 :: ser v | Err k => [1; k] end.

Definition call_named (T : tabs) (ms : list meth) (n : string) (args : list pv) : list Z :=
  match find_meth n ms with Some m => ser_res (call T m args) | None => [2] end.
