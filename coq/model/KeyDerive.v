(* Model of the packet-protection key derivation of aioquic:
     src/aioquic/tls.py         hkdf_label, hkdf_expand_label, hkdf_extract, cipher_suite_hash
     src/aioquic/quic/crypto.py derive_key_iv_hp, CryptoContext.setup, next_key_phase (+ apply_key_phase),
                                CryptoPair.setup_initial
     src/aioquic/quic/packet.py get_retry_integrity_tag's choice of key and nonce
   Every label, salt, length, cipher-suite code point, version number and Retry key comes from coq/gen/C02Keys.v, which
   tools/gen/c02_keys.py writes from the CURRENT source on every check (and which refuses to write anything when the shape of
   one of those functions is no longer the one transcribed here).  HMAC is a Section variable (DESIGN.md 3.4);
   HKDF-Expand (`cryptography`'s HKDFExpand) is RFC 5869 2.3 over it.  Exceptions are outcomes:
     Err 1 = struct.error (hkdf_label's struct.pack), Err 2 = ValueError (HKDFExpand: length > 255 * digest_size),
     Err 3 = KeyError (CIPHER_SUITES[cipher_suite]).
   No proofs in this file. *)
From AQ Require Import lib.Base lib.Tok gen.C02Keys model.Protect.

Definition E_STRUCT : Z := 1.
Definition E_VALUE : Z := 2.
Definition E_KEY : Z := 3.

(* tls.hkdf_label:  full_label = b"tls13 " + label
     struct.pack("!HB", length, len(full_label)) + full_label + struct.pack("!B", len(hash_value)) + hash_value
   "!H" accepts 0..65535, "!B" 0..255, anything else raises struct.error.  None = struct.error. *)
Definition hkdf_label (label ctx : list Z) (length : Z) : option (list Z) :=
  let full := HL_PREFIX ++ label in
  if (0 <=? length) && (length <=? 65535) && (Zlen full <=? 255) && (Zlen ctx <=? 255)
  then Some (length / 256 :: length mod 256 :: Zlen full :: full ++ Zlen ctx :: ctx)
  else None.

(* a hash algorithm object as far as the code looks at it: (which hash, algorithm.digest_size) *)
Definition alg := (Z * Z)%type.

Fixpoint assoc {A} (k : Z) (l : list (Z * A)) : option A :=
  match l with
  | [] => None
  | (k', v) :: t => if k =? k' then Some v else assoc k t
  end.

(* tls.cipher_suite_hash: CIPHER_SUITES[cipher_suite]() ; None = KeyError *)
Definition cipher_suite_hash (cs : Z) : option alg := assoc cs CIPHER_SUITE_HASHES.

Section Hmac.
  Variable hmac : Z -> list Z -> list Z -> list Z.     (* hash, key, message -> digest *)

  (* RFC 5869 2.3: T(0) = "", T(i) = HMAC(PRK, T(i-1) | info | i), OKM = first L octets of T(1) | T(2) | ... *)
  Fixpoint expand_blocks (n : nat) (h : Z) (prk info prev : list Z) (i : Z) : list Z :=
    match n with
    | O => []
    | S n' => let t := hmac h prk (prev ++ info ++ [i]) in t ++ expand_blocks n' h prk info t (i + 1)
    end.

  (* HKDFExpand(algorithm, length, info).derive(prk); None = ValueError("Cannot derive keys larger than ...") *)
  Definition hkdf_expand (a : alg) (prk info : list Z) (length : Z) : option (list Z) :=
    let '(h, dsz) := a in
    if length >? 255 * dsz then None
    else Some (ztake length (expand_blocks (Z.to_nat ((length + dsz - 1) / dsz)) h prk info [] 1)).

  (* tls.hkdf_expand_label: the info argument (hkdf_label, struct.error) is evaluated before HKDFExpand is constructed *)
  Definition hkdf_expand_label (a : alg) (secret label ctx : list Z) (length : Z) : Res (list Z) :=
    match hkdf_label label ctx length with
    | None => Err E_STRUCT
    | Some info =>
        match hkdf_expand a secret info length with
        | None => Err E_VALUE
        | Some okm => Ok okm
        end
    end.

  (* tls.hkdf_extract: HMAC(salt, key_material) *)
  Definition hkdf_extract (a : alg) (salt ikm : list Z) : list Z := hmac (fst a) salt ikm.

  (* crypto.derive_key_iv_hp: key size by cipher suite, labels by version *)
  Definition key_size (cs : Z) : Z :=
    if (cs =? CS_AES_256_GCM_SHA384) || (cs =? CS_CHACHA20_POLY1305_SHA256) then DK_KEY_SIZE_LISTED else DK_KEY_SIZE_OTHER.

  Definition derive_key_iv_hp (cs : Z) (secret : list Z) (version : Z) : Res (list Z * list Z * list Z) :=
    match cipher_suite_hash cs with
    | None => Err E_KEY
    | Some a =>
        let ks := key_size cs in
        if version =? QUIC_VERSION_2 then
          k <- hkdf_expand_label a secret DK_V2_KEY_LABEL DK_V2_KEY_CTX ks ;;
          i <- hkdf_expand_label a secret DK_V2_IV_LABEL DK_V2_IV_CTX DK_V2_IV_LEN ;;
          h <- hkdf_expand_label a secret DK_V2_HP_LABEL DK_V2_HP_CTX ks ;;
          Ok (k, i, h)
        else
          k <- hkdf_expand_label a secret DK_V1_KEY_LABEL DK_V1_KEY_CTX ks ;;
          i <- hkdf_expand_label a secret DK_V1_IV_LABEL DK_V1_IV_CTX DK_V1_IV_LEN ;;
          h <- hkdf_expand_label a secret DK_V1_HP_LABEL DK_V1_HP_CTX ks ;;
          Ok (k, i, h)
    end.

  (* the key material of a CryptoContext after setup(): cipher_suite, version, secret, AEAD key and iv, hp key *)
  Record kmat := mkM { m_cs : Z; m_version : Z; m_secret : list Z; m_key : list Z; m_iv : list Z; m_hp : list Z }.

  (* CryptoContext.setup (crypto.CIPHER_SUITES[cipher_suite] has the same three keys as tls.CIPHER_SUITES: KeyError first) *)
  Definition ctx_setup (cs : Z) (secret : list Z) (version : Z) : Res kmat :=
    '(k, i, h) <- derive_key_iv_hp cs secret version ;;
    Ok (mkM cs version secret k i h).

  (* the secret of the next key phase (next_key_phase's hkdf_expand_label) *)
  Definition next_secret (cs : Z) (secret : list Z) (version : Z) : Res (list Z) :=
    match cipher_suite_hash cs with
    | None => Err E_KEY
    | Some a =>
        hkdf_expand_label a secret (if version =? QUIC_VERSION_2 then KU_V2_LABEL else KU_V1_LABEL) KU_CTX (snd a)
    end.

  (* crypto.next_key_phase(self): a fresh context set up from the next secret *)
  Definition next_key_phase (m : kmat) : Res kmat :=
    s <- next_secret (m_cs m) (m_secret m) (m_version m) ;;
    ctx_setup (m_cs m) s (m_version m).

  (* crypto.apply_key_phase(self, crypto): aead and secret are taken over, the header protection key is NOT *)
  Definition apply_key_phase (m n : kmat) : kmat := mkM (m_cs m) (m_version m) (m_secret n) (m_key n) (m_iv n) (m_hp m).

  (* CryptoPair.setup_initial(cid, is_client, version) -> (recv, send) *)
  Definition setup_initial (cid : list Z) (is_client : bool) (version : Z) : Res (kmat * kmat) :=
    let '(recv_label, send_label) :=
      if is_client then (IN_CLIENT_RECV_LABEL, IN_CLIENT_SEND_LABEL) else (IN_SERVER_RECV_LABEL, IN_SERVER_SEND_LABEL) in
    let salt := if version =? QUIC_VERSION_2 then INITIAL_SALT_VERSION_2 else INITIAL_SALT_VERSION_1 in
    match cipher_suite_hash INITIAL_CIPHER_SUITE with
    | None => Err E_KEY
    | Some a =>
        let initial_secret := hkdf_extract a salt cid in
        rs <- hkdf_expand_label a initial_secret recv_label IN_RECV_CTX (snd a) ;;
        r <- ctx_setup INITIAL_CIPHER_SUITE rs version ;;
        ss <- hkdf_expand_label a initial_secret send_label IN_SEND_CTX (snd a) ;;
        s <- ctx_setup INITIAL_CIPHER_SUITE ss version ;;
        Ok (r, s)
    end.

  (* the secret after n key updates: secret_<n+1> is computed from secret_<n>, the cipher suite and the version ONLY *)
  Fixpoint secret_at (cs version : Z) (s0 : list Z) (n : nat) : Res (list Z) :=
    match n with
    | O => Ok s0
    | S n' => s <- secret_at cs version s0 n' ;; next_secret cs s version
    end.
End Hmac.

(* packet.get_retry_integrity_tag: (AES-128-GCM key, nonce) by version *)
Definition retry_key_nonce (version : Z) : list Z * list Z :=
  if version =? QUIC_VERSION_2 then (RETRY_AEAD_KEY_VERSION_2, RETRY_AEAD_NONCE_VERSION_2)
  else (RETRY_AEAD_KEY_VERSION_1, RETRY_AEAD_NONCE_VERSION_1).

(* ---------- executable interface --------------------------------------------------------------
   The HMAC answers are data (DESIGN.md 3.4): hmactab = n (key-list value-list)*n with
   key = hash :: len-prefixed key ++ len-prefixed message, value = digest.  A query that is not in the table
   answers [] (the derived bytes are then too short and the comparison with the implementation fails).
   ops (lists are length-prefixed):
     1 label ctx length                          -> 0 | 1 info
     2 cs secret label ctx length hmactab        -> res(okm)
     3 cs secret version hmactab                 -> res(key iv hp)
     4 cid is_client version hmactab             -> res(recv: secret key iv hp ; send: secret key iv hp)
     5 cs secret version n hmactab               -> res(secret key iv hp) after n x (next_key_phase; apply_key_phase), hp = the FIRST hp
     6 version                                   -> retry key, nonce
   res(x) = 0 kind | 1 x *)
Definition tab_hmac (tab : list (list Z * list Z)) (h : Z) (k m : list Z) : list Z :=
  match lookup (h :: out_list k ++ out_list m) tab with Some d => d | None => [] end.

Definition out_kmat (m : kmat) : list Z :=
  out_list (m_secret m) ++ out_list (m_key m) ++ out_list (m_iv m) ++ out_list (m_hp m).

Fixpoint updates (hm : Z -> list Z -> list Z -> list Z) (n : nat) (m : kmat) : Res kmat :=
  match n with
  | O => Ok m
  | S n' => nx <- next_key_phase hm m ;; updates hm n' (apply_key_phase m nx)
  end.

(* EXTRACT: exec_keyderive *)
Definition exec_keyderive (toks : list Z) : list Z :=
  match toks with
  | 1 :: t =>
      let '(label, t) := tk_list t in
      let '(ctx, t) := tk_list t in
      match t with
      | length :: _ => match hkdf_label label ctx length with Some i => 1 :: out_list i | None => [0] end
      | _ => []
      end
  | 2 :: cs :: t =>
      let '(secret, t) := tk_list t in
      let '(label, t) := tk_list t in
      let '(ctx, t) := tk_list t in
      match t with
      | length :: t =>
          let '(ht, _) := tk_tab t in
          match cipher_suite_hash cs with
          | None => [0; E_KEY]
          | Some a =>
              match hkdf_expand_label (tab_hmac ht) a secret label ctx length with
              | Ok o => 1 :: out_list o
              | Err k => [0; k]
              end
          end
      | _ => []
      end
  | 3 :: cs :: t =>
      let '(secret, t) := tk_list t in
      match t with
      | version :: t =>
          let '(ht, _) := tk_tab t in
          match derive_key_iv_hp (tab_hmac ht) cs secret version with
          | Ok (k, i, h) => 1 :: out_list k ++ out_list i ++ out_list h
          | Err k => [0; k]
          end
      | _ => []
      end
  | 4 :: t =>
      let '(cid, t) := tk_list t in
      match t with
      | is_client :: version :: t =>
          let '(ht, _) := tk_tab t in
          match setup_initial (tab_hmac ht) cid (z2b is_client) version with
          | Ok (r, s) => 1 :: out_kmat r ++ out_kmat s
          | Err k => [0; k]
          end
      | _ => []
      end
  | 5 :: cs :: t =>
      let '(secret, t) := tk_list t in
      match t with
      | version :: n :: t =>
          let '(ht, _) := tk_tab t in
          match (m <- ctx_setup (tab_hmac ht) cs secret version ;; updates (tab_hmac ht) (Z.to_nat n) m) with
          | Ok m => 1 :: out_kmat m
          | Err k => [0; k]
          end
      | _ => []
      end
  | 6 :: version :: _ => let '(k, n) := retry_key_nonce version in out_list k ++ out_list n
  | _ => []
  end.
