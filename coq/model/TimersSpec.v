(* Specification vocabulary for C09 (no proofs here): how a run may begin, the event history of a
   run, what "closing has begun" means, and counters over the results of datagrams_to_send. *)
From AQ Require Import lib.Base model.Timers.

(* A run begins with connect() on a client or with a first receive_datagram() on a server. *)
Definition first_op (client : bool) (o : op) : Prop :=
  match o with
  | OConnect _ _ => client = true
  | OReceive _ _ _ => client = false
  | _ => False
  end.

(* events handed to the application by next_event(), oldest first *)
Fixpoint popped (rs : list ores) : list Z :=
  match rs with
  | [] => []
  | REvent (Some e) :: t => e :: popped t
  | _ :: t => popped t
  end.

(* everything ever queued: what was popped, then what is still in _events *)
Definition history (rs : list ores) (c : conn) : list Z := popped rs ++ c_events c.

(* kinds of ConnectionTerminated (EV_LOCAL .. EV_VN); 0 is any other event, -1 would be None *)
Definition is_term_kind (k : Z) : Prop := 1 <= k <= 5.
Definition ordinary (e : Z) : Prop := e = 0.

(* a close has begun: close() was called (frame still to be sent) or the state is in END_STATES *)
Definition began (c : conn) : Prop := c_close_pending c = true \/ is_end (c_state c) = true.

Definition closing_state (s : cstate) : Prop := s = CLOSING \/ s = DRAINING.

(* how many datagrams_to_send calls returned data / closing datagrams *)
Fixpoint n_data (rs : list ores) : nat :=
  match rs with
  | [] => O
  | RSent SData :: t => S (n_data t)
  | _ :: t => n_data t
  end.
Fixpoint n_close (rs : list ores) : nat :=
  match rs with
  | [] => O
  | RSent SClose :: t => S (n_close t)
  | _ :: t => n_close t
  end.

(* the invariant of started connections *)
Definition inv (c : conn) : Prop :=
  (c_state c = TERMINATED <-> c_close_at c = None) /\
  (c_client c = true -> c_connect_called c = true) /\
  (forall k, c_close_event c = Some k -> is_term_kind k).

(* ---- the close round (C09 strengthening: a close round that emits nothing) ---- *)

(* no datagrams_to_send among these ops *)
Fixpoint no_send (ops : list op) : Prop :=
  match ops with
  | [] => True
  | OSend _ _ _ _ :: _ => False
  | _ :: t => no_send t
  end.

(* every handle_timer among these ops fires before d *)
Fixpoint timers_before (d : Z) (ops : list op) : Prop :=
  match ops with
  | [] => True
  | OTimer w :: t => w < d /\ timers_before d t
  | _ :: t => timers_before d t
  end.

(* the connection after datagrams_to_send, for a given position of the close-sent transition *)
Definition after_send_at (uncond : bool) (now pto3 : Z) (produced : bool) (nev : Z) (c : conn) : conn :=
  match send_at uncond now pto3 produced nev c with Ok (_, c') => c' | Err _ => c end.

(* a close is pending on a connection that can transmit *)
Definition close_round_ready (c : conn) : Prop :=
  c_close_pending c = true /\ c_has_path c = true /\ is_end (c_state c) = false.
