(* Specification vocabulary for C09 (no proofs here): how a run may begin, the event history of a
   run, what "closing has begun" means, and counters over the results of datagrams_to_send. *)
From AQ Require Import lib.Base model.Timers.

(* A run begins with connect() on a client or with a first receive_datagram() on a server. *)
Definition first_op (client : bool) (o : op) : Prop :=
  match o with
  | OConnect _ _ => client = true
  | OReceive _ _ _ => client = false
  | _ => False
  end.

(* events handed to the application by next_event(), oldest first *)
Fixpoint popped (rs : list ores) : list Z :=
  match rs with
  | [] => []
  | REvent (Some e) :: t => e :: popped t
  | _ :: t => popped t
  end.

(* everything ever queued: what was popped, then what is still in _events *)
Definition history (rs : list ores) (c : conn) : list Z := popped rs ++ c_events c.

(* kinds of ConnectionTerminated (EV_LOCAL .. EV_VN); 0 is any other event, -1 would be None *)
Definition is_term_kind (k : Z) : Prop := 1 <= k <= 5.
Definition ordinary (e : Z) : Prop := e = 0.

(* a close has begun: close() was called (frame still to be sent) or the state is in END_STATES *)
Definition began (c : conn) : Prop := c_close_pending c = true \/ is_end (c_state c) = true.

Definition closing_state (s : cstate) : Prop := s = CLOSING \/ s = DRAINING.

(* how many datagrams_to_send calls returned data / closing datagrams *)
Fixpoint n_data (rs : list ores) : nat :=
  match rs with
  | [] => O
  | RSent SData :: t => S (n_data t)
  | _ :: t => n_data t
  end.
Fixpoint n_close (rs : list ores) : nat :=
  match rs with
  | [] => O
  | RSent SClose :: t => S (n_close t)
  | _ :: t => n_close t
  end.

(* the invariant of started connections *)
Definition inv (c : conn) : Prop :=
  (c_state c = TERMINATED <-> c_close_at c = None) /\
  (c_client c = true -> c_connect_called c = true) /\
  (forall k, c_close_event c = Some k -> is_term_kind k).
