(* C04: vocabulary shared by the generated memory model (coq/gen/CMem.v, produced from the
   current C sources by tools/gen/c04_c2vc.py) and the hand-written specification.
   An access is (object, offset, length) against an object of a known size; a C function is
   the list of its events in program order, each guarded by its full path condition. *)
From Coq Require Import ZArith List Bool.
Import ListNotations.
Local Open Scope Z_scope.

Record acc := { a_id : Z; a_obj : Z; a_off : Z; a_len : Z; a_size : Z }.

Definition acc_ok (a : acc) : Prop := 0 <= a_off a /\ 0 <= a_len a /\ a_off a + a_len a <= a_size a.
Definition acc_okb (a : acc) : bool := (0 <=? a_off a) && (0 <=? a_len a) && (a_off a + a_len a <=? a_size a).

Inductive ev :=
| EAcc (g : bool) (a : acc)                      (* access performed when the path condition g holds *)
| ELoop (g : bool) (lo hi : Z) (f : Z -> list acc)   (* for i in [lo, hi): the accesses (f i), in order *)
| ERej (g : bool) (exc pos : Z)                  (* early return with a Python exception set; pos = cursor offset then *)
| ERet (g : bool) (res pos : Z).                 (* normal return; res = length of the bytes result (0 if none) *)

Definition ev_safe (e : ev) : Prop :=
  match e with
  | EAcc g a => g = true -> acc_ok a
  | ELoop g lo hi f => g = true -> forall i, lo <= i < hi -> Forall acc_ok (f i)
  | _ => True
  end.
Definition events_safe (es : list ev) : Prop := Forall ev_safe es.

(* Execution of an event list on concrete values: the trace of accesses performed
   (id, offset, length, size each) followed by the outcome:
     [0; res; pos] returned,  [1; exc; pos] rejected with exception exc,
     [2; id; 0] access id is out of bounds (execution stops there),  [3; 0; 0] no return reached. *)
Definition acc_toks (a : acc) : list Z := [a_id a; a_off a; a_len a; a_size a].

(* accesses of one loop iteration; None = all in bounds, Some id = first failing access *)
Fixpoint run_accs (l : list acc) : list Z * option Z :=
  match l with
  | [] => ([], None)
  | a :: r => if acc_okb a then (let '(t, o) := run_accs r in (acc_toks a ++ t, o)) else (acc_toks a, Some (a_id a))
  end.

Fixpoint run_loop (n : nat) (i : Z) (f : Z -> list acc) (k : list Z) : list Z :=
  match n with
  | O => k
  | S n' => match run_accs (f i) with
            | (t, None) => t ++ run_loop n' (i + 1) f k
            | (t, Some id) => t ++ [2; id; 0]
            end
  end.

Fixpoint run_events (es : list ev) : list Z :=
  match es with
  | [] => [3; 0; 0]
  | EAcc g a :: r => if g then (if acc_okb a then acc_toks a ++ run_events r else acc_toks a ++ [2; a_id a; 0])
                     else run_events r
  | ELoop g lo hi f :: r => if g then run_loop (Z.to_nat (hi - lo)) lo f (run_events r) else run_events r
  | ERej g exc pos :: r => if g then [1; exc; pos] else run_events r
  | ERet g res pos :: r => if g then [0; res; pos] else run_events r
  end.

(* last three tokens of a run *)
Definition outcome_of (l : list Z) : list Z := skipn (length l - 3) l.

(* Terminating events: a normal return leaves the cursor inside [0, cap]; a rejection leaves it where it was. *)
Definition ev_term_ok (p0 cap : Z) (e : ev) : Prop :=
  match e with
  | ERet g _ p => g = true -> 0 <= p <= cap
  | ERej g _ p => g = true -> p = p0
  | _ => True
  end.

(* first terminating event reached: (is_return, result-or-exception code, cursor offset) *)
Fixpoint first_term (es : list ev) : option (bool * Z * Z) :=
  match es with
  | [] => None
  | ERet g r p :: t => if g then Some (true, r, p) else first_term t
  | ERej g x p :: t => if g then Some (false, x, p) else first_term t
  | _ :: t => first_term t
  end.
