(* Model of the send-side flow control of QuicConnection (src/aioquic/quic/connection.py):
   send_stream_data / reset_stream / _get_or_create_stream_for_send (stream-count blocking),
   _handle_max_data_frame, _handle_max_stream_data_frame, _handle_max_streams_*_frame,
   _handle_stop_sending_frame, _unblock_streams, _parse_transport_parameters (the six flow-control
   parameters), the handshake-completion unblock, and the stream part of _write_application
   (one call of _write_stream_frame / _write_reset_stream_frame / _write_stop_sending_frame per step, and the
   STREAMS_BLOCKED step; the loop
   of the `fixes` branch: RESET_STREAM and STOP_SENDING are skipped while the stream is blocked by the
   stream-count limit) on top of the C10 sender.
   Transport parameters come in two transcriptions: [OParams] is _parse_transport_parameters AS IT IS (each present
   value overwrites the field, streams untouched; open finding C06-F1); [OParamsP] is the function as the PROPOSED
   repair docs/C06-fix-1.patch (not applied) would make it (an absent limit is 0; a value below the one held is PROTOCOL_VIOLATION when 0-RTT was
   accepted; when 0-RTT was not accepted every existing stream is put back on the blocked lists until the handshake
   completes, its highest_offset and the connection's credit counter restart from 0).  The tie probes the source and feeds the one that the tree contains.
   No proofs in this file. *)
From AQ Require Import lib.Base lib.Tok model.RangeSet model.StreamSend.

Record strm := mkStrm {
  t_id : Z;            (* stream_id *)
  t_blocked : bool;    (* QuicStream.is_blocked *)
  t_msdr : Z;          (* QuicStream.max_stream_data_remote *)
  t_send : send;       (* QuicStream.sender *)
  t_stop : bool        (* QuicStream.receiver.stop_pending *)
}.

Record conn := mkConn {
  c_client : bool;     (* _is_client *)
  c_max_data : Z;      (* _remote_max_data *)
  c_used : Z;          (* _remote_max_data_used *)
  c_msd_bl : Z;        (* _remote_max_stream_data_bidi_local *)
  c_msd_br : Z;        (* _remote_max_stream_data_bidi_remote *)
  c_msd_uni : Z;       (* _remote_max_stream_data_uni *)
  c_ms_bidi : Z;       (* _remote_max_streams_bidi *)
  c_ms_uni : Z;        (* _remote_max_streams_uni *)
  c_streams : list strm;   (* _streams, insertion order *)
  c_blk_bidi : list Z;     (* _streams_blocked_bidi (stream ids) *)
  c_blk_uni : list Z       (* _streams_blocked_uni *)
}.

Definition conn_init (is_client : bool) : conn := mkConn is_client 0 0 0 0 0 0 0 [] [] [].

(* stream id classification (quic/packet.py style helpers in connection.py) *)
Definition sid_client (sid : Z) : bool := Z.even sid.            (* not (stream_id & 1) *)
Definition sid_uni (sid : Z) : bool := Z.odd (sid / 2).          (* bool(stream_id & 2) *)
Definition can_send (c : conn) (sid : Z) : bool :=
  Bool.eqb (sid_client sid) (c_client c) || negb (sid_uni sid).
Definition can_receive (c : conn) (sid : Z) : bool :=
  negb (Bool.eqb (sid_client sid) (c_client c)) || negb (sid_uni sid).

Fixpoint find_strm (sid : Z) (l : list strm) : option strm :=
  match l with
  | [] => None
  | t :: r => if t_id t =? sid then Some t else find_strm sid r
  end.

Fixpoint upd_strm (sid : Z) (f : strm -> strm) (l : list strm) : list strm :=
  match l with
  | [] => []
  | t :: r => if t_id t =? sid then f t :: r else t :: upd_strm sid f r
  end.

Definition set_send (s : send) (t : strm) : strm := mkStrm (t_id t) (t_blocked t) (t_msdr t) s (t_stop t).
Definition set_stop (b : bool) (t : strm) : strm := mkStrm (t_id t) (t_blocked t) (t_msdr t) (t_send t) b.
Definition set_msdr (m : Z) (t : strm) : strm := mkStrm (t_id t) (t_blocked t) m (t_send t) (t_stop t).
Definition unblocked (m : Z) (t : strm) : strm := mkStrm (t_id t) false m (t_send t) (t_stop t).

Definition with_streams (c : conn) (l : list strm) : conn :=
  mkConn (c_client c) (c_max_data c) (c_used c) (c_msd_bl c) (c_msd_br c) (c_msd_uni c)
         (c_ms_bidi c) (c_ms_uni c) l (c_blk_bidi c) (c_blk_uni c).

Definition upd_send (c : conn) (sid : Z) (s : send) : conn :=
  with_streams c (upd_strm sid (set_send s) (c_streams c)).

(* outcome of one operation *)
Inductive fout :=
| FOk                                   (* returned normally, nothing to report *)
| FSender (o : sout)                    (* the sender's own result (frame / None / AssertionError) *)
| FGet (max_offset : Z) (o : sout)      (* _write_stream_frame: the max_offset computed, get_frame's result *)
| FValueError                           (* ValueError from the public API *)
| FQErr (code : Z)                      (* QuicConnectionError raised by a frame handler *)
| FStop                                 (* a STOP_SENDING frame was written *)
| FBlocked (limit : option Z)           (* _write_application's STREAMS_BLOCKED step for one kind: the frame's limit, or no frame *)
| FIneligible                           (* the stream loop of _write_application would not make this call *)
| FNoStream.                            (* no such stream (the call cannot happen) *)

(* _get_or_create_stream_for_send *)
Definition for_send (c : conn) (sid : Z) : option (conn * strm) :=
  if negb (can_send c sid) then None else
  match find_strm sid (c_streams c) with
  | Some t => Some (c, t)
  | None =>
      if negb (Bool.eqb (sid_client sid) (c_client c)) then None else
      let uni := sid_uni sid in
      let msd := if uni then c_msd_uni c else c_msd_br c in
      let maxs := if uni then c_ms_uni c else c_ms_bidi c in
      let blocked := sid / 4 >=? maxs in
      let t := mkStrm sid blocked msd (send_init true) false in
      let c' := mkConn (c_client c) (c_max_data c) (c_used c) (c_msd_bl c) (c_msd_br c) (c_msd_uni c)
                  (c_ms_bidi c) (c_ms_uni c) (c_streams c ++ [t])
                  (if blocked && negb uni then c_blk_bidi c ++ [sid] else c_blk_bidi c)
                  (if blocked && uni then c_blk_uni c ++ [sid] else c_blk_uni c) in
      Some (c', t)
  end.

(* _get_or_create_stream for a frame received from the peer (stream-count check against the LOCAL
   limits is C07's; it is assumed to pass here) *)
Definition STREAM_STATE_ERROR : Z := 5.
Definition FRAME_ENCODING_ERROR : Z := 7.
Definition PROTOCOL_VIOLATION : Z := 10.

Definition from_peer (c : conn) (sid : Z) : option (conn * strm) :=
  match find_strm sid (c_streams c) with
  | Some t => Some (c, t)
  | None =>
      if Bool.eqb (sid_client sid) (c_client c) then None    (* "Wrong stream initiator" *)
      else
        let uni := sid_uni sid in
        let t := mkStrm sid false (if uni then 0 else c_msd_bl c) (send_init (negb uni)) false in
        Some (with_streams c (c_streams c ++ [t]), t)
  end.

(* _unblock_streams: only the head of the blocked list is examined *)
Fixpoint unblock_loop (msd maxs : Z) (blk : list Z) (l : list strm) : list Z * list strm :=
  match blk with
  | sid :: rest =>
      if sid / 4 <? maxs then unblock_loop msd maxs rest (upd_strm sid (unblocked msd) l)
      else (blk, l)
  | [] => ([], l)
  end.

Definition unblock (c : conn) (uni : bool) : conn :=
  if uni then
    let '(blk, l) := unblock_loop (c_msd_uni c) (c_ms_uni c) (c_blk_uni c) (c_streams c) in
    mkConn (c_client c) (c_max_data c) (c_used c) (c_msd_bl c) (c_msd_br c) (c_msd_uni c)
           (c_ms_bidi c) (c_ms_uni c) l (c_blk_bidi c) blk
  else
    let '(blk, l) := unblock_loop (c_msd_br c) (c_ms_bidi c) (c_blk_bidi c) (c_streams c) in
    mkConn (c_client c) (c_max_data c) (c_used c) (c_msd_bl c) (c_msd_br c) (c_msd_uni c)
           (c_ms_bidi c) (c_ms_uni c) l blk (c_blk_uni c).

(* how the repaired _parse_transport_parameters is entered *)
Inductive pmode :=
| PTicket      (* from_session_ticket=True: restoring the parameters remembered for 0-RTT *)
| PAccepted    (* handshake parameters, tls.early_data_accepted is True *)
| PRejected.   (* handshake parameters, 0-RTT not accepted (rejected, or not attempted) *)

Inductive fop :=
| OSend (sid : Z) (data : list Z) (fin : bool)        (* send_stream_data *)
| OReset (sid : Z) (code : Z)                         (* reset_stream *)
| OStopSending (sid : Z)                              (* STOP_SENDING received *)
| OMaxData (v : Z)                                    (* MAX_DATA received *)
| OMaxStreamData (sid : Z) (v : Z)                    (* MAX_STREAM_DATA received *)
| OMaxStreams (uni : bool) (v : Z)                    (* MAX_STREAMS_BIDI / _UNI received *)
| OParams (md msd_bl msd_br msd_uni ms_bidi ms_uni : option Z)   (* _parse_transport_parameters *)
| OHandshakeDone                                      (* handshake completes: both _unblock_streams *)
| OGet (sid : Z) (max_size : Z)                       (* one _write_stream_frame call of the stream loop *)
| OGetReset (sid : Z)                                 (* one _write_reset_stream_frame call *)
| ODeliv (sid : Z) (acked : bool) (a b : Z) (fin : bool)   (* delivery outcome of a STREAM frame *)
| OResetDeliv (sid : Z) (acked : bool)                (* delivery outcome of a RESET_STREAM frame *)
| OPeerOpen (sid : Z)                                 (* any other peer frame that creates the stream *)
| OStop (sid : Z)                                     (* stop_stream *)
| OGetStop (sid : Z)                                  (* one _write_stop_sending_frame call *)
| OStopDeliv (sid : Z) (acked : bool)                 (* delivery outcome of a STOP_SENDING frame *)
| OBlockedFrame (uni : bool)                          (* the STREAMS_BLOCKED step of _write_application for one kind *)
| OParamsP (m : pmode) (md msd_bl msd_br msd_uni ms_bidi ms_uni : option Z).   (* repaired _parse_transport_parameters *)

Definition orz (o : option Z) (d : Z) : Z := match o with Some v => v | None => d end.

(* the max_offset argument computed by the stream loop *)
Definition max_offset (c : conn) (t : strm) : Z :=
  Z.min (s_highest (t_send t) + c_max_data c - c_used c) (t_msdr t).

(* the six limits replaced, everything else kept *)
Definition with_limits (c : conn) (md bl br un sb su : Z) : conn :=
  mkConn (c_client c) md (c_used c) bl br un sb su (c_streams c) (c_blk_bidi c) (c_blk_uni c).

(* repaired _parse_transport_parameters, not accepted: what was sent under the remembered limits is forgotten --
   every stream held in _streams is marked blocked and its sender's highest_offset set to 0, _remote_max_data_used
   is set to 0 -- and the two blocked lists are rebuilt from _streams in creation order *)
Definition forget (st : send) : send :=
  mkSend (s_empty st) 0 (s_finished st) (s_reset_pending st) (s_acked st) (s_acked_fin st) (s_buf st)
         (s_fin st) (s_start st) (s_stop st) (s_pending st) (s_pending_eof st) (s_reset st).
Definition blocked_again (t : strm) : strm := mkStrm (t_id t) true (t_msdr t) (forget (t_send t)) (t_stop t).
Definition reblock (c : conn) : conn :=
  mkConn (c_client c) (c_max_data c) 0 (c_msd_bl c) (c_msd_br c) (c_msd_uni c) (c_ms_bidi c) (c_ms_uni c)
         (map blocked_again (c_streams c))
         (map t_id (filter (fun t => negb (sid_uni (t_id t))) (c_streams c)))
         (map t_id (filter (fun t => sid_uni (t_id t)) (c_streams c))).

(* the store loop of the repaired function: the limits are taken one at a time (absent = 0); with 0-RTT accepted the
   first value below the one held raises, the earlier ones are already stored *)
Definition store_limits (chk : bool) (c : conn) (md bl br un sb su : Z) : fout * conn :=
  if chk && (md <? c_max_data c) then (FQErr PROTOCOL_VIOLATION, c) else
  let c1 := with_limits c md (c_msd_bl c) (c_msd_br c) (c_msd_uni c) (c_ms_bidi c) (c_ms_uni c) in
  if chk && (bl <? c_msd_bl c) then (FQErr PROTOCOL_VIOLATION, c1) else
  let c2 := with_limits c md bl (c_msd_br c) (c_msd_uni c) (c_ms_bidi c) (c_ms_uni c) in
  if chk && (br <? c_msd_br c) then (FQErr PROTOCOL_VIOLATION, c2) else
  let c3 := with_limits c md bl br (c_msd_uni c) (c_ms_bidi c) (c_ms_uni c) in
  if chk && (un <? c_msd_uni c) then (FQErr PROTOCOL_VIOLATION, c3) else
  let c4 := with_limits c md bl br un (c_ms_bidi c) (c_ms_uni c) in
  if chk && (sb <? c_ms_bidi c) then (FQErr PROTOCOL_VIOLATION, c4) else
  let c5 := with_limits c md bl br un sb (c_ms_uni c) in
  if chk && (su <? c_ms_uni c) then (FQErr PROTOCOL_VIOLATION, c5) else
  (FOk, with_limits c md bl br un sb su).

Definition fstep (c : conn) (op : fop) : fout * conn :=
  match op with
  | OSend sid data fin =>
      match for_send c sid with
      | None => (FValueError, c)
      | Some (c1, t) =>
          let '(o, s') := write (t_send t) data fin in
          (FSender o, upd_send c1 sid s')
      end
  | OReset sid code =>
      match for_send c sid with
      | None => (FValueError, c)
      | Some (c1, t) =>
          let '(o, s') := reset (t_send t) code in
          (FSender o, upd_send c1 sid s')
      end
  | OStopSending sid =>
      if negb (can_send c sid) then (FQErr STREAM_STATE_ERROR, c) else
      match from_peer c sid with
      | None => (FQErr STREAM_STATE_ERROR, c)
      | Some (c1, t) =>
          let '(o, s') := reset (t_send t) 0 in
          (FSender o, upd_send c1 sid s')
      end
  | OMaxData v =>
      (FOk, if v >? c_max_data c then
              mkConn (c_client c) v (c_used c) (c_msd_bl c) (c_msd_br c) (c_msd_uni c)
                     (c_ms_bidi c) (c_ms_uni c) (c_streams c) (c_blk_bidi c) (c_blk_uni c)
            else c)
  | OMaxStreamData sid v =>
      if negb (can_send c sid) then (FQErr STREAM_STATE_ERROR, c) else
      match from_peer c sid with
      | None => (FQErr STREAM_STATE_ERROR, c)
      | Some (c1, t) =>
          (FOk, if v >? t_msdr t then with_streams c1 (upd_strm sid (set_msdr v) (c_streams c1)) else c1)
      end
  | OMaxStreams uni v =>
      if v >? 1152921504606846976 then (FQErr FRAME_ENCODING_ERROR, c) else
      if uni then
        if v >? c_ms_uni c then
          (FOk, unblock (mkConn (c_client c) (c_max_data c) (c_used c) (c_msd_bl c) (c_msd_br c) (c_msd_uni c)
                           (c_ms_bidi c) v (c_streams c) (c_blk_bidi c) (c_blk_uni c)) true)
        else (FOk, c)
      else
        if v >? c_ms_bidi c then
          (FOk, unblock (mkConn (c_client c) (c_max_data c) (c_used c) (c_msd_bl c) (c_msd_br c) (c_msd_uni c)
                           v (c_ms_uni c) (c_streams c) (c_blk_bidi c) (c_blk_uni c)) false)
        else (FOk, c)
  | OParams md bl br un sb su =>
      (FOk, mkConn (c_client c) (orz md (c_max_data c)) (c_used c) (orz bl (c_msd_bl c)) (orz br (c_msd_br c))
                   (orz un (c_msd_uni c)) (orz sb (c_ms_bidi c)) (orz su (c_ms_uni c))
                   (c_streams c) (c_blk_bidi c) (c_blk_uni c))
  | OHandshakeDone => (FOk, unblock (unblock c false) true)
  | OGet sid ms =>
      match find_strm sid (c_streams c) with
      | None => (FNoStream, c)
      | Some t =>
          let s := t_send t in
          if s_reset_pending s || t_blocked t || s_empty s then (FIneligible, c) else
          let mo := max_offset c t in
          let '(o, s') := get_frame s ms (Some mo) in
          let used := s_highest s' - s_highest s in
          (FGet mo o,
           mkConn (c_client c) (c_max_data c) (c_used c + used) (c_msd_bl c) (c_msd_br c) (c_msd_uni c)
                  (c_ms_bidi c) (c_ms_uni c) (upd_strm sid (set_send s') (c_streams c)) (c_blk_bidi c) (c_blk_uni c))
      end
  | OGetReset sid =>
      match find_strm sid (c_streams c) with
      | None => (FNoStream, c)
      | Some t =>
          if negb (s_reset_pending (t_send t)) || t_blocked t then (FIneligible, c) else
          let '(o, s') := get_reset_frame (t_send t) in
          (FSender o, upd_send c sid s')
      end
  | ODeliv sid k a b f =>
      match find_strm sid (c_streams c) with
      | None => (FNoStream, c)
      | Some t => let '(o, s') := on_data_delivery (t_send t) k a b f in (FSender o, upd_send c sid s')
      end
  | OResetDeliv sid k =>
      match find_strm sid (c_streams c) with
      | None => (FNoStream, c)
      | Some t => let '(o, s') := on_reset_delivery (t_send t) k in (FSender o, upd_send c sid s')
      end
  | OPeerOpen sid =>
      match from_peer c sid with
      | None => (FQErr STREAM_STATE_ERROR, c)
      | Some (c1, _) => (FOk, c1)
      end
  | OStop sid =>
      if negb (can_receive c sid) then (FValueError, c) else
      match find_strm sid (c_streams c) with
      | None => (FValueError, c)
      | Some _ => (FOk, with_streams c (upd_strm sid (set_stop true) (c_streams c)))
      end
  | OGetStop sid =>
      match find_strm sid (c_streams c) with
      | None => (FNoStream, c)
      | Some t =>
          if negb (t_stop t) || t_blocked t then (FIneligible, c) else
          (FStop, with_streams c (upd_strm sid (set_stop false) (c_streams c)))
      end
  | OStopDeliv sid k =>
      match find_strm sid (c_streams c) with
      | None => (FNoStream, c)
      | Some _ => (FOk, if k then c else with_streams c (upd_strm sid (set_stop true) (c_streams c)))
      end
  | OBlockedFrame uni =>
      (* `if self._streams_blocked_bidi: self._write_streams_blocked_frame(..., limit=self._remote_max_streams_bidi)`
         (and the same for uni); WHEN the step runs (_handshake_complete and _streams_blocked_pending) is an input *)
      (FBlocked (match (if uni then c_blk_uni c else c_blk_bidi c) with
                 | [] => None
                 | _ :: _ => Some (if uni then c_ms_uni c else c_ms_bidi c)
                 end), c)
  | OParamsP m md bl br un sb su =>
      let r := store_limits (match m with PAccepted => true | _ => false end) c
                 (orz md 0) (orz bl 0) (orz br 0) (orz un 0) (orz sb 0) (orz su 0) in
      match m with
      | PRejected => (fst r, reblock (snd r))
      | _ => r
      end
  end.

(* the stream loop of _write_application over _streams_queue, as a sequence of the calls above (discarding of finished
   streams is not modelled): per queued stream the STOP_SENDING branch, then RESET_STREAM or (elif) STREAM.
   [budgets] = the size budget the packet builder offers to the _write_stream_frame call of each visited stream, in
   visiting order (an input); the list ending early = QuicPacketBuilderStop ends the loop for this packet.
   NOT executed by the tie (the tie feeds the individual calls); used to state progress for a whole pass. *)
Definition loop_step (c : conn) (sid ms : Z) : list fout * conn :=
  let r1 := fstep c (OGetStop sid) in
  let c1 := snd r1 in
  let reset_branch := match find_strm sid (c_streams c1) with
                      | Some t => s_reset_pending (t_send t) && negb (t_blocked t)
                      | None => false
                      end in
  let r2 := if reset_branch then fstep c1 (OGetReset sid) else fstep c1 (OGet sid ms) in
  ([fst r1; fst r2], snd r2).

Fixpoint stream_loop (c : conn) (q : list Z) (budgets : list Z) : list (Z * list fout) * conn :=
  match q, budgets with
  | sid :: q', ms :: b' =>
      let r := loop_step c sid ms in
      let rr := stream_loop (snd r) q' b' in
      ((sid, fst r) :: fst rr, snd rr)
  | _, _ => ([], c)
  end.

Definition frun (c : conn) (ops : list fop) : conn := fold_left (fun c op => snd (fstep c op)) ops c.

(* ---------- executable interface ---------------------------------------------------
   input: is_client, then ops
     0 sid fin n bytes   send_stream_data        1 sid code   reset_stream      2 sid  STOP_SENDING
     3 v   MAX_DATA      4 sid v  MAX_STREAM_DATA                5 uni v  MAX_STREAMS
     6 (opt)x6  transport parameters             7  handshake complete
     8 sid max_size  _write_stream_frame         9 sid  _write_reset_stream_frame
     10 sid acked a b fin  STREAM delivery       11 sid acked  RESET_STREAM delivery    12 sid  peer opens
     13 n sid1..sidn   observe (not an operation)
     14 sid  stop_stream      15 sid  _write_stop_sending_frame      16 sid acked  STOP_SENDING delivery
     19 uni   the STREAMS_BLOCKED step of _write_application for one kind (0 bidi | 1 uni)
     18 mode (opt)x6  transport parameters, repaired function (mode 0 ticket | 1 0-RTT accepted | 2 not accepted)
     17   credit observation (not an operation): prints used max_data; the tie emits it before EVERY
          _write_stream_frame call, so the counter is compared between any two frames of one transmit
   output per op: outcome (0 ok | 1 sender-result.. | 2 max_offset sender-result.. | 3 ValueError |
     4 code QuicConnectionError | 5 ineligible | 6 no stream | 7 STOP_SENDING written |
     8 (0 | 1 limit) STREAMS_BLOCKED not written / written with that limit);
   per observe: used max_data max_streams_bidi max_streams_uni #blocked_bidi #blocked_uni, then per listed
     stream (0 | 1 is_blocked max_stream_data_remote highest_offset buffer_is_empty reset_pending stop_pending) *)
Definition out_fout (o : fout) : list Z :=
  match o with
  | FOk => [0]
  | FSender r => 1 :: out_sout r
  | FGet mo r => 2 :: mo :: out_sout r
  | FValueError => [3]
  | FQErr code => [4; code]
  | FIneligible => [5]
  | FStop => [7]
  | FBlocked None => [8; 0]
  | FBlocked (Some l) => [8; 1; l]
  | FNoStream => [6]
  end.

Definition obs_conn (c : conn) : list Z :=
  [c_used c; c_max_data c; c_ms_bidi c; c_ms_uni c; Zlen (c_blk_bidi c); Zlen (c_blk_uni c)].

Definition obs_strm (c : conn) (sid : Z) : list Z :=
  match find_strm sid (c_streams c) with
  | None => [0]
  | Some t => [1; b2z (t_blocked t); t_msdr t; s_highest (t_send t); b2z (s_empty (t_send t));
               b2z (s_reset_pending (t_send t)); b2z (t_stop t)]
  end.

Definition parse_op (ops : list Z) : option (fop * list Z) :=
  match ops with
  | 0 :: sid :: fin :: t => let '(d, t) := tk_list t in Some (OSend sid d (z2b fin), t)
  | 1 :: sid :: code :: t => Some (OReset sid code, t)
  | 2 :: sid :: t => Some (OStopSending sid, t)
  | 3 :: v :: t => Some (OMaxData v, t)
  | 4 :: sid :: v :: t => Some (OMaxStreamData sid v, t)
  | 5 :: uni :: v :: t => Some (OMaxStreams (z2b uni) v, t)
  | 6 :: t =>
      let '(a, t) := tk_opt t in let '(b, t) := tk_opt t in let '(c, t) := tk_opt t in
      let '(d, t) := tk_opt t in let '(e, t) := tk_opt t in let '(f, t) := tk_opt t in
      Some (OParams a b c d e f, t)
  | 7 :: t => Some (OHandshakeDone, t)
  | 8 :: sid :: ms :: t => Some (OGet sid ms, t)
  | 9 :: sid :: t => Some (OGetReset sid, t)
  | 10 :: sid :: k :: a :: b :: f :: t => Some (ODeliv sid (z2b k) a b (z2b f), t)
  | 11 :: sid :: k :: t => Some (OResetDeliv sid (z2b k), t)
  | 12 :: sid :: t => Some (OPeerOpen sid, t)
  | 14 :: sid :: t => Some (OStop sid, t)
  | 15 :: sid :: t => Some (OGetStop sid, t)
  | 16 :: sid :: k :: t => Some (OStopDeliv sid (z2b k), t)
  | 19 :: uni :: t => Some (OBlockedFrame (z2b uni), t)
  | 18 :: m :: t =>
      let '(a, t) := tk_opt t in let '(b, t) := tk_opt t in let '(c, t) := tk_opt t in
      let '(d, t) := tk_opt t in let '(e, t) := tk_opt t in let '(f, t) := tk_opt t in
      Some (OParamsP (if m =? 0 then PTicket else if m =? 1 then PAccepted else PRejected) a b c d e f, t)
  | _ => None
  end.

Fixpoint exec_flow (fuel : nat) (c : conn) (ops : list Z) : list Z :=
  match fuel with O => [] | S fuel =>
  match ops with
  | 13 :: t =>
      let '(sids, t) := tk_list t in
      obs_conn c ++ flat_map (obs_strm c) sids ++ exec_flow fuel c t
  | 17 :: t => c_used c :: c_max_data c :: exec_flow fuel c t
  | _ =>
    match parse_op ops with
    | None => []
    | Some (op, t) => let r := fstep c op in out_fout (fst r) ++ exec_flow fuel (snd r) t
    end
  end end.

(* EXTRACT: exec_flowsend *)
Definition exec_flowsend (toks : list Z) : list Z :=
  match toks with
  | cl :: ops => exec_flow (length ops) (conn_init (z2b cl)) ops
  | [] => []
  end.
