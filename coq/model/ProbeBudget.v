(* C08: the probe allowance of the flight budget ("one probe datagram per timeout") as a state machine.

   QuicConnection._probe_pending is
     SET     by QuicConnection._send_probe, the callback QuicPacketRecovery.reschedule_data() ends with; reschedule_data()
             is called by the probe-timeout branch of on_loss_detection_timeout() (handle_timer) and by two one-shot places
             of the receive path guarded by _crypto_retransmitted;
     READ    by datagrams_to_send() when it computes builder.max_flight_bytes (raised to one datagram);
     CLEARED by _write_handshake (CRYPTO written / probe PING written) and by _write_application (probe PING written).
   The guards, the guarded statement lists and their position among the other frame writers are NOT written here: they are
   the data of gen/C08Probe.v (tools/gen/c08_probe.py, AST of the current source) and this file interprets them.  What the
   packet builder answers (start_packet / start_frame return or raise QuicPacketBuilderStop), what is pending and what the
   pacer says are decision inputs: every combination is a possible call, which over-approximates the real connection. *)
From AQ Require Import lib.Base gen.C08Probe.
From Coq Require Import String.

(* ---------- guards ---------- *)
Record env := mkEnv {
  en_pending : bool; en_low : bool; en_hc : bool; en_epoch_hs : bool; en_hskeys : bool; en_crypto_written : bool;
  en_other : Z -> bool }.

Definition aeval (e : env) (a : patom) : bool :=
  match a with
  | APending => en_pending e
  | ALowBudget => en_low e
  | AHandshakeComplete => en_hc e
  | AEpochHandshake => en_epoch_hs e
  | AHandshakeKeys => en_hskeys e
  | ACryptoWritten => en_crypto_written e
  | AOther k => en_other e k
  end.

Fixpoint geval (e : env) (g : pguard) : bool :=
  match g with
  | GAtom a => aeval e a
  | GNot g => negb (geval e g)
  | GAnd a b => geval e a && geval e b
  | GOr a b => geval e a || geval e b
  end.

(* ---------- one datagrams_to_send call ---------- *)
(* running state of a call *)
Record cs := mkCS {
  pp : bool;          (* self._probe_pending *)
  ae : bool;          (* an ack-eliciting frame has been written by this call *)
  halted : bool;      (* QuicPacketBuilderStop is propagating to datagrams_to_send's handler *)
  prestop : bool;     (* the Stop was raised in a started 1-RTT / 0-RTT packet by a frame writer AHEAD of the probe PING, or by
                         the probe PING itself, after this call had already written an ack-eliciting frame *)
  raised : bool       (* the budget was raised to one datagram by the probe rule *)
}.

Definition set_pp (b : bool) (s : cs) := mkCS b (ae s) (halted s) (prestop s) (raised s).
Definition set_ae (s : cs) := mkCS (pp s) true (halted s) (prestop s) (raised s).
Definition halt (pre : bool) (s : cs) := mkCS (pp s) (ae s) true (prestop s || (pre && ae s)) (raised s).
Definition set_raised (s : cs) := mkCS (pp s) (ae s) (halted s) (prestop s) true.

(* a guarded statement list; [ping_ok] = start_frame(PING) returns, [in_app] = inside _write_application *)
Fixpoint run_stmts (ping_ok in_app : bool) (l : list pstmt) (s : cs) : cs :=
  match l with
  | [] => s
  | st :: t =>
      if halted s then s else
      match st with
      | SPing => if ping_ok then run_stmts ping_ok in_app t (set_ae s) else halt in_app s
      | SClear => run_stmts ping_ok in_app t (set_pp false s)
      | SSet => run_stmts ping_ok in_app t (set_pp true s)
      | SRaiseBudget => run_stmts ping_ok in_app t (set_raised s)
      end
  end.

(* outcome of a group of frame writers: nothing was pending / all pending frames written (at least one) / one of them raised
   QuicPacketBuilderStop, after [wrote] = some of them had been written *)
Inductive wr := WNone | WWritten | WStop (wrote : bool).

(* a group that is ONE frame: when its start_frame raises, nothing of it was written *)
Definition single (w : wr) : wr := match w with WStop _ => WStop false | _ => w end.

Definition apply_wr (pre ack_eliciting : bool) (w : wr) (s : cs) : cs :=
  match w with
  | WNone => s
  | WWritten => if ack_eliciting then set_ae s else s
  | WStop wrote => halt pre (if wrote && ack_eliciting then set_ae s else s)
  end.

(* decisions of one iteration of _write_handshake's packet loop *)
Record hs_iter := mkHI {
  hi_start : bool;        (* builder.start_packet returns (false: raises QuicPacketBuilderStop) *)
  hi_ack : wr;            (* ACK: not ack-eliciting *)
  hi_crypto : wr;         (* WNone: buffer empty or get_frame gave nothing (returns False); WWritten: returned True *)
  hi_ping_ok : bool;
  hi_empty : bool         (* builder.packet_is_empty: break *)
}.

(* the call-level inputs of the guards *)
Record cenv := mkCE { ce_low : bool; ce_hc : bool; ce_hskeys : bool; ce_other : Z -> bool }.

Definition env_of (c : cenv) (epoch_hs crypto_written : bool) (s : cs) : env :=
  mkEnv (pp s) (ce_low c) (ce_hc c) epoch_hs (ce_hskeys c) crypto_written (ce_other c).

(* one statement of the loop, by the codes of C08Probe.hs_order *)
Definition hs_code (c : cenv) (epoch_hs : bool) (d : hs_iter) (code : Z) (s : cs) : cs :=
  if halted s then s else
  if code =? 1 then (if hi_start d then s else halt false s)
  else if code =? 2 then apply_wr false false (single (hi_ack d)) s
  else if code =? 3 then
    let s1 := apply_wr false true (single (hi_crypto d)) s in
    if halted s1 then s1 else
    let written := match hi_crypto d with WWritten => true | _ => false end in
    if geval (env_of c epoch_hs written s1) hs_crypto_guard then run_stmts true false hs_crypto_body s1 else s1
  else if code =? 5 then
    if geval (env_of c epoch_hs false s) hs_probe_guard then run_stmts (hi_ping_ok d) false hs_probe_body s else s
  else s.

Definition hs_iteration (c : cenv) (epoch_hs : bool) (d : hs_iter) (s : cs) : cs :=
  fold_left (fun s code => hs_code c epoch_hs d code s) hs_order s.

(* while True: ...; if builder.packet_is_empty: break *)
Fixpoint hs_loop (c : cenv) (epoch_hs : bool) (its : list hs_iter) (s : cs) : cs :=
  match its with
  | [] => s
  | d :: t =>
      let s1 := hs_iteration c epoch_hs d s in
      if halted s1 || hi_empty d then s1 else hs_loop c epoch_hs t s1
  end.

(* None: crypto.send.is_valid() is false, _write_handshake returns at once *)
Definition hs_epoch (c : cenv) (epoch_hs : bool) (o : option (list hs_iter)) (s : cs) : cs :=
  if halted s then s else match o with None => s | Some its => hs_loop c epoch_hs its s end.

(* decisions of one iteration of _write_application's packet loop *)
Record app_iter := mkAI {
  ai_paced : bool;        (* the pacer asks to wait: break before start_packet *)
  ai_start : bool;
  ai_before : wr;         (* the frame writers of C08Probe.app_writers_before, together (ACK is the only one that is not
                             ack-eliciting; an ACK-only group is WNone here) *)
  ai_ping_ok : bool;
  ai_after : wr;          (* C08Probe.app_writers_after *)
  ai_empty : bool
}.

Definition has_break (l : list string) : bool := existsb (fun x => String.eqb x "break") l.
Definition nonempty {A} (l : list A) : bool := match l with [] => false | _ => true end.

Definition app_iteration (c : cenv) (d : app_iter) (s : cs) : cs :=
  if ai_start d then
    let s1 := apply_wr true true (if nonempty app_writers_before then ai_before d else WNone) s in
    if halted s1 then s1 else
    let s2 := if geval (env_of c false false s1) app_probe_guard then run_stmts (ai_ping_ok d) true app_probe_body s1 else s1 in
    if halted s2 then s2 else
    apply_wr false true (if nonempty app_writers_after then ai_after d else WNone) s2
  else halt false s.

Fixpoint app_loop (c : cenv) (its : list app_iter) (s : cs) : cs :=
  match its with
  | [] => s
  | d :: t =>
      if has_break app_before_start && ai_paced d then s else
      let s1 := app_iteration c d s in
      if halted s1 || ai_empty d then s1 else app_loop c t s1
  end.

Record call_in := mkCall {
  c_skip : bool;                          (* state in END_STATES or no network path: return [] *)
  c_close : bool;                         (* _close_pending: the close round sets no flight budget and does not touch the flag *)
  c_env : cenv;
  c_confirmed : bool;                     (* _handshake_confirmed: _write_handshake is not called *)
  c_initial : option (list hs_iter);
  c_handshake : option (list hs_iter);
  c_app : option (list app_iter)          (* None: neither 1-RTT nor 0-RTT send keys *)
}.

Definition call (pp0 : bool) (d : call_in) : cs :=
  let s0 := mkCS pp0 false false false false in
  if c_skip d || c_close d then s0 else
  let c := c_env d in
  let s1 := if geval (env_of c false false s0) dts_budget_guard then run_stmts true false dts_budget_body s0 else s0 in
  let s2 := if c_confirmed d then s1 else hs_epoch c true (c_handshake d) (hs_epoch c false (c_initial d) s1) in
  if halted s2 then s2 else match c_app d with None => s2 | Some its => app_loop c its s2 end.

(* ---------- histories ---------- *)
Inductive ev :=
| ETimeout (pto : bool)    (* handle_timer -> on_loss_detection_timeout; pto = no loss space: the probe-timeout branch *)
| EEarly                   (* a one-shot early retransmission site of the receive path is reached *)
| EOther                   (* any other public call (acknowledgements, data, ...): the flag is not touched *)
| ECall (d : call_in).     (* datagrams_to_send *)

Record pst := mkP {
  s_pp : bool;               (* _probe_pending *)
  s_cr : bool;               (* _crypto_retransmitted *)
  s_grants : Z;              (* ghost: send_probe invocations = probe timeouts fired + early retransmissions *)
  s_timeouts : Z;            (* ghost: probe timeouts fired *)
  s_probes : Z;              (* ghost: calls with a raised budget that wrote an ack-eliciting frame, prestop calls excluded *)
  s_over : Z                 (* ghost: calls with a raised budget that wrote an ack-eliciting frame, all of them *)
}.

Definition init : pst := mkP false false 0 0 0 0.

Definition send_probe (b : bool) : bool := pp (run_stmts true false send_probe_body (mkCS b false false false false)).

Definition step (s : pst) (e : ev) : pst :=
  match e with
  | ETimeout true => mkP (send_probe (s_pp s)) (s_cr s) (s_grants s + 1) (s_timeouts s + 1) (s_probes s) (s_over s)
  | ETimeout false => s
  | EEarly => if s_cr s then s else mkP (send_probe (s_pp s)) true (s_grants s + 1) (s_timeouts s) (s_probes s) (s_over s)
  | EOther => s
  | ECall d =>
      let r := call (s_pp s) d in
      mkP (pp r) (s_cr s) (s_grants s) (s_timeouts s)
          (s_probes s + b2z (raised r && ae r && negb (prestop r)))
          (s_over s + b2z (raised r && ae r))
  end.

Definition run (h : list ev) : pst := fold_left step h init.

(* the budget datagrams_to_send hands to the builder, from the values read before the call *)
Definition dts_max_flight (pending : bool) (cwnd bif mds : Z) : Z :=
  let base := cwnd - bif in
  let s := mkCS pending false false false false in
  let e := mkEnv pending (base <? mds) false false false false (fun _ => false) in
  if geval e dts_budget_guard && raised (run_stmts true false dts_budget_body s) then mds else base.
