(* C01: schedules of the network system model/NetSys.v and the completing continuation [complete].
   Executable definitions only (no proofs): running a schedule, the continuation that finishes a
   stream from ANY state (LOST for every frame without outcome, then emit / deliver / ACKED rounds;
   after reset(): emit, deliver and acknowledge one RESET_STREAM), and the extracted interface that
   prints this continuation for a state given by a schedule.  The theorems about them are in
   proofs/NetSysP4.v (fair_schedule_completes) and proofs/NetSysP7.v (reset_completes). *)
From AQ Require Import lib.Base lib.Tok model.RangeSet model.StreamRecv model.StreamSend model.NetSys.

(* run a schedule; None as soon as a step is not enabled *)
Fixpoint run_sched (s : net) (ops : list nop) : option net :=
  match ops with
  | [] => Some s
  | op :: t => match net_step s op with Some (_, s') => run_sched s' t | None => None end
  end.

Definition noout (f : eframe) : bool := is_noneb (ef_out f).

(* ---------- phase A: LOST for every frame without outcome ---------- *)
Definition lose1 (f : eframe) : eframe :=
  if noout f then mkEF (ef_off f) (ef_data f) (ef_fin f) (ef_deliv f) (Some false) else f.

Fixpoint lose_from (i : Z) (l : list eframe) : list nop :=
  match l with
  | [] => []
  | f :: t => (if noout f then [NOutcome i false] else []) ++ lose_from (i + 1) t
  end.

Definition lose_all (s : net) : list nop := lose_from 0 (n_emitted s).

(* [after_loss s]: the state after phase A *)
Definition after_loss (s : net) : net := match run_sched s (lose_all s) with Some s1 => s1 | None => s end.

(* ---------- phase B: emit / deliver / acknowledge ---------- *)
(* number of emit rounds needed for the pending ranges with budget ms: sum of ceil(len / ms), + 1 for a pending FIN *)
Fixpoint rsum (ms : Z) (l : rs) : Z :=
  match l with [] => 0 | (a, b) :: t => (b - a + ms - 1) / ms + rsum ms t end.
Definition rounds (ms : Z) (st : send) : Z := rsum ms (s_pending st) + b2z (s_pending_eof st).

Definition round_ops (ms : Z) (s : net) : list nop :=
  let k := Zlen (n_emitted s) in [NEmit ms None; NDeliver k; NOutcome k true].

Fixpoint pump (fuel : nat) (ms : Z) (s : net) : list nop :=
  match fuel with
  | O => []
  | S fuel =>
      match get_frame (n_send s) ms None with
      | (SFrame _ _ _, _) =>
          match run_sched s (round_ops ms s) with
          | Some s' => round_ops ms s ++ pump fuel ms s'
          | None => []
          end
      | _ => []
      end
  end.

(* the continuation for a stream that has not been reset *)
Definition complete (ms : Z) (s : net) : list nop :=
  match run_sched s (lose_all s) with
  | Some s1 => lose_all s ++ pump (Z.to_nat (rounds ms (n_send s1))) ms s1
  | None => lose_all s
  end.

(* ... and after reset(): emit a RESET_STREAM, deliver it, acknowledge it *)
Definition reset_round (s : net) : list nop := [NEmitReset; NDeliverReset (Zlen (n_resets s)); NResetOutcome true].

Definition live_complete (ms : Z) (s : net) : list nop :=
  match s_reset (n_send s) with Some _ => reset_round s | None => complete ms s end.

(* ---------- executable interface ---------------------------------------------------
   input: ms, then ops encoded as for exec_netsys (model/NetSys.v); the ops are run from net_init (an op that
   is not enabled leaves the state unchanged, as in exec_netsys); output: [live_complete ms state] in the same
   op encoding *)
Fixpoint run_toks (fuel : nat) (s : net) (ops : list Z) : net :=
  match fuel with O => s | S fuel =>
  let k (r : option (nout * net)) (t : list Z) :=
    match r with Some (_, s') => run_toks fuel s' t | None => run_toks fuel s t end in
  match ops with
  | 0 :: fin :: t => let '(d, t) := tk_list t in k (net_step s (NWrite d (z2b fin))) t
  | 1 :: ms :: t => let '(mo, t) := tk_opt t in k (net_step s (NEmit ms mo)) t
  | 2 :: i :: t => k (net_step s (NDeliver i)) t
  | 3 :: i :: a :: t => k (net_step s (NOutcome i (z2b a))) t
  | 4 :: c :: t => k (net_step s (NReset c)) t
  | 5 :: t => k (net_step s NEmitReset) t
  | 6 :: j :: t => k (net_step s (NDeliverReset j)) t
  | 7 :: a :: t => k (net_step s (NResetOutcome (z2b a))) t
  | 8 :: t => k (net_step s NPop) t
  | 9 :: t => k (net_step s NSync) t
  | _ => s
  end end.

Definition out_nop (op : nop) : list Z :=
  match op with
  | NWrite d fin => 0 :: b2z fin :: out_list d
  | NEmit ms mo => 1 :: ms :: out_opt mo
  | NDeliver i => [2; i]
  | NOutcome i a => [3; i; b2z a]
  | NReset c => [4; c]
  | NEmitReset => [5]
  | NDeliverReset j => [6; j]
  | NResetOutcome a => [7; b2z a]
  | NPop => [8]
  | NSync => [9]
  end.

(* EXTRACT: exec_netsys_complete *)
Definition exec_netsys_complete (toks : list Z) : list Z :=
  match toks with
  | ms :: ops => flat_map out_nop (live_complete ms (run_toks (length ops) net_init ops))
  | [] => []
  end.
