(* C20  A tiny imperative language with statements tagged Core or Log, its functional big-step
   semantics, erasure of the Log statements, and the (boolean, computable) well-formedness conditions
   under which erasure is unobservable on the core part of the store.

   The effect skeletons that tools/gen/c20_skeleton.py extracts from every logger-guarded block of
   the aioquic source (coq/gen/LogSkeleton.v) are terms of this language.  No proofs here
   (coq/proofs/LogEraseP.v). *)
From Coq Require Import String.
From AQ Require Import lib.Base.
Open Scope string_scope.
Open Scope Z_scope.

(* ---------------------------------------------------------------------------------------------
   Locations are access paths, described structurally so that ownership is decided HERE (by name),
   not by the translator. *)
Inductive root :=
| RSelf                      (* the object whose method runs (QuicConnection, H3Connection, ...) *)
| RLogger                    (* self inside logger.py's QuicLoggerTrace: the trace object itself *)
| RLocalLog (n : string)     (* a local never read outside logger-guarded code / local of an inlined log helper *)
| RFresh (n : string)        (* the object freshly created inside the block and held by local n *)
| RLocal (n : string)        (* any other local or parameter *)
| RGlobal (n : string)       (* module-level name *)
| RUnknown.                  (* anything the translator could not describe *)

Record loc := L { l_root : root; l_path : list string; l_contents : bool }.
(* L r [a; b] false = r.a.b (the binding);  L r [a; b] true = the contents of the object r.a.b
   (what append / pop / item assignment / del mutate);  "[]" in a path = "some item of". *)

Definition log_names : list string :=
  ["_quic_logger"; "quic_logger"; "quic_logger_frames"; "_quic_logger_frames"; "secrets_log_file"; "_secrets_log"].

Definition is_log_name (s : string) : bool := existsb (String.eqb s) log_names.

Definition log_owned (l : loc) : bool :=
  match l_root l with
  | RLogger => true
  | RFresh _ => match l_path l with [] => true | _ => existsb is_log_name (l_path l) end
  | RLocalLog n =>
      is_log_name n || existsb is_log_name (l_path l)
      || (match l_path l with [] => negb (l_contents l) | _ => false end)
  | RLocal n => is_log_name n || existsb is_log_name (l_path l)
  | RSelf | RGlobal _ => existsb is_log_name (l_path l)
  | RUnknown => false
  end.

Definition root_eqb (a b : root) : bool :=
  match a, b with
  | RSelf, RSelf | RLogger, RLogger | RUnknown, RUnknown => true
  | RLocalLog x, RLocalLog y | RFresh x, RFresh y | RLocal x, RLocal y | RGlobal x, RGlobal y => String.eqb x y
  | _, _ => false
  end.

Fixpoint path_eqb (a b : list string) : bool :=
  match a, b with
  | [], [] => true
  | x :: a', y :: b' => String.eqb x y && path_eqb a' b'
  | _, _ => false
  end.

Definition loc_eqb (a b : loc) : bool :=
  root_eqb (l_root a) (l_root b) && path_eqb (l_path a) (l_path b) && Bool.eqb (l_contents a) (l_contents b).

(* ---------------------------------------------------------------------------------------------
   Expressions are pure: they read locations.  Python values are abstracted to Z. *)
Inductive expr :=
| EConst (z : Z)
| ERead (l : loc)
| EOp (op : Z) (a b : expr).

Definition binop (op a b : Z) : Z :=
  if op =? 0 then a + b else if op =? 1 then a - b else if op =? 2 then b2z (a =? b) else a * b.

(* Callees, described structurally; which of them are acceptable inside Log code is decided below. *)
Inductive fn :=
| FLogger (m : string)       (* self._quic_logger.<m>(...): a method of logger.py's QuicLoggerTrace *)
| FLoggerHost (m : string)   (* <...>.quic_logger.<m>(...): start_trace / end_trace of the QuicLogger *)
| FSecretsFile (m : string)  (* secrets_log_file.<m>(...): write / flush on the key-log file object *)
| FPure (name : string)      (* a builtin, module function or method of a value, by name (whitelist below) *)
| FOther (desc : string).    (* anything else, incl. every method of self that could not be inlined *)

Inductive stmt :=
| SSkip
| SAssign (l : loc) (e : expr)
| SCall (dst : option loc) (f : fn) (args : list expr)
| SIf (c : expr) (a b : stmt)
| SSeq (a b : stmt)
| SCtl                        (* return / raise / break / continue / assert: leaves the enclosing code *)
| SLog (a : stmt).            (* tag: a is Log code; everything outside an SLog is Core code *)

Definition store := loc -> Z.
Definition upd (s : store) (l : loc) (v : Z) : store := fun l' => if loc_eqb l l' then v else s l'.

Fixpoint eval (e : expr) (s : store) : Z :=
  match e with
  | EConst z => z
  | ERead l => s l
  | EOp op a b => binop op (eval a s) (eval b s)
  end.

(* a callee: arguments, store |-> new store, result, raised? *)
Definition fsem := list Z -> store -> store * Z * bool.

(* run: (final store, control left the code: return/raise/... or a callee raised) *)
Fixpoint run (fenv : fn -> fsem) (p : stmt) (s : store) : store * bool :=
  match p with
  | SSkip => (s, false)
  | SAssign l e => (upd s l (eval e s), false)
  | SCall dst f args =>
      match fenv f (map (fun e => eval e s) args) s with
      | (s', v, raised) =>
          if raised then (s', true)
          else (match dst with Some l => upd s' l v | None => s' end, false)
      end
  | SIf c a b => if eval c s =? 0 then run fenv b s else run fenv a s
  | SSeq a b => match run fenv a s with
                | (s1, true) => (s1, true)
                | (s1, false) => run fenv b s1
                end
  | SCtl => (s, true)
  | SLog a => run fenv a s
  end.

Fixpoint erase (p : stmt) : stmt :=
  match p with
  | SLog _ => SSkip
  | SIf c a b => SIf c (erase a) (erase b)
  | SSeq a b => SSeq (erase a) (erase b)
  | _ => p
  end.

Definition proj_core (s : store) : store := fun l => if log_owned l then 0 else s l.

(* ---------------------------------------------------------------------------------------------
   Well-formedness (all boolean, evaluated by vm_compute on the generated skeleton). *)
Fixpoint reads_log (e : expr) : bool :=
  match e with
  | EConst _ => false
  | ERead l => log_owned l
  | EOp _ a b => reads_log a || reads_log b
  end.

(* names accepted as pure inside Log code: no effect on any location, no exception for the
   argument types the call sites pass (the decode / hex conversions are the subject of LogEnc.v) *)
Definition pure_names : list string :=
  ["len"; "isinstance"; "int"; "str"; "bool"; "float"; "tuple"; "list"; "dict"; "min"; "max"; "sorted"; "enumerate"; "range";
   "hex"; "decode"; "get"; "items"; "keys"; "values"; "join"; "format";
   "binascii.hexlify"; "time.time"].

Definition secrets_file_methods : list string := ["write"; "flush"].
Definition logger_host_methods : list string := ["start_trace"; "end_trace"].

(* meths: the QuicLoggerTrace methods whose own bodies were checked (generated list) *)
Definition fn_log_ok (meths : list string) (f : fn) : bool :=
  match f with
  | FLogger m => existsb (String.eqb m) meths
  | FLoggerHost m => existsb (String.eqb m) logger_host_methods
  | FSecretsFile m => existsb (String.eqb m) secrets_file_methods
  | FPure n => existsb (String.eqb n) pure_names
  | FOther _ => false
  end.

(* callees whose behaviour may depend on logger-owned state: not allowed in Core code *)
Definition fn_reads_log (f : fn) : bool :=
  match f with
  | FLogger _ | FLoggerHost _ | FSecretsFile _ => true
  | _ => false
  end.

(* Log code: writes only log-owned locations, calls only log-ok callees, no control-flow effect *)
Fixpoint log_stmt_ok (meths : list string) (a : stmt) : bool :=
  match a with
  | SSkip => true
  | SAssign l _ => log_owned l
  | SCall dst f _ => fn_log_ok meths f && match dst with Some l => log_owned l | None => true end
  | SIf _ x y => log_stmt_ok meths x && log_stmt_ok meths y
  | SSeq x y => log_stmt_ok meths x && log_stmt_ok meths y
  | SCtl => false
  | SLog x => log_stmt_ok meths x
  end.

(* Core code: never reads a log-owned location, never calls a callee that depends on logger state *)
Fixpoint core_ok (p : stmt) : bool :=
  match p with
  | SSkip | SCtl | SLog _ => true
  | SAssign _ e => negb (reads_log e)
  | SCall _ f args => negb (fn_reads_log f) && forallb (fun e => negb (reads_log e)) args
  | SIf c a b => negb (reads_log c) && core_ok a && core_ok b
  | SSeq a b => core_ok a && core_ok b
  end.

(* the Log blocks of a program (outermost SLog bodies) *)
Fixpoint log_blocks (p : stmt) : list stmt :=
  match p with
  | SLog a => [a]
  | SIf _ a b => log_blocks a ++ log_blocks b
  | SSeq a b => log_blocks a ++ log_blocks b
  | _ => []
  end.

Definition prog_ok (meths : list string) (p : stmt) : bool :=
  core_ok p && forallb (log_stmt_ok meths) (log_blocks p).

(* ---------------------------------------------------------------------------------------------
   Uses of logger-owned names OUTSIDE guarded blocks, as classified structurally by the translator *)
Inductive use :=
| UParam          (* a function parameter / dataclass field / annotation with a logger name *)
| UKwPass         (* keyword argument quic_logger=... / quic_logger_frames=... (flows into a log-owned field) *)
| UWriteLog       (* assignment whose target is log-owned and whose value is None, a log-owned path, or start_trace(...) *)
| UHelperBody     (* inside a method that is only ever called from guarded blocks (checked there by inlining) *)
| UOther (d : string).

Definition use_ok (u : use) : bool := match u with UOther _ => false | _ => true end.

(* the whole generated skeleton *)
Definition skeleton_ok (logger_methods guarded : list (string * stmt)) (uses : list (string * use)) : bool :=
  let meths := map fst logger_methods in
  forallb (fun b => log_stmt_ok meths (snd b)) logger_methods
  && forallb (fun b => log_stmt_ok meths (snd b)) guarded
  && forallb (fun u => use_ok (snd u)) uses.
