(* C01: one stream direction as a network system.

   A sender half (model/StreamSend.v) and a receiver half (model/StreamRecv.v) joined by a
   network that may drop, delay, duplicate and reorder: every STREAM frame ever produced by
   get_frame joins the persistent list [n_emitted] together with its bytes; the network is
   the choice of WHICH emitted frame is handed to the receiver WHEN (any index, any number of
   times, or never).  Loss recovery is the choice of an outcome ACKED / LOST for an emitted frame
   that has had none (ACKED only for a frame that was delivered: acknowledgements are sound,
   property C12).  No proofs in this file.

   Connection-level glue that is part of the model (src/aioquic/quic/connection.py):
   * _write_stream_frame: the frame returned by get_frame goes on the wire and its delivery
     handler is registered (= it joins n_emitted with outcome None);
   * _handle_stream_frame / _handle_reset_stream_frame: the event returned by the receive half is
     queued for next_event() -- unless the receive half had already finished before this frame
     (then nothing is reported; see docs/C01.md, fix 3), FinalSizeError closes the connection;
   * next_event(): events are popped in FIFO order. *)
From AQ Require Import lib.Base lib.Tok model.RangeSet model.StreamRecv model.StreamSend.

Record eframe := mkEF {
  ef_off : Z;               (* offset *)
  ef_data : list Z;         (* the bytes it carries *)
  ef_fin : bool;            (* FIN bit *)
  ef_deliv : bool;          (* has been handed to the receiver at least once *)
  ef_out : option bool      (* delivery outcome: None = none yet, Some true = ACKED, Some false = LOST *)
}.

Definition fkey := (Z * Z * bool)%type.     (* start, stop, fin: what the delivery handler is given *)
Definition ef_key (f : eframe) : fkey := (ef_off f, ef_off f + Zlen (ef_data f), ef_fin f).

Record net := mkNet {
  n_send : send;
  n_recv : recv;
  n_written : list Z;         (* ghost: every byte the application wrote, in order *)
  n_racked : bool;            (* ghost: a RESET_STREAM was acknowledged *)
  n_emitted : list eframe;    (* every STREAM frame ever emitted, in emission order (index = identity) *)
  n_resets : list Z;          (* final sizes of the RESET_STREAM frames emitted *)
  n_rreset : bool;            (* the receiver accepted a reset *)
  n_queue : list rout;        (* events queued for next_event(), oldest first *)
  n_dbytes : list Z;          (* ghost: concatenation of all bytes reported to the application *)
  n_ends : Z                  (* ghost: number of end-of-stream markers reported *)
}.

Definition net_init : net :=
  mkNet (send_init true) recv_init [] false [] [] false [] [] 0.

Inductive nop :=
| NWrite (d : list Z) (fin : bool)        (* send_stream_data *)
| NEmit (ms : Z) (mo : option Z)          (* _write_stream_frame with these caps *)
| NDeliver (i : Z)                        (* the network hands emitted frame i to the receiver *)
| NOutcome (i : Z) (acked : bool)         (* loss recovery reports ACKED / LOST for emitted frame i *)
| NReset (code : Z)                       (* reset_stream, or STOP_SENDING received *)
| NEmitReset                              (* _write_reset_stream_frame *)
| NDeliverReset (j : Z)                   (* the network hands emitted RESET_STREAM j to the receiver *)
| NResetOutcome (acked : bool)
| NPop                                    (* next_event() returns an event of this stream *)
| NSync.                                  (* next_event() returned None: the queue must be empty *)

Inductive nout :=
| ONone                                   (* done, nothing to report *)
| OFrame (off : Z) (data : list Z) (fin : bool)
| OResetFrame (final_size : Z)
| OFinalSizeError                         (* connection closed with FINAL_SIZE_ERROR *)
| OEvent (e : rout)
| OQueue (len : Z).

Definition nthE (l : list eframe) (i : Z) : option eframe :=
  if i <? 0 then None else nth_error l (Z.to_nat i).
Definition set_nth (i : Z) (f : eframe) (l : list eframe) : list eframe :=
  firstn (Z.to_nat i) l ++ f :: skipn (S (Z.to_nat i)) l.
Definition nthZo (l : list Z) (i : Z) : option Z :=
  if i <? 0 then None else nth_error l (Z.to_nat i).

Definition is_noneb {A} (o : option A) : bool := match o with None => true | Some _ => false end.

Definition with_send (s : net) (st : send) : net :=
  mkNet st (n_recv s) (n_written s) (n_racked s) (n_emitted s) (n_resets s) (n_rreset s) (n_queue s) (n_dbytes s) (n_ends s).

(* what the application is told, given the event returned by the receive half and whether the
   receive half had finished before *)
Definition report (was_finished : bool) (o : rout) (s : net) (r' : recv) (emitted' : list eframe) (rreset' : bool) : net :=
  let quiet := mkNet (n_send s) r' (n_written s) (n_racked s) emitted' (n_resets s) rreset' (n_queue s) (n_dbytes s) (n_ends s) in
  if was_finished then quiet else
  match o with
  | RData d e =>
      mkNet (n_send s) r' (n_written s) (n_racked s) emitted' (n_resets s) rreset'
            (n_queue s ++ [o]) (n_dbytes s ++ d) (n_ends s + b2z e)
  | RReset =>
      mkNet (n_send s) r' (n_written s) (n_racked s) emitted' (n_resets s) rreset'
            (n_queue s ++ [o]) (n_dbytes s) (n_ends s)
  | _ => quiet
  end.

(* one step; None = the step is not enabled in this state *)
Definition net_step (s : net) (op : nop) : option (nout * net) :=
  match op with
  | NWrite d fin =>
      if is_noneb (s_fin (n_send s)) && is_noneb (s_reset (n_send s)) then
        let '(_, st') := write (n_send s) d fin in
        Some (ONone, mkNet st' (n_recv s) (n_written s ++ d) (n_racked s) (n_emitted s) (n_resets s)
                           (n_rreset s) (n_queue s) (n_dbytes s) (n_ends s))
      else None
  | NEmit ms mo =>
      if is_noneb (s_reset (n_send s)) then
        match get_frame (n_send s) ms mo with
        | (SFrame off d fin, st') =>
            Some (OFrame off d fin,
                  mkNet st' (n_recv s) (n_written s) (n_racked s) (n_emitted s ++ [mkEF off d fin false None])
                        (n_resets s) (n_rreset s) (n_queue s) (n_dbytes s) (n_ends s))
        | (_, st') => Some (ONone, with_send s st')
        end
      else None
  | NDeliver i =>
      match nthE (n_emitted s) i with
      | Some f =>
          match handle_frame (n_recv s) (ef_off f) (ef_data f) (ef_fin f) with
          | (RFinalSizeError, _) => Some (OFinalSizeError, s)
          | (o, r') =>
              Some (ONone, report (r_finished (n_recv s)) o s r'
                                  (set_nth i (mkEF (ef_off f) (ef_data f) (ef_fin f) true (ef_out f)) (n_emitted s))
                                  (n_rreset s))
          end
      | None => None
      end
  | NOutcome i acked =>
      match nthE (n_emitted s) i with
      | Some f =>
          if is_noneb (ef_out f) && (negb acked || ef_deliv f) then
            let '(a, b, fin) := ef_key f in
            let '(_, st') := on_data_delivery (n_send s) acked a b fin in
            Some (ONone,
                  mkNet st' (n_recv s) (n_written s) (n_racked s)
                        (set_nth i (mkEF (ef_off f) (ef_data f) (ef_fin f) (ef_deliv f) (Some acked)) (n_emitted s))
                        (n_resets s) (n_rreset s) (n_queue s) (n_dbytes s) (n_ends s))
          else None
      | None => None
      end
  | NReset code =>
      let '(_, st') := reset (n_send s) code in Some (ONone, with_send s st')
  | NEmitReset =>
      if is_noneb (s_reset (n_send s)) then None else
      match get_reset_frame (n_send s) with
      | (SResetFrame _ fs, st') =>
          Some (OResetFrame fs,
                mkNet st' (n_recv s) (n_written s) (n_racked s) (n_emitted s) (n_resets s ++ [fs])
                      (n_rreset s) (n_queue s) (n_dbytes s) (n_ends s))
      | (_, st') => Some (ONone, with_send s st')
      end
  | NDeliverReset j =>
      match nthZo (n_resets s) j with
      | Some fs =>
          match handle_reset (n_recv s) fs with
          | (RFinalSizeError, _) => Some (OFinalSizeError, s)
          | (o, r') => Some (ONone, report (r_finished (n_recv s)) o s r' (n_emitted s) true)
          end
      | None => None
      end
  | NResetOutcome acked =>
      match n_resets s with
      | [] => None
      | _ :: _ =>
          let '(_, st') := on_reset_delivery (n_send s) acked in
          Some (ONone, mkNet st' (n_recv s) (n_written s) (if acked then true else n_racked s) (n_emitted s) (n_resets s)
                             (n_rreset s) (n_queue s) (n_dbytes s) (n_ends s))
      end
  | NPop =>
      match n_queue s with
      | e :: q =>
          Some (OEvent e, mkNet (n_send s) (n_recv s) (n_written s) (n_racked s) (n_emitted s) (n_resets s)
                                (n_rreset s) q (n_dbytes s) (n_ends s))
      | [] => None
      end
  | NSync => Some (OQueue (Zlen (n_queue s)), s)
  end.

(* ---------- executable interface ---------------------------------------------------
   ops: 0 fin n bytes = Write ; 1 max_size (0 | 1 max_offset) = Emit ; 2 i = Deliver ; 3 i acked = Outcome
        4 code = Reset ; 5 = EmitReset ; 6 j = DeliverReset ; 7 acked = ResetOutcome ; 8 = Pop ; 9 = Sync
   out per op: 9 = not enabled (state unchanged), else
        0 = nothing | 1 off fin n bytes = STREAM frame | 4 final_size = RESET_STREAM frame
        | 2 = FINAL_SIZE_ERROR | 5 fin n bytes = StreamDataReceived | 6 = StreamReset | 7 len = queue length *)
Definition out_nout (o : nout) : list Z :=
  match o with
  | ONone => [0]
  | OFrame off d f => 1 :: off :: b2z f :: out_list d
  | OResetFrame fs => [4; fs]
  | OFinalSizeError => [2]
  | OEvent (RData d e) => 5 :: b2z e :: out_list d
  | OEvent RReset => [6]
  | OEvent _ => [8]
  | OQueue n => [7; n]
  end.

Fixpoint exec_net (fuel : nat) (s : net) (ops : list Z) : list Z :=
  match fuel with O => [] | S fuel =>
  let k (r : option (nout * net)) (t : list Z) :=
    match r with
    | Some (o, s') => out_nout o ++ exec_net fuel s' t
    | None => 9 :: exec_net fuel s t
    end in
  match ops with
  | 0 :: fin :: t => let '(d, t) := tk_list t in k (net_step s (NWrite d (z2b fin))) t
  | 1 :: ms :: t => let '(mo, t) := tk_opt t in k (net_step s (NEmit ms mo)) t
  | 2 :: i :: t => k (net_step s (NDeliver i)) t
  | 3 :: i :: a :: t => k (net_step s (NOutcome i (z2b a))) t
  | 4 :: c :: t => k (net_step s (NReset c)) t
  | 5 :: t => k (net_step s NEmitReset) t
  | 6 :: j :: t => k (net_step s (NDeliverReset j)) t
  | 7 :: a :: t => k (net_step s (NResetOutcome (z2b a))) t
  | 8 :: t => k (net_step s NPop) t
  | 9 :: t => k (net_step s NSync) t
  | _ => []
  end end.

(* EXTRACT: exec_netsys *)
Definition exec_netsys (ops : list Z) : list Z := exec_net (length ops) net_init ops.
