(* C16: the closing round of QuicConnection.datagrams_to_send (the `if self._close_pending:` branch) and
   QuicConnection._write_connection_close_frame, on SIZES, over the QuicPacketBuilder model of C13 (model/Builder.v).

   The reason phrase is abstracted to the list of the UTF-8 widths (1..4 bytes) of its characters:
   len(reason_phrase.encode("utf8")) = the sum, and
   reason_bytes[:n].decode("utf8", "ignore").encode("utf8") = the longest prefix of WHOLE characters that fits in n
   bytes (a cut character is dropped by "ignore").  Every reason the HTTP/3 layer builds is ASCII (all widths 1;
   tools/gen/c16_close.py checks it), so no UnicodeEncodeError (lone surrogates) is modelled.

   Constants come from the source through gen/C16Close.v (close frame capacities, frame types, APPLICATION_ERROR) and
   gen/C13Consts.v (packet types). *)
From AQ Require Import lib.Base lib.Tok gen.C13Consts gen.C16Close model.Builder.

(* bytes of the longest prefix of whole characters that fits in [room] *)
Fixpoint utf8_prefix (widths : list Z) (room : Z) : Z :=
  match widths with
  | [] => 0
  | w :: t => if w <=? room then w + utf8_prefix t (room - w) else 0
  end.

(* buf.push_uint_var(v): ValueError for v >= 2^62 *)
Definition push_var (c : cfg) (s : st) (v : Z) : outcome * st :=
  match size_uint_var v with
  | Some n => push c s n
  | None => (OValue, s)
  end.

Definition seq (r : outcome * st) (k : st -> outcome * st) : outcome * st :=
  match r with (ODone, s) => k s | x => x end.

(* _write_connection_close_frame(builder, epoch, error_code, frame_type, reason_phrase); the epoch is given by the
   packet type of the packet it is written into (INITIAL / HANDSHAKE / ONE_RTT) *)
Definition write_close (c : cfg) (s : st) (ptype code : Z) (ftype : option Z) (reason : list Z) : outcome * st :=
  let early := (ptype =? PT_INITIAL) || (ptype =? PT_HANDSHAKE) in
  let conv := match ftype with None => early | Some _ => false end in
  let code := if conv then QUIC_APPLICATION_ERROR else code in
  let ftype := if conv then Some FT_CLOSE_PADDING else ftype in
  let reason := if conv then [] else reason in
  let len0 := zsum reason in
  let max_reason := Z.max 0 (remaining_buffer_space s - TRANSPORT_CLOSE_FRAME_CAPACITY) in
  let rlen := if len0 >? max_reason then utf8_prefix reason max_reason else len0 in
  match ftype with
  | None =>
      seq (start_frame c s FT_APPLICATION_CLOSE (APPLICATION_CLOSE_FRAME_CAPACITY + rlen)) (fun s =>
      seq (push_var c s code) (fun s =>
      seq (push_var c s rlen) (fun s => push c s rlen)))
  | Some ft =>
      seq (start_frame c s FT_TRANSPORT_CLOSE (TRANSPORT_CLOSE_FRAME_CAPACITY + rlen)) (fun s =>
      seq (push_var c s code) (fun s =>
      seq (push_var c s ft) (fun s =>
      seq (push_var c s rlen) (fun s => push c s rlen))))
  end.

(* one iteration of "for epoch, packet_type in epoch_packet_types": QuicPacketBuilderStop is caught (fix 26d6ec4),
   every other exception escapes datagrams_to_send *)
Definition close_packet (c : cfg) (s : st) (ptype code : Z) (ftype : option Z) (reason : list Z) : outcome * st :=
  match seq (start_packet c s ptype) (fun s => write_close c s ptype code ftype reason) with
  | (OStop, s') => (ODone, s')
  | x => x
  end.

Fixpoint close_packets (c : cfg) (s : st) (ptypes : list Z) (code : Z) (ftype : option Z) (reason : list Z)
  : outcome * st :=
  match ptypes with
  | [] => (ODone, s)
  | t :: rest => seq (close_packet c s t code ftype reason) (fun s => close_packets c s rest code ftype reason)
  end.

(* the whole closing round: builder = QuicPacketBuilder(...); the packets; builder.flush().
   Result: outcome, datagram lengths, sent packets *)
Definition close_round (c : cfg) (pn : Z) (ptypes : list Z) (code : Z) (ftype : option Z) (reason : list Z)
  : outcome * list Z * list spkt :=
  match close_packets c (init_st c pn) ptypes code ftype reason with
  | (ODone, s) => let '(o, _, d, p) := flush c s in (o, d, p)
  | (o, _) => (o, [], [])
  end.

(* ---------- executable interface ------------------------------------------------------------
   input:  is_client mds peer host token cmax_opt pn  code ftype_opt  nptypes ptype..  nchars width..
   output: outcome code, n, datagram lengths.., m, per packet (type, sent_bytes) *)
Definition exec_close_frame (toks : list Z) : list Z :=
  match toks with
  | cl :: mds :: peer :: host :: token :: r =>
      let '(cm, r) := tk_opt r in
      match r with
      | pn :: code :: r =>
          let '(ft, r) := tk_opt r in
          let '(pts, r) := tk_list r in
          let '(ws, _) := tk_list r in
          let c := mkCfg (z2b cl) mds peer host token None None cm in
          let '(o, d, p) := close_round c pn pts code ft ws in
          out_outcome o :: Zlen d :: d ++ Zlen p :: flat_map (fun x => let '(t, sent, _, _, _, _) := x in [t; sent]) p
      | _ => []
      end
  | _ => []
  end.

(* EXTRACT: exec_closeframe *)
Definition exec_closeframe (toks : list Z) : list Z := exec_close_frame toks.
