(* C08 (round e08): executable interface of model/ProbeBudget.v for the op-by-op correspondence suite `probebudget`.

   input: ops...
     0 pto                      handle_timer -> on_loss_detection_timeout fired (pto /= 0: the probe-timeout branch)
     1                          an early-retransmission site of the receive path was reached
     2                          any other public call
     3 skip close low hc hskeys confirmed INITIAL HANDSHAKE APP        one datagrams_to_send call with its decisions
         INITIAL, HANDSHAKE:  0 | 1 n (start ack crypto ping_ok empty) x n        (one group per packet-loop iteration)
         APP:                 0 | 1 n (paced start before ping_ok after empty) x n
         ack / crypto / before / after:  0 nothing  1 written  2 Stop, nothing ack-eliciting written  3 Stop after writing
   output per op: 0, 1, 2: the flag afterwards;  3: budget raised by the probe rule, an ack-eliciting frame was written,
   the flag afterwards. *)
From AQ Require Import lib.Base gen.C08Probe model.ProbeBudget.
(* gen/C08Probe.v carries the writer names as Coq strings; extracted as OCaml's native strings (without this directive the
   extracted code declares a type named string, which the shared OCaml driver cannot live with) *)
From Coq Require ExtrOcamlNativeString.

Definition rd_wr (z : Z) : wr :=
  if z =? 1 then WWritten else if z =? 2 then WStop false else if z =? 3 then WStop true else WNone.

Fixpoint rd_hs (n : nat) (t : list Z) : list hs_iter * list Z :=
  match n with
  | O => ([], t)
  | S n =>
      match t with
      | a :: b :: c :: d :: e :: r =>
          let '(l, r') := rd_hs n r in (mkHI (z2b a) (rd_wr b) (rd_wr c) (z2b d) (z2b e) :: l, r')
      | _ => ([], [])
      end
  end.

Fixpoint rd_app (n : nat) (t : list Z) : list app_iter * list Z :=
  match n with
  | O => ([], t)
  | S n =>
      match t with
      | a :: b :: c :: d :: e :: f :: r =>
          let '(l, r') := rd_app n r in (mkAI (z2b a) (z2b b) (rd_wr c) (z2b d) (rd_wr e) (z2b f) :: l, r')
      | _ => ([], [])
      end
  end.

Definition rd_ohs (t : list Z) : option (list hs_iter) * list Z :=
  match t with
  | [] => (None, [])
  | 0 :: r => (None, r)
  | _ :: n :: r => let '(l, r') := rd_hs (Z.to_nat n) r in (Some l, r')
  | _ :: [] => (None, [])
  end.

Definition rd_oapp (t : list Z) : option (list app_iter) * list Z :=
  match t with
  | [] => (None, [])
  | 0 :: r => (None, r)
  | _ :: n :: r => let '(l, r') := rd_app (Z.to_nat n) r in (Some l, r')
  | _ :: [] => (None, [])
  end.

Fixpoint exec_pb (fuel : nat) (s : pst) (t : list Z) : list Z :=
  match fuel with
  | O => []
  | S fuel =>
      match t with
      | 0 :: p :: r => let s' := step s (ETimeout (z2b p)) in b2z (s_pp s') :: exec_pb fuel s' r
      | 1 :: r => let s' := step s EEarly in b2z (s_pp s') :: exec_pb fuel s' r
      | 2 :: r => let s' := step s EOther in b2z (s_pp s') :: exec_pb fuel s' r
      | 3 :: sk :: cl :: lo :: hc :: hk :: cf :: r =>
          let '(oi, r) := rd_ohs r in
          let '(oh, r) := rd_ohs r in
          let '(oa, r) := rd_oapp r in
          let d := mkCall (z2b sk) (z2b cl) (mkCE (z2b lo) (z2b hc) (z2b hk) (fun _ => false)) (z2b cf) oi oh oa in
          let c := call (s_pp s) d in
          let s' := step s (ECall d) in
          b2z (raised c) :: b2z (ae c) :: b2z (s_pp s') :: exec_pb fuel s' r
      | _ => []
      end
  end.

(* EXTRACT: exec_probebudget *)
Definition exec_probebudget (toks : list Z) : list Z := exec_pb (length toks) init toks.
