(* C05: QuicConnection.receive_datagram from the RAW DATAGRAM BYTES (src/aioquic/quic/connection.py), as a total
   function with exceptions as outcomes:

     gate            `if self._state in END_STATES or self._close_pending: return`            (fix 54d8ff0)
     loop            `while not buf.eof()` over the coalesced packets of the datagram
     header          pull_quic_header (model/Header.v, C17's byte-level model, imported unchanged) inside
                     `try ... except ValueError: return`  (BufferReadError is a ValueError subclass)
     decisions       ConnRecv.recv_header_decide: datagram too small / unknown connection ID / Version Negotiation /
                     unsupported version / Retry / server first flight (fix ed82a68: drop instead of assert)
     negotiation     _receive_version_negotiation_packet, _receive_retry_packet (incl. buf.data_slice)
     initialisation  server: _initialize(header.destination_cid) on the first Initial packet
     keys            self._cryptos_initial[header.version] / self._cryptos[epoch] / self._spaces[epoch]: KeyError sites
     seek            buf.seek(start_off + header.packet_length): BufferReadError site
     decryption      crypto.decrypt_packet: an ORACLE per packet -- KeyUnavailableError / CryptoError (`continue`) or
                     plaintext (reserved bits, payload bytes): AEAD and header protection are C02's
     reserved bits   close(PROTOCOL_VIOLATION, PADDING); return
     payload         ConnRecv.payload_received (frame loop, all handlers, the TLS message layer below CRYPTO) inside
                     `try ... except QuicConnectionError: self.close(...)`
     gate again      `if self._state in END_STATES or self._close_pending: return` after every packet
     migration       server, 1-RTT, packet addressed to another host CID: change_connection_id()

     network paths   round s05: the table `_network_paths` is model/ConnPaths.v (_find_network_path, the MAX_NETWORK_PATHS
                     bound with its eviction, `.index`, promotion, validation flags); [dgram_loop_paths] below runs it inside
                     the packet loop: the server's first-flight `self._network_paths = [network_path]`, the payload's effects
                     on path objects, and the "update network path" block after every packet that passed the gate

   Not represented (cannot raise on network input / not read by any check here): qlog, idle timer (C09: Timers.v), spin
   bit, packet-number spaces and ACK scheduling (C08 / C10 / C12), anti-amplification byte counts (C13).

   Oracles, one record per packet whose header parsed ([pkt_orc]): which host CID the destination CID equals, the
   verdict on a Retry packet (integrity tag = AES-GCM), the answer of decrypt_packet, and the TLS-layer oracle records
   for the handle_message calls made while this packet's CRYPTO frames are handled.  No proofs in this file. *)
From AQ Require Import lib.Base lib.Tok model.RangeSet model.StreamRecv model.Frames gen.C05Tables model.ConnRecv.
From AQ Require model.Codec model.Header model.TlsRecv gen.TlsDispatch model.ConnPaths.

(* QuicConnectionState *)
Inductive qstate := Q_FIRSTFLIGHT | Q_CONNECTED | Q_CLOSING | Q_DRAINING | Q_TERMINATED.
Definition q_end (s : qstate) : bool :=
  match s with Q_CLOSING | Q_DRAINING | Q_TERMINATED => true | _ => false end.
Definition q_first (s : qstate) : bool := match s with Q_FIRSTFLIGHT => true | _ => false end.
Definition q_val (s : qstate) : Z :=
  match s with Q_FIRSTFLIGHT => 0 | Q_CONNECTED => 1 | Q_CLOSING => 2 | Q_DRAINING => 3 | Q_TERMINATED => 4 end.
Definition q_of (z : Z) : qstate :=
  if z =? 0 then Q_FIRSTFLIGHT else if z =? 1 then Q_CONNECTED else if z =? 2 then Q_CLOSING
  else if z =? 3 then Q_DRAINING else Q_TERMINATED.

Definition EXN_BufferReadError : Z := 11.    (* escaping Buffer.seek / data_slice error (a ValueError subclass) *)

Record dconn := mkD {
  d_st : cst;                   (* everything the frame handlers read and write, incl. self.tls and _close_event *)
  d_state : qstate;             (* _state *)
  d_pending : bool;             (* _close_pending *)
  d_init : bool;                (* _initialize() has run: _cryptos, _cryptos_initial, _spaces, tls exist *)
  d_hcl : Z;                    (* configuration.connection_id_length *)
  d_versions : list Z;          (* configuration.supported_versions *)
  d_version : Z;                (* _version *)
  d_vn_done : bool;             (* _version_negotiated_incompatible *)
  d_retry_count : Z;            (* _retry_count *)
  d_host_cid : Z                (* sequence number of self.host_cid *)
}.

Definition with_st (c : dconn) (st : cst) : dconn :=
  mkD st (d_state c) (d_pending c) (d_init c) (d_hcl c) (d_versions c) (d_version c) (d_vn_done c)
      (d_retry_count c) (d_host_cid c).
Definition with_state (c : dconn) (s : qstate) : dconn :=
  mkD (d_st c) s (d_pending c) (d_init c) (d_hcl c) (d_versions c) (d_version c) (d_vn_done c)
      (d_retry_count c) (d_host_cid c).
Definition with_pending (c : dconn) : dconn :=
  mkD (d_st c) (d_state c) true (d_init c) (d_hcl c) (d_versions c) (d_version c) (d_vn_done c)
      (d_retry_count c) (d_host_cid c).

Record pkt_orc := mkPO {
  po_dcid_seq : Z;              (* sequence number of the host CID equal to header.destination_cid, -1: none *)
  po_retry_ok : bool;           (* Retry: destination_cid == host_cid and the integrity tag verifies *)
  po_decrypt : Z;               (* decrypt_packet: 1 KeyUnavailableError | 2 CryptoError | other: plaintext *)
  po_reserved : bool;           (* plain_header[0] & reserved_mask *)
  po_payload : list Z;          (* plain_payload *)
  po_tls : list (list TlsRecv.orc)   (* TLS oracle records: one list per handle_message call of this packet *)
}.
Definition po0 : pkt_orc := mkPO (-1) false 2 false [] [].

(* ---------- pieces *)
(* close(error_code, frame_type): `if self._close_event is None and self._state not in END_STATES` *)
Definition do_close (c : dconn) (code ft : Z) : dconn :=
  match c_close (d_st c) with
  | None => if q_end (d_state c) then c
            else with_pending (with_st c (set_close (d_st c) (Some (true, code, ft))))
  | Some _ => c
  end.

(* a fresh tls.Context after _initialize(): the client's then sends its ClientHello (handle_message(b"")) *)
Definition fresh_ctx (is_client : bool) (g : TlsRecv.tcfg) : TlsRecv.tctx :=
  if is_client
  then TlsRecv.client_send_hello g (TlsRecv.mkCtx TlsDispatch.CLIENT_HANDSHAKE_START [] false None false (-1) false)
  else TlsRecv.mkCtx TlsDispatch.SERVER_EXPECT_CLIENT_HELLO [] false None false (-1) false.

(* _initialize(peer_cid): new tls.Context, new CRYPTO streams, new crypto pairs and packet spaces *)
Definition initialize (c : dconn) : dconn :=
  let st := d_st c in
  let t := c_tls st in
  let t' := mkTls (ts_cfg t) (fresh_ctx (c_is_client st) (ts_cfg t)) (ts_orcs t) in
  let st := set_crypto (set_crypto (set_crypto st EPOCH_INITIAL recv_init t') EPOCH_HANDSHAKE recv_init t')
                       EPOCH_ONE_RTT recv_init t' in
  mkD st (d_state c) (d_pending c) true (d_hcl c) (d_versions c) (d_version c) (d_vn_done c)
      (d_retry_count c) (d_host_cid c).

Definition with_version (c : dconn) (v : Z) (vn_done : bool) (retries : Z) : dconn :=
  mkD (d_st c) (d_state c) (d_pending c) (d_init c) (d_hcl c) (d_versions c) v vn_done retries (d_host_cid c).

(* _close_end() out of _receive_version_negotiation_packet: _close_event = INTERNAL_ERROR, state TERMINATED *)
Definition vn_terminate (c : dconn) : dconn :=
  with_state (with_st c (set_close (d_st c) (Some (true, EC_INTERNAL_ERROR, FT_PADDING)))) Q_TERMINATED.

(* _receive_version_negotiation_packet *)
Definition vn_packet (c : dconn) (h : Header.header) : dconn :=
  if c_is_client (d_st c) && q_first (d_state c) && negb (d_vn_done c) then
    if zmem (d_version c) (Header.h_versions h) then c
    else match find (fun v => zmem v (Header.h_versions h)) (d_versions c) with
         | None => vn_terminate c
         | Some v => initialize (with_version c v true (d_retry_count c))      (* _connect(now) *)
         end
  else c.

(* _receive_retry_packet *)
Definition retry_packet (c : dconn) (o : pkt_orc) : dconn :=
  if c_is_client (d_st c) && (d_retry_count c =? 0) && po_retry_ok o
  then initialize (with_version c (d_version c) (d_vn_done c) (d_retry_count c + 1))
  else c.

Definition epoch_of (ptype : Z) : Z :=      (* get_epoch *)
  if ptype =? Header.PT_INITIAL then EPOCH_INITIAL
  else if ptype =? Header.PT_ZERO_RTT then EPOCH_ZERO_RTT
  else if ptype =? Header.PT_HANDSHAKE then EPOCH_HANDSHAKE else EPOCH_ONE_RTT.

(* one decrypted packet from the reserved-bits check to the end of `except QuicConnectionError` *)
Inductive pres2 : Type :=
| P2Ok (st : cst) (nlog : Z)
| P2Exn (nlog : Z) (k : Z).

Definition close_of (st : cst) (code ft : Z) : cst :=
  match c_close st with None => set_close st (Some (true, code, ft)) | Some _ => st end.

Definition packet_step (patched : bool) (st : cst) (epoch : Z) (creq rbits : bool) (b : list Z) : pres2 :=
  if rbits then P2Ok (close_of st EC_PROTOCOL_VIOLATION FT_PADDING) 0 else
  match payload_received patched st epoch creq b with
  | PDone st' nlog _ _ => P2Ok st' nlog
  | PQErr prior nlog code ft =>
      (* the frames handled before the raise are not replayed into the state: after close() nothing of it is read
         again by the receive path (gate), only _close_event *)
      P2Ok (close_of (set_close st prior) code ft) nlog
  | PExn nlog k => P2Exn nlog k
  end.

(* how _close_event changed over the packet decides _close_pending / DRAINING
   (close() and _handle_connection_close_frame both test `self._close_event is None`) *)
Definition after_packet (c : dconn) (st' : cst) : dconn :=
  match c_close (d_st c), c_close st' with
  | None, Some (true, _, _) => if q_end (d_state c) then with_st c st' else with_pending (with_st c st')
  | None, Some (false, _, _) => with_state (with_st c st') Q_DRAINING
  | _, _ => with_st c st'
  end.

(* change_connection_id(): `if self._peer_cid_available:` retire the current peer CID, consume the next *)
Definition change_connection_id (st : cst) : cst :=
  match c_peer_avail st with
  | [] => st
  | next :: rest => set_peer st next (c_peer_rpt st) (c_retire_pending st + 1) rest (c_peer_seen st)
  end.

Definition with_host_cid (c : dconn) (seq : Z) : dconn :=
  mkD (d_st c) (d_state c) (d_pending c) (d_init c) (d_hcl c) (d_versions c) (d_version c) (d_vn_done c)
      (d_retry_count c) seq.

Definition set_ctx_cid (st : cst) (seq : Z) (orcs : list (list TlsRecv.orc)) : cst :=
  mkCst (c_is_client st) (c_md_used st) (c_md_value st) (c_ms_bidi st) (c_ms_uni st) (c_msd_bidi_remote st)
    (c_msd_uni st) (c_dgram_max st) (c_host_seq st) seq (c_remote_cid_limit st) (c_peer_seq st)
    (c_peer_rpt st) (c_retire_pending st) (c_cid_limit st)
    (mkTls (ts_cfg (c_tls st)) (ts_ctx (c_tls st)) orcs) (c_host_cids st)
    (c_peer_avail st) (c_peer_seen st) (c_challenges st) (c_finished st) (c_streams st)
    (c_crypto_i st) (c_crypto_h st) (c_crypto_1 st) (c_close st) (c_host_unsent st).

(* ---------- trace of what happened to each packet (the observables of the tie: qlog packet_dropped triggers and
   packet_received records) *)
Definition T_HEADER : Z := 10.       (* header_parse_error *)
Definition T_DROP : Z := 20.         (* 20 + why of recv_header_decide *)
Definition T_NEGOTIATE : Z := 30.    (* Version Negotiation / Retry handled or ignored *)
Definition T_KEY : Z := 41.          (* key_unavailable *)
Definition T_DECRYPT : Z := 42.      (* payload_decrypt_error *)
Definition T_PACKET : Z := 100.      (* 100 + number of frames logged *)

Inductive dres : Type :=
| DOk (c : dconn) (trace : list Z)
| DRaise (k : Z) (trace : list Z).

(* ---------- one iteration of `while not buf.eof()`.  [bs] = data[buf.tell():] (non-empty), [total] = len(data) *)
Inductive dstep : Type :=
| SDone (r : dres)                                                            (* return / raise *)
| SNextPkt (c : dconn) (next : list Z) (orcs : list pkt_orc) (tr : list Z).   (* continue / end of the loop body *)

Definition dgram_step (patched : bool) (total : Z) (c : dconn) (bs : list Z) (orcs : list pkt_orc) (tr : list Z) : dstep :=
    match Header.pull_quic_header (d_hcl c) bs with
    | Err k =>
        if (k =? Codec.E_READ) || (k =? Codec.E_VALUE) then SDone (DOk c (tr ++ [T_HEADER]))      (* except ValueError: return *)
        else SDone (DRaise k tr)
    | Ok (h, rest) =>
        let o := hd po0 orcs in
        let orcs := tl orcs in
        let st := d_st c in
        let ptype := Header.h_type h in
        let vs := match Header.h_version h with None => true | Some v => zmem v (d_versions c) end in
        match recv_header_decide patched (c_is_client st) (q_first (d_state c)) ptype total
                                 (0 <=? po_dcid_seq o) vs with
        | DExn k => SDone (DRaise k tr)
        | DDrop why => SDone (DOk c (tr ++ [T_DROP + why]))
        | DNegotiate =>
            if ptype =? Header.PT_VERSION_NEGOTIATION then SDone (DOk (vn_packet c h) (tr ++ [T_NEGOTIATE]))
            else
              (* packet_without_tag = buf.data_slice(start_off, buf.tell() - RETRY_INTEGRITY_TAG_SIZE) *)
              if Zlen bs - Zlen rest - Header.RETRY_INTEGRITY_TAG_SIZE <? 0 then SDone (DRaise EXN_BufferReadError tr)
              else SDone (DOk (retry_packet c o) (tr ++ [T_NEGOTIATE]))
        | DProcess creq =>
            (* Server initialization *)
            let c := if creq
                     then initialize (with_version c (match Header.h_version h with Some v => v | None => d_version c end)
                                                   (d_vn_done c) (d_retry_count c))
                     else c in
            (* self._cryptos_initial[header.version] / self._cryptos[epoch] / self._spaces[epoch] *)
            if negb (d_init c) then SDone (DRaise EXN_KeyError tr) else
            (* buf.seek(start_off + header.packet_length) *)
            if (Header.h_length h <? 0) || (Header.h_length h >? Zlen bs) then SDone (DRaise EXN_BufferReadError tr) else
            let next := zdrop (Header.h_length h) bs in
            if po_decrypt o =? 1 then SNextPkt c next orcs (tr ++ [T_KEY])
            else if po_decrypt o =? 2 then SNextPkt c next orcs (tr ++ [T_DECRYPT])
            else
              let epoch := epoch_of ptype in
              (* reserved bits: close(); return -- before the state leaves FIRSTFLIGHT *)
              if po_reserved o then SDone (DOk (do_close c EC_PROTOCOL_VIOLATION FT_PADDING) (tr ++ [T_PACKET]))
              else
              let c := if q_first (d_state c) then with_state c Q_CONNECTED else c in
              let st := set_ctx_cid (d_st c) (po_dcid_seq o) (po_tls o) in
              match packet_step patched st epoch creq false (po_payload o) with
              | P2Exn nlog k => SDone (DRaise k (tr ++ [T_PACKET + nlog]))
              | P2Ok st' nlog =>
                  let c := after_packet (with_st c st) st' in
                  let tr := tr ++ [T_PACKET + nlog] in
                  if q_end (d_state c) || d_pending c then SDone (DOk c tr) else
                  (* handle migration *)
                  let c := if negb (c_is_client (d_st c)) && negb (po_dcid_seq o =? d_host_cid c) && (epoch =? EPOCH_ONE_RTT)
                           then with_host_cid (with_st c (change_connection_id (d_st c))) (po_dcid_seq o)
                           else c in
                  SNextPkt c next orcs tr
              end
        end
    end.

(* ---------- the loop; the fuel is never exhausted (ConnDgramP.dgram_fuel_any: every packet has at least one byte) *)
Fixpoint dgram_loop (fuel : nat) (patched : bool) (total : Z) (c : dconn) (bs : list Z) (orcs : list pkt_orc)
         (tr : list Z) : dres :=
  match bs with
  | [] => DOk c tr
  | _ :: _ =>
  match fuel with
  | O => DOk c tr
  | S fuel =>
      match dgram_step patched total c bs orcs tr with
      | SDone r => r
      | SNextPkt c' next orcs' tr' => dgram_loop fuel patched total c' next orcs' tr'
      end
  end
  end.

Definition receive_datagram (patched : bool) (c : dconn) (data : list Z) (orcs : list pkt_orc) : dres :=
  if q_end (d_state c) || d_pending c then DOk c []
  else dgram_loop (S (length data)) patched (Zlen data) c data orcs [].

(* ---------- the packet loop WITH the network-path table (model/ConnPaths.v) ------------------------------------------
   What an iteration of the loop did is read off the trace entry it appended:
     T_KEY / T_DECRYPT / T_PACKET + n   the packet got past the header decisions (`processed`): a server in FIRSTFLIGHT has
                                        executed `self._network_paths = [network_path]` before looking for keys;
     T_PACKET + n                       a payload was handled (`handled`; reserved bits: no payload, no effects): its
                                        PATH_CHALLENGE / PATH_RESPONSE frames acted on path objects;
     ... and the iteration continued    (SNextPkt) the gate was open: the "update network path" block runs;
     ... and the iteration returned     (SDone) close / reserved bits: the block does not run.
   [vs]: for the packets whose payload is handled, in order, what only the frame layer / the packet-number space know
   (ConnPaths.ppkt: epoch is Handshake, probing, newest, which entries PATH_RESPONSE validated, PATH_CHALLENGE count);
   k_reset and k_reached of the input are IGNORED: both are decided here. *)
Definition appended (tr tr' : list Z) : bool := Zlen tr <? Zlen tr'.
Definition processed (tr tr' : list Z) : bool := appended tr tr' && (T_KEY <=? last tr' 0).
Definition handled (tr tr' : list Z) : bool := appended tr tr' && (T_PACKET <=? last tr' 0).
Definition vk0 : ConnPaths.ppkt := ConnPaths.mkK false false false false false [] 0.
Definition verdict (k : ConnPaths.ppkt) (reached : bool) : ConnPaths.ppkt :=
  ConnPaths.mkK false reached (ConnPaths.k_hs k) (ConnPaths.k_probing k) (ConnPaths.k_newer k) (ConnPaths.k_resp k)
                (ConnPaths.k_nchal k).

Fixpoint dgram_loop_paths (fuel : nat) (patched : bool) (total : Z) (c : dconn) (bs : list Z) (orcs : list pkt_orc)
         (tr : list Z) (tab : ConnPaths.ptable) (cur : ConnPaths.pent) (vs : list ConnPaths.ppkt)
  : dres * ConnPaths.ures :=
  match bs with
  | [] => (DOk c tr, ConnPaths.UOk tab cur)
  | _ :: _ =>
  match fuel with
  | O => (DOk c tr, ConnPaths.UOk tab cur)
  | S fuel =>
      let first := negb (c_is_client (d_st c)) && q_first (d_state c) in
      match dgram_step patched total c bs orcs tr with
      | SDone (DRaise k tr') => (DRaise k tr', ConnPaths.UOk tab cur)
      | SDone (DOk c' tr') =>
          let tab := if first && processed tr tr' then [cur] else tab in
          if handled tr tr'
          then (DOk c' tr', ConnPaths.path_packet tab cur (verdict (hd vk0 vs) false))
          else (DOk c' tr', ConnPaths.UOk tab cur)
      | SNextPkt c' next orcs' tr' =>
          let tab := if first && processed tr tr' then [cur] else tab in
          if handled tr tr'
          then match ConnPaths.path_packet tab cur (verdict (hd vk0 vs) true) with
               | ConnPaths.UOk tab' cur' => dgram_loop_paths fuel patched total c' next orcs' tr' tab' cur' (tl vs)
               | ConnPaths.URaise k => (DRaise k tr', ConnPaths.URaise k)      (* IndexError / ValueError out of the block *)
               end
          else dgram_loop_paths fuel patched total c' next orcs' tr' tab cur vs
      end
  end
  end.

(* receive_datagram with the table: `network_path = self._find_network_path(addr)` comes after the gate *)
Definition receive_datagram_paths (patched : bool) (c : dconn) (data : list Z) (orcs : list pkt_orc)
           (s : ConnPaths.pstate) (addr : Z) (vs : list ConnPaths.ppkt) : dres * ConnPaths.pres :=
  if q_end (d_state c) || d_pending c then (DOk c [], ConnPaths.PROk s)
  else
    let '(cur, next) := ConnPaths.find_network_path s addr in
    match dgram_loop_paths (S (length data)) patched (Zlen data) c data orcs [] (ConnPaths.ps_tab s) cur vs with
    | (r, ConnPaths.UOk tab _) => (r, ConnPaths.PROk (ConnPaths.mkPS tab next))
    | (r, ConnPaths.URaise k) => (r, ConnPaths.PRRaise k)
    end.

(* ---------- executable interface ----------------------------------------------------------------------
   in : patched, connection scalars (state pending init hcl version vn_done retry_count host_cid), versions (list),
        the cst tokens of ConnRecv.exec_packet from is_client to the tls.Context (no oracle lists),
        n packet oracles: dcid_seq retry_ok decrypt reserved payload (list) ncalls (count, records)*,
        datagram (list)
   out: kind (0 returned | 3 exception k), state value, close pending, close event (0 | 1 by-us code ft | 2 peer code ft),
        trace (length-prefixed) *)
Fixpoint rd_pkt_orcs (n : nat) (t : list Z) : list pkt_orc * list Z :=
  match n with
  | O => ([], t)
  | S n =>
      match t with
      | seq :: rok :: dec :: rsv :: t =>
          let '(payload, t) := tk_list t in
          match t with
          | ncalls :: t =>
              let '(tls, t) := rd_orc_lists (Z.to_nat ncalls) t in
              let '(r, t) := rd_pkt_orcs n t in
              (mkPO seq (z2b rok) dec (z2b rsv) payload tls :: r, t)
          | [] => ([], [])
          end
      | _ => ([], [])
      end
  end.

Definition out_close (ev : option (bool * Z * Z)) : list Z :=
  match ev with
  | None => [0; 0; 0]
  | Some (true, code, ft) => [1; code; ft]
  | Some (false, code, ft) => [2; code; ft]
  end.

Definition out_dres (r : dres) : list Z :=
  match r with
  | DOk c tr => [0; 0; q_val (d_state c); b2z (d_pending c)] ++ out_close (c_close (d_st c)) ++ [Zlen tr] ++ tr
  | DRaise k tr => [3; k; 0; 0; 0; 0; 0] ++ [Zlen tr] ++ tr
  end.

Definition exec_dgram (t : list Z) : list Z :=
  match t with
  | patched :: state :: pending :: init :: hcl :: version :: vn_done :: retries :: host_cid :: t =>
      let '(versions, t) := tk_list t in
      match rd_cst t with
      | Some (st, npk :: t) =>
          let '(orcs, t) := rd_pkt_orcs (Z.to_nat npk) t in
          let '(data, _) := tk_list t in
          let c := mkD st (q_of state) (z2b pending) (z2b init) hcl versions version (z2b vn_done) retries host_cid in
          out_dres (receive_datagram (z2b patched) c data orcs)
      | _ => []
      end
  | _ => []
  end.
(* EXTRACT: exec_dgram *)
